"""Seeded mutants used to test the checker both ways (development tool, see tools/selftest.py).

Each entry: (name, property, [(file, nth, old, new), ...], expectation, rule-prefix expected in the report)
expectation: "fire" = the check must exit 1 naming a rule with that prefix; "quiet" = behaviour-preserving
edit, the check must stay at exit 0.  nth = which occurrence of `old` to replace (1-based).
"""
Q = "ragc-core/src/memory_bounded_queue.rs"
A = "ragc-core/src/agc_compressor.rs"
R = "ragc-common/src/archive.rs"
V = "ragc-common/src/varint.rs"
D = "ragc-core/src/decompressor.rs"
M = "ragc-cli/src/main.rs"
C = "ragc-common/src/collection.rs"
L = "ragc-core/src/lz_diff.rs"
G = "ragc-core/src/genome_io.rs"
S = "ragc-core/src/segment.rs"
SP = "ragc-core/src/splitters.rs"
K = "ragc-core/src/kmer.rs"
T = "ragc-core/src/tuple_packing.rs"
SC = "ragc-core/src/segment_compression.rs"
TY = "ragc-common/src/types.rs"
N = "ragc-common/src/stream_naming.rs"
CI = "ragc-core/src/contig_iterator.rs"

MUTANTS = [
    # ---------------------------------------------------------------- C06
    ("c06-while-to-if", "C06", [(Q, 1, "        while inner.items.is_empty() && !inner.closed {", "        if inner.items.is_empty() && !inner.closed {")], "fire", "C06-Q4"),
    ("c06-no-notify-after-pull", "C06", [(Q, 1, "        inner.current_size -= priority_item.size;\n\n        // Signal that queue has space\n        self.not_full.notify_one();\n\n        Some(priority_item.item)\n    }\n\n    /// Try to pull",
                                         "        inner.current_size -= priority_item.size;\n\n        Some(priority_item.item)\n    }\n\n    /// Try to pull")], "fire", "C06-Q5"),
    ("c06-close-wrong-condvar", "C06", [(Q, 1, "        self.not_full.notify_all();\n        self.not_empty.notify_all();", "        self.not_empty.notify_all();\n        self.not_empty.notify_all();")], "fire", "C06-Q5"),
    ("c06-cmp-includes-size", "C06", [(Q, 1, "        self.item.cmp(&other.item)\n    }", "        self.item.cmp(&other.item).then(self.size.cmp(&other.size))\n    }")], "fire", "C06-Q7"),
    ("c06-try-push-ignores-size", "C06", [(Q, 1, "        if inner.current_size + size_bytes > self.capacity_bytes {\n            return Err(TryPushError::WouldBlock);", "        if inner.current_size > self.capacity_bytes {\n            return Err(TryPushError::WouldBlock);")], "fire", "C06-Q8"),
    ("c06-try-push-no-closed-test", "C06", [(Q, 1, "        if inner.closed {\n            return Err(TryPushError::Closed);\n        }\n", "")], "fire", "C06-Q6"),
    ("c06-benign-predicate-rewrite", "C06", [(Q, 1, "        if inner.current_size + size_bytes > self.capacity_bytes {\n            return Err(TryPushError::WouldBlock);", "        let total = size_bytes + inner.current_size;\n        if !(total <= self.capacity_bytes) {\n            return Err(TryPushError::WouldBlock);")], "quiet", ""),
    # ---------------------------------------------------------------- C05
    ("c05-barrier3-only-worker0", "C05", [(A, 1, "            // Barrier 3: All workers done with compression and buffering\n            let barrier_start = std::time::Instant::now();\n            barrier.wait();", "            // Barrier 3: All workers done with compression and buffering\n            let barrier_start = std::time::Instant::now();\n            if worker_id == 0 { barrier.wait(); }")], "fire", "C05-T2"),
    ("c05-final-tokens-n-minus-1", "C05", [(A, 1, "        let sequence = 0;\n\n        for _ in 0..self.config.num_threads {", "        let sequence = 0;\n\n        for _ in 1..self.config.num_threads {")], "fire", "C05-T1"),
    ("c05-close-before-tokens", "C05", [(A, 1, "        // Use sequence 0 and high priority to ensure sync tokens are processed last\n        let sequence = 0;\n", "        let sequence = 0;\n        self.queue.close();\n")], "fire", "C05-T3"),
    ("c05-lock-across-barrier", "C05", [(A, 1, "            // Barrier 2: All workers see prepared buffers\n            let barrier_start = std::time::Instant::now();\n            barrier.wait();", "            // Barrier 2: All workers see prepared buffers\n            let barrier_start = std::time::Instant::now();\n            let _bs = batch_samples.lock().unwrap();\n            barrier.wait();\n            drop(_bs);")], "fire", "C05-T2"),
    ("c05-revert-f4", "C05", [(Q, 1, "        while inner.current_size + size_bytes > self.capacity_bytes\n            && !inner.items.is_empty()\n            && !inner.closed\n        {", "        while inner.current_size + size_bytes > self.capacity_bytes && !inner.closed {")], "fire", "C05-T5"),
    # ---------------------------------------------------------------- C14
    ("c14-footer-check-too-weak", "C14", [(R, 1, "        if footer_size > file_size - 8 {", "        if footer_size > file_size {")], "fire", "C14-AUDIT"),
    ("c14-part-check-size-only", "C14", [(R, 1, "if offset > data_end || size > data_end - offset {", "if offset > data_end {")], "fire", "C14-VALID"),
    ("c14-ignore-short-read", "C14", [(R, 1, "        file.read_exact(&mut footer)?;", "        let _ = file.read_exact(&mut footer);")], "fire", "C14-ERR"),
    ("c14-benign-guard-rewrite", "C14", [(R, 1, "        if footer_size > file_size - 8 {", "        let avail = file_size - 8;\n        if !(footer_size <= avail) {")], "quiet", ""),
    # ---------------------------------------------------------------- C15
    ("c15-flush-buffers-ok", "C15", [(A, 1, "            archive\n                .flush_buffers()\n                .context(\"Failed to flush archive buffers\")?;", "            archive.flush_buffers().ok();")], "fire", "C15-E1"),
    ("c15-serialize-drops-flush", "C15", [(R, 1, "        writer.write_all(&footer_size.to_le_bytes())?;\n\n        writer.flush()?;", "        writer.write_all(&footer_size.to_le_bytes())?;\n\n        let _ = writer.flush();")], "fire", "C15-E1"),
    ("c15-buffered-writes-through", "C15", [(R, 1, "    pub fn add_part_buffered(&mut self, stream_id: usize, data: Vec<u8>, metadata: u64) {", "    pub fn add_part_buffered(&mut self, stream_id: usize, data: Vec<u8>, metadata: u64) {\n        if data.len() > (1 << 20) {\n            let _ = self.add_part(stream_id, &data, metadata);\n            return;\n        }")], "fire", "C15-E"),
    ("c15-cli-prints-finalize-error", "C15", [(M, 1, "        compressor.finalize()?;", "        if let Err(e) = compressor.finalize() { eprintln!(\"warning: {e}\"); }")], "fire", "C15-E"),
    ("c15-finalize-early-ok", "C15", [(A, 1, "        // Write collection metadata to archive\n        {\n            let mut archive = self.archive.lock().unwrap();", "        if num_samples == 0 { return Ok(()); }\n        {\n            let mut archive = self.archive.lock().unwrap();")], "fire", "C15-E2"),
    # ---------------------------------------------------------------- C13
    ("c13-footer-swaps-offset-size", "C13", [(R, 1, "                write_varint(&mut footer, part.offset)?;\n                write_varint(&mut footer, part.size)?;", "                write_varint(&mut footer, part.size)?;\n                write_varint(&mut footer, part.offset)?;")], "fire", "C13-FOOT"),
    ("c13-hashmap-write-buffer", "C13", [(R, 1, "    write_buffer: BTreeMap<usize, Vec<(Vec<u8>, u64)>>,", "    write_buffer: HashMap<usize, Vec<(Vec<u8>, u64)>>,"), (R, 1, "            write_buffer: BTreeMap::new(),", "            write_buffer: HashMap::new(),"), (R, 1, "            write_buffer: BTreeMap::new(),", "            write_buffer: HashMap::new(),")], "fire", "C13-ORD"),
    ("c13-varint-little-endian", "C13", [(V, 1, "    for i in (0..no_bytes).rev() {", "    for i in 0..no_bytes {")], "fire", "C13-VAR"),
    ("c13-skip-accounting", "C13", [(R, 1, "        writer.write_all(data)?;\n        self.f_offset += data.len() as u64;", "        writer.write_all(data)?;\n        if metadata != 0 { self.f_offset += data.len() as u64; }")], "fire", "C13-OFF"),
    # ---------------------------------------------------------------- C17
    ("c17-sort-request", "C17", [(M, 1, "        // Extract specific samples\n        samples", "        // Extract specific samples\n        let mut samples = samples; samples.sort(); samples")], "fire", "C17-R4"),
    ("c17-listctg-swallows-error", "C17", [(M, 1, "        let contigs = decompressor.list_contigs(sample_name)?;", "        let contigs = decompressor.list_contigs(sample_name).unwrap_or_default();")], "fire", "C17-R3"),
    ("c17-stdout-via-file-per-sample", "C17", [(M, 1, "        let mut writer = GenomeWriter::new(io::stdout().lock());\n        for sample_name in &samples_to_extract {\n            if verbosity > 0 {\n                eprintln!(\"Extracting sample: {sample_name}\");\n            }\n            decompressor.write_sample_to(sample_name, &mut writer)?;\n        }\n        drop(writer);",
                                          "        let tmp = std::env::temp_dir().join(\"x.fa\");\n        for sample_name in &samples_to_extract {\n            decompressor.write_sample_fasta(sample_name, &tmp)?;\n        }\n        io::stdout().write_all(&std::fs::read(&tmp)?)?;")], "fire", "C17-R1"),
    ("c17-batch-returns-ok", "C17", [(M, 1, "    anyhow::bail!(\"--batch mode is not supported; omit --batch to use the streaming compressor\")", "    Ok(())")], "fire", "C17-R2"),
    # ---------------------------------------------------------------- C08
    ("c08-loader-not-idempotent", "C08", [(C, 1, "        if id_batch < self.contig_batches_loaded {\n            return Ok(());\n        }", "")], "fire", "C08-H2"),
    ("c08-second-cache-filler", "C08", [(D, 1, "    pub fn get_reference_segment(&mut self, group_id: u32) -> Result<Contig> {", "    pub fn get_reference_segment(&mut self, group_id: u32) -> Result<Contig> {\n        if group_id == u32::MAX { self.segment_cache.insert(group_id, Vec::new()); }")], "fire", "C08-H3"),
    ("c08-query-advances-cursor", "C08", [(D, 1, "        let (mut ref_data, ref_metadata) = self.archive.get_part_by_id(ref_stream_id, 0)?;", "        let (mut ref_data, ref_metadata) = self.archive.get_part(ref_stream_id)?.ok_or_else(|| anyhow!(\"no part\"))?;")], "fire", "C08-H1"),
    ("c08-unwrap-on-name-lookup", "C08", [(D, 1, "            .get_contig_desc(sample_name, contig_name)\n            .ok_or_else(|| anyhow!(\"Contig not found: {sample_name}/{contig_name}\"))?;\n\n        // Compute length", "            .get_contig_desc(sample_name, contig_name)\n            .unwrap();\n\n        // Compute length")], "fire", "C08-H4"),
    # ---------------------------------------------------------------- C09 / C16
    ("c09-revert-f2", "C09", [(L, 1, "(b'A'..=b'A' + 32).contains(&c) || c == b'!'", "(b'A'..=b'A' + 20).contains(&c) || c == b'!'")], "fire", "C09-ALPHA"),
    ("c09-new-symbol-40", "C09", [(G, 1, "    30, 30, 5, 7, 3, 15, 14, 8, 30, 6, 30, 30, 30, 30, 30, 30,\n    // 96-111", "    30, 30, 5, 7, 3, 15, 14, 8, 30, 6, 40, 30, 30, 30, 30, 30,\n    // 96-111")], "fire", "C09-ALPHA"),
    ("c09-match-separator-is-literal", "C09", [(L, 1, "            encoded.push(b',');", "            encoded.push(b'A' + 25);")], "fire", "C09-ALPHA"),
    ("c09-nrun-starter-differs", "C09", [(L, 1, "        encoded.push(N_RUN_STARTER_CODE);", "        encoded.push(N_RUN_STARTER_CODE + 1);")], "fire", "C09-ALPHA"),
    ("c16-revert-f6", "C16", [(G, 1, "                if at_eof {\n                    return Ok(None);\n                }\n                continue;", "                return Ok(None);")], "fire", "C16-EOF"),
    ("c16-getrange-unknown-to-x", "C16", [(M, 1, ".map(|&b| if b < 16 { CNV_NUM[b as usize] } else { b'N' })", ".map(|&b| if b < 16 { CNV_NUM[b as usize] } else { b'X' })")], "fire", "C16-OUT"),
    ("c16-writer-threshold-15", "C16", [(D, 1, "                let ascii_base = if base < 16 {", "                let ascii_base = if base < 15 {")], "fire", "C16-OUT"),
    ("c16-filter-keeps-digits", "C16", [(G, 1, "            if c > 64 && (c as usize) < CNV_NUM.len() {", "            if c > 47 && (c as usize) < CNV_NUM.len() {")], "fire", "C16-OUT"),
    # ---------------------------------------------------------------- C19 / C20
    ("c19-single-member-gz", "C19", [(G, 1, "use flate2::read::MultiGzDecoder;", "use flate2::read::{GzDecoder, MultiGzDecoder};"), (G, 1, "            Box::new(MultiGzDecoder::new(file))", "            Box::new(GzDecoder::new(file))")], "fire", "C19-G1"),
    ("c19-case-sensitive-n", "C19", [(G, 1, "    b' ', 0, 11, 1, 12, 30, 30, 2, 13, 30, 30, 9, 30, 10, 4, 30,\n    // 112-127", "    b' ', 0, 11, 1, 12, 30, 30, 2, 13, 30, 30, 9, 30, 10, 30, 30,\n    // 112-127")], "fire", "C19-G2"),
    ("c19-id-not-trimmed", "C19", [(G, 1, "            let id = id_line.trim_start_matches('>').trim().to_string();", "            let id = id_line.trim_start_matches('>').trim_end_matches('\\n').to_string();")], "fire", "C19-G4"),
    ("c20-dir-strict-less", "C20", [(K, 1, "            self.kmer_dir <= self.kmer_rc\n        } else {", "            self.kmer_dir < self.kmer_rc\n        } else {")], "fire", "C20-K1"),
    ("c20-data-uses-max", "C20", [(K, 1, "            KmerMode::Canonical => self.kmer_dir.min(self.kmer_rc),", "            KmerMode::Canonical => self.kmer_dir.max(self.kmer_rc),")], "fire", "C20-K1"),
    ("c20-base-gt-4", "C20", [(SP, 1, "        if base > 3 {\n            // N or other invalid base - reset k-mer\n            kmer.reset();\n            continue;", "        if base > 4 {\n            // N or other invalid base - reset k-mer\n            kmer.reset();\n            continue;")], "fire", "C20-K3"),
    ("c20-benign-if-for-min", "C20", [(K, 1, "    pub fn data_canonical(&self) -> u64 {\n        self.kmer_dir.min(self.kmer_rc)", "    pub fn data_canonical(&self) -> u64 {\n        if self.kmer_rc < self.kmer_dir { self.kmer_rc } else { self.kmer_dir }")], "quiet", ""),
    # ---------------------------------------------------------------- C12
    ("c12-threshold-7", "C12", [(T, 1, "    } else if max_elem < 6 {", "    } else if max_elem < 7 {")], "fire", "C12-TP1"),
    ("c12-reader-wrong-max", "C12", [(T, 1, "        3 => unpack_tuples::<3, 6>(&tuples[..tuples.len() - 1], &mut result, output_size),", "        3 => unpack_tuples::<3, 5>(&tuples[..tuples.len() - 1], &mut result, output_size),")], "fire", "C12-TP1"),
    ("c12-trailing-conditional", "C12", [(T, 1, "    result.push(c as u8);\n\n    // Add marker byte", "    if bytes.len() % N != 0 { result.push(c as u8); }\n\n    // Add marker byte")], "fire", "C12-TP3"),
    ("c12-marker-swapped", "C12", [(SC, 1, "        Ok((compressed, 0)) // Marker 0 = plain", "        Ok((compressed, 1)) // Marker 0 = plain")], "fire", "C12-MK"),
    ("c12-trailing-mask-7", "C12", [(T, 1, "    let trailing_bytes = marker & 0xf;", "    let trailing_bytes = marker & 0x7;")], "fire", "C12-TP2"),
    # ---------------------------------------------------------------- C02
    ("c02-separator-fe", "C02", [(TY, 1, "pub const CONTIG_SEPARATOR: u8 = 0xFF;", "pub const CONTIG_SEPARATOR: u8 = 0xFE;")], "fire", "C02-"),
    ("c02-cardinality-64-both-sides", "C02", [(A, 1, "const PACK_CARDINALITY: usize = 50;\n/// First 16", "const PACK_CARDINALITY: usize = 64;\n/// First 16"), (D, 1, "        const PACK_CARDINALITY: usize = 50; // C++ default", "        const PACK_CARDINALITY: usize = 64; // C++ default")], "fire", "C02-CARD"),
    ("c02-lz-id-mapping", "C02", [(D, 1, "            let delta_position = (desc.in_group_id - 1) as usize;", "            let delta_position = desc.in_group_id as usize;")], "fire", "C02-IDMAP"),
    ("c02-base64-alphabet", "C02", [(N, 1, "0123456789ABCDEFGHIJKLMNOPQRSTUVWXYZabcdefghijklmnopqrstuvwxyz_#", "0123456789abcdefghijklmnopqrstuvwxyzABCDEFGHIJKLMNOPQRSTUVWXYZ_#")], "fire", "C02-NAMES"),
    ("c02-ref-written-twice", "C02", [(A, 2, "    if use_lz_encoding && !buffer.ref_written && !buffer.segments.is_empty() {", "    if use_lz_encoding && !buffer.segments.is_empty() {")], "fire", "C02-REFONCE"),
    # ---------------------------------------------------------------- C01 / C10
    ("c01-revert-f3", "C01", [(A, 1, "        .map(|&base| if base < 4 { 3 - base } else { base })\n        .collect()\n}\n\n/// Find best existing group", "        .map(|&base| if base < 4 { 3 - base } else { 4 })\n        .collect()\n}\n\n/// Find best existing group")], "fire", "C01-RC"),
    ("c01-reader-skips-k-minus-1", "C01", [(D, 1, "                let overlap = self.kmer_length as usize;", "                let overlap = self.kmer_length as usize - 1;")], "fire", "C01-OVL"),
    ("c01-worker-k-plus-1", "C01", [(A, 1, "            split_at_splitters_with_size(&task.data, &splitters, config.k, config.segment_size)", "            split_at_splitters_with_size(&task.data, &splitters, config.k + 1, config.segment_size)")], "fire", "C01-OVL"),
    ("c01-length-first-test", "C01", [(D, 1, "            if i == 0 {\n                total_length += segment.raw_length as usize;", "            if i <= 1 {\n                total_length += segment.raw_length as usize;")], "fire", "C01-OVL"),
    ("c10-overlap-k-minus-1", "C10", [(S, 1, "                    let new_start = (pos + 1).saturating_sub(k);", "                    let new_start = (pos + 1).saturating_sub(k - 1);")], "fire", "C10-S1"),
    ("c10-back-is-front", "C10", [(S, 1, "                                (front_kmer, kmer_value, front_kmer_is_dir, is_dir)\n                            };", "                                (front_kmer, front_kmer, front_kmer_is_dir, is_dir)\n                            };")], "fire", "C10-S2"),
    ("c10-final-off-by-one", "C10", [(S, 1, "        let segment_data = contig[segment_start..].to_vec();", "        let segment_data = contig[segment_start + 1..].to_vec();")], "fire", "C10-S4"),
    # ---------------------------------------------------------------- C18
    ("c18-revert-f8a", "C18", [(A, 1, "let next_priority = Arc::new(Mutex::new(i32::MAX - 1_000_000));", "let next_priority = Arc::new(Mutex::new(i32::MAX));")], "fire", "C18-PRIO"),
    ("c18-revert-estimate", "C18", [(L, 1, "        est_cost = est_cost.wrapping_add(text_size.wrapping_sub(i));", "        est_cost += text_size - i;")], "fire", "C18-O"),
    ("c18-revert-f9", "C18", [(A, 1, "    let mask: u64 = if k >= 32 { u64::MAX } else { (1u64 << (2 * k)) - 1 };", "    let mask: u64 = (1u64 << (2 * k)) - 1;")], "fire", "C18-O"),
    ("c18-new-unguarded-sub", "C18", [(D, 1, "        let end = end.min(contig_len);", "        let end = end.min(contig_len);\n        let _span = end - start;")], "fire", "C18-O"),
    ("c18-benign-guarded-sub", "C18", [(D, 1, "        let end = end.min(contig_len);\n        if start >= end {\n            return Ok(Vec::new());\n        }", "        let end = end.min(contig_len);\n        if start >= end {\n            return Ok(Vec::new());\n        }\n        let _span = end - start;")], "quiet", ""),
    # ---------------------------------------------------------------- C04
    ("c04-no-sort-before-classify", "C04", [(A, 1, "    raw_segs.sort();", "")], "fire", "C04-D3"),
    ("c04-no-sort-partial-packs", "C04", [(A, 1, "            sorted_packs.sort_by_key(|p| p.stream_id);", "")], "fire", "C04-D3"),
    ("c04-claim-load-store", "C04", [(A, 1, "        let idx = self.next_idx.fetch_sub(1, Ordering::Relaxed);\n        if idx < 0 {", "        let idx = self.next_idx.load(Ordering::Relaxed);\n        self.next_idx.store(idx - 1, Ordering::Relaxed);\n        if idx < 0 {")], "fire", "C04-D5"),
    ("c04-register-stream-in-parallel-phase", "C04", [(A, 1, "                if let Some((key, mut buffer)) = parallel_state.get_buffer_at(idx) {", "                if let Some((key, mut buffer)) = parallel_state.get_buffer_at(idx) {\n                    if buffer.stream_id == usize::MAX { buffer.stream_id = archive.lock().unwrap().register_stream(\"late\"); }")], "fire", "C04-D4"),
    ("c04-hash-iteration-to-output", "C04", [(A, 1, "        let segments: Vec<NewSegment> = s.iter().cloned().collect();", "        let hs: std::collections::HashSet<u64> = s.iter().map(|x| x.kmer_front).collect();\n        for h in hs.iter() { reference_segments.insert(*h as u32, Vec::new()); }\n        let segments: Vec<NewSegment> = s.iter().cloned().collect();")], "fire", "C04-D1"),
    # ---------------------------------------------------------------- C03 / C11
    ("c03-writer-update-guard", "C03", [(C, 1, "                    if seg.in_group_id as i32 > prev_in_group_id && seg.in_group_id > 0 {", "                    if seg.in_group_id as i32 >= prev_in_group_id && seg.in_group_id > 0 {")], "fire", "C03-PRED"),
    ("c03-decoder-arm3", "C03", [(C, 1, "                        (prev_in_group_id + 1) as u32\n                    } else {\n                        zigzag_decode", "                        prev_in_group_id as u32\n                    } else {\n                        zigzag_decode")], "fire", "C03-PRED"),
    ("c03-run-cap-127", "C03", [(C, 1, "                        if cnt == 100 {", "                        if cnt == 127 {")], "fire", "C03-NAME"),
    ("c03-sorted-samples", "C03", [(C, 1, "    pub fn register_sample_contig(&mut self, sample_name: &str, contig_name: &str) -> Result<bool> {", "    pub fn register_sample_contig(&mut self, sample_name: &str, contig_name: &str) -> Result<bool> {\n        self.sample_desc.sort_by(|a, b| a.name.cmp(&b.name));")], "fire", "C03-ORDER"),
    ("c11-second-pass-direct-mode", "C11", [(SP, 1, "    let mut kmer = Kmer::new(k as u32, KmerMode::Canonical);\n    let mut current_len = segment_size; // Start ready to split", "    let mut kmer = Kmer::new(k as u32, KmerMode::Direct);\n    let mut current_len = segment_size; // Start ready to split")], "fire", "C11-P1"),
    ("c11-named-variant-strict", "C11", [(SP, 1, "                if current_len >= segment_size && candidates.contains(&kmer_value) {", "                if current_len > segment_size && candidates.contains(&kmer_value) {")], "fire", "C11-P4"),
    ("c11-unsorted-streaming", "C11", [(SP, 2, "    all_kmers.radix_sort_unstable();", "    // (sort removed)")], "fire", "C11-P2"),
    # ---- behaviour-preserving renames: every rule must stay quiet
    ("c12-rename-locals", "C12", [("ragc-core/src/tuple_packing.rs", "re", r"\bmarker\b", "mk"), ("ragc-core/src/tuple_packing.rs", "re", r"\bno_bytes\b", "width"), ("ragc-core/src/tuple_packing.rs", "re", r"\btrailing_bytes\b", "tail"), ("ragc-core/src/tuple_packing.rs", "re", r"\boutput_size\b", "out_len")], "quiet", ""),
    ("c13-rename-locals", "C13", [(V, "re", r"\bno_bytes\b", "n"), (V, "re", r"\btmp\b", "rest"), (V, "re", r"\bvalue\b", "v"), (R, "re", r"\bfooter\b", "dir_buf"), (R, "re", r"\bpart_offset\b", "off0")], "quiet", ""),
    ("c14-rename-locals", "C14", [(V, "re", r"\bno_bytes\b", "n"), (V, "re", r"\btmp\b", "rest"), (V, "re", r"\bvalue\b", "v"), (R, "re", r"\bfooter\b", "dir_buf"), (R, "re", r"\bpart_offset\b", "off0")], "quiet", ""),
    ("c13-varint-stack-buf-8", "C13", [(R, 1, '        // Write metadata as varint\n        let mut metadata_buf = Vec::new();\n        write_varint(&mut metadata_buf, metadata)?;\n        writer.write_all(&metadata_buf)?;\n        self.f_offset += metadata_buf.len() as u64;', '        let mut metadata_buf = [0u8; 8];\n        let metadata_len = write_varint(&mut metadata_buf.as_mut_slice(), metadata)?;\n        writer.write_all(&metadata_buf[..metadata_len])?;\n        self.f_offset += metadata_len as u64;')], "fire", "C13-VAR"),
    ("c13-varint-stack-buf-9", "C13", [(R, 1, '        // Write metadata as varint\n        let mut metadata_buf = Vec::new();\n        write_varint(&mut metadata_buf, metadata)?;\n        writer.write_all(&metadata_buf)?;\n        self.f_offset += metadata_buf.len() as u64;', '        let mut metadata_buf = [0u8; 9];\n        let metadata_len = write_varint(&mut metadata_buf.as_mut_slice(), metadata)?;\n        writer.write_all(&metadata_buf[..metadata_len])?;\n        self.f_offset += metadata_len as u64;')], "quiet", ""),
    ("c12-dispatch-as-match", "C12", [("ragc-core/src/tuple_packing.rs", 1, "    if max_elem < 4 {\n        pack_tuples::<4, 4>(bytes)\n    } else if max_elem < 6 {\n        pack_tuples::<3, 6>(bytes)\n    } else if max_elem < 16 {\n        pack_tuples::<2, 16>(bytes)\n    } else {", "    match max_elem {\n        0..=3 => pack_tuples::<4, 4>(bytes),\n        4 | 5 => pack_tuples::<3, 6>(bytes),\n        6..=15 => pack_tuples::<2, 16>(bytes),\n        _ => {"), ("ragc-core/src/tuple_packing.rs", 1, "        result.push(0x10); // Marker: no packing\n        result\n    }", "        result.push(0x10); // Marker: no packing\n        result\n    }}")], "quiet", ""),
    ("c12-dispatch-match-4to6", "C12", [("ragc-core/src/tuple_packing.rs", 1, "    if max_elem < 4 {\n        pack_tuples::<4, 4>(bytes)\n    } else if max_elem < 6 {\n        pack_tuples::<3, 6>(bytes)\n    } else if max_elem < 16 {\n        pack_tuples::<2, 16>(bytes)\n    } else {", "    match max_elem {\n        0..=3 => pack_tuples::<4, 4>(bytes),\n        4..=6 => pack_tuples::<3, 6>(bytes),\n        7..=15 => pack_tuples::<2, 16>(bytes),\n        _ => {"), ("ragc-core/src/tuple_packing.rs", 1, "        result.push(0x10); // Marker: no packing\n        result\n    }", "        result.push(0x10); // Marker: no packing\n        result\n    }}")], "fire", "C12-TP1"),
    ("c08-list-contigs-early-exit", "C08", [("ragc-core/src/decompressor.rs", 1, "                    .load_contig_batch(&mut self.archive, batch_id)?;\n", "                    .load_contig_batch(&mut self.archive, batch_id)?;\n                if self.collection.get_no_contigs(sample_name).is_some() {\n                    break;\n                }\n")], "fire", "C08-H6"),
    # ---- seeds found by sub-agents (condensed) and benign twins
    ("c09-nrun-no-budget-reset", "C09", [(L, 1, "                    i += nrun_len as usize;\n                    no_prev_literals = 0;", "                    i += nrun_len as usize;")], "fire", "C09-BACK"),
    ("c09-match-no-budget-reset", "C09", [(L, 1, "                i += total_len as usize;\n                no_prev_literals = 0;", "                i += total_len as usize;")], "fire", "C09-BACK"),
    ("c09-reset-reordered", "C09", [(L, 1, "                    i += nrun_len as usize;\n                    no_prev_literals = 0;", "                    no_prev_literals = 0;\n                    i += nrun_len as usize;")], "quiet", ""),
    ("c10-final-front-by-start", "C10", [(S, 2, "                if front_kmer == MISSING_KMER {", "                if segment_start == 0 {")], "fire", "C10-S2"),
    ("c10-rename-locals", "C10", [(S, "re", r"\bsegment_start\b", "seg_begin"), (S, "re", r"\bnew_start\b", "ns"), (S, "re", r"\bkmer_value\b", "kv"), (S, "re", "let mut front_kmer =", "let mut carried ="), (S, "re", "front_kmer ==", "carried =="), (S, "re", r"\(front_kmer,", "(carried,"), (S, "re", "front_kmer = kv", "carried = kv"), (S, "re", r"front_kmer\.to_string", "carried.to_string"), (S, "re", r"(?m)^( {16,})front_kmer,", r"\1carried,")], "quiet", ""),
    ("c11-named-no-clear-on-n", "C11", [(SP, 1, "            kmer.reset();\n            recent_kmers.clear();", "            kmer.reset();")], "fire", "C11-P4"),
    ("c17-prefix-sorted", "C17", [(D, 1, "        self.list_samples()\n            .into_iter()\n            .filter(|s| s.starts_with(prefix))", "        self.collection.get_samples_list(true)\n            .into_iter()\n            .filter(|s| s.starts_with(prefix))")], "fire", "C17-R4"),
    ("c18-keymask-gt-32", "C18", [(L, 1, "        let key_mask = if key_len >= 32 {", "        let key_mask = if key_len > 32 {")], "fire", "C18-O"),
    ("c19-skip-short-lines", "C19", [(G, 1, "                // Append sequence data\n", "                if bytes_read <= 2 {\n                    continue;\n                }\n")], "fire", "C19-G3"),
    ("c16-skip-short-lines", "C16", [(G, 1, "                // Append sequence data\n", "                if bytes_read <= 2 {\n                    continue;\n                }\n")], "fire", "C16-LINE"),
    ("c16-name-run-reset-0", "C16", [(C, 1, "                            enc.push((-cnt) as u8); // Repetition marker\n                            cnt = 1;", "                            enc.push((-cnt) as u8); // Repetition marker\n                            cnt = 0;")], "fire", "C16-NAME"),
    ("c15-footer-one-write-no-flush", "C15", [(R, 1, "        writer.write_all(&footer)?;\n\n        // Write footer size as fixed 8-byte value\n        let footer_size = footer.len() as u64;\n        writer.write_all(&footer_size.to_le_bytes())?;\n\n        writer.flush()?;", "        let footer_size = footer.len() as u64;\n        footer.extend_from_slice(&footer_size.to_le_bytes());\n        writer.write_all(&footer)?;\n")], "fire", "C15-E2"),
    ("c15-footer-one-write-flush", "C15", [(R, 1, "        writer.write_all(&footer)?;\n\n        // Write footer size as fixed 8-byte value\n        let footer_size = footer.len() as u64;\n        writer.write_all(&footer_size.to_le_bytes())?;\n", "        let footer_size = footer.len() as u64;\n        footer.extend_from_slice(&footer_size.to_le_bytes());\n        writer.write_all(&footer)?;\n")], "quiet", ""),
    ("c13-footer-one-write-flush", "C13", [(R, 1, "        writer.write_all(&footer)?;\n\n        // Write footer size as fixed 8-byte value\n        let footer_size = footer.len() as u64;\n        writer.write_all(&footer_size.to_le_bytes())?;\n", "        let footer_size = footer.len() as u64;\n        footer.extend_from_slice(&footer_size.to_le_bytes());\n        writer.write_all(&footer)?;\n")], "quiet", ""),
    ("c05-notify-only-when-full", "C05", [(Q, 1, "        // Signal that queue has space\n        self.not_full.notify_one();", "        if inner.current_size + priority_item.size >= self.capacity_bytes {\n            self.not_full.notify_one();\n        }")], "fire", "C05-T6"),
    ("c14-part-check-sum", "C14", [(R, 1, "if offset > data_end || size > data_end - offset {", "if offset + size > data_end {")], "fire", "C14-AUDIT"),
    ("c20-dir-strict", "C20", [(K, 1, "            self.kmer_dir <= self.kmer_rc", "            self.kmer_dir < self.kmer_rc")], "fire", "C20-K1"),
    ("c05-swap-worker-args", "C05", [(A, 1, "                    group_counter,\n                    raw_group_counter,\n                    reference_sample_name,", "                    raw_group_counter,\n                    group_counter,\n                    reference_sample_name,")], "fire", "C05-T4"),
    ("c02-placeholder-no-separator", "C02", [(A, 2, "            packed_data.push(0x7f);\n            packed_data.push(CONTIG_SEPARATOR);", "            packed_data.push(0x7f);")], "fire", "C02-PLACEHOLDER"),
    ("c06-close-notify-one", "C06", [(Q, 1, "        self.not_full.notify_all();", "        self.not_full.notify_one();")], "fire", "C06-Q"),
    ("c04-classify-sort-by-sample-only", "C04", [(A, 1, "    raw_segs.sort();\n", "    raw_segs.sort_by(|a, b| a.sample_name.cmp(&b.sample_name));\n")], "fire", "C04-D3"),
    ("c04-classify-sort-by-full-key", "C04", [(A, 1, "    raw_segs.sort();\n", "    raw_segs.sort_by(|a, b| a.cmp(b));\n")], "quiet", ""),
    ("c08-clone-via-try-clone", "C08", [(D, 1, "        Self::open(&self.archive_path, self.config.clone())", "        let mut c = Self::open(&self.archive_path, self.config.clone())?;\n        c.archive = self.archive.share()?;\n        Ok(c)"), (R, 1, "    /// Close the archive (writes footer in write mode)", "    pub fn share(&self) -> Result<Archive> {\n        let file = self.file.as_ref().context(\"Archive not open\")?;\n        let mut a = Archive::new_reader();\n        a.reader = Some(BufReader::new(file.try_clone()?));\n        a.file = Some(file.try_clone()?);\n        a.deserialize()?;\n        Ok(a)\n    }\n\n    /// Close the archive (writes footer in write mode)")], "fire", "C08-H5"),
    ("c09-enc-literal-no-pred-step", "C09", [(L, 1, "                    i += 1;\n                    pred_pos += 1;\n                    no_prev_literals += 1;", "                    i += 1;\n                    no_prev_literals += 1;")], "fire", "C09-PRED"),
    ("c09-enc-match-pred-fwd-only", "C09", [(L, 1, "                pred_pos = adjusted_match_pos + total_len;", "                pred_pos = adjusted_match_pos + len_fwd;")], "fire", "C09-PRED"),
    ("c09-enc-no-backstep", "C09", [(L, 1, "                    i -= len_bck as usize;\n                    pred_pos -= len_bck;", "                    i -= len_bck as usize;")], "fire", "C09-PRED"),
    ("c09-dec-match-pred-len", "C09", [(L, 1, "                pred_pos = ref_pos + actual_len;", "                pred_pos = ref_pos + len as usize;")], "fire", "C09-PRED"),
    ("c09-dec-nrun-moves-pred", "C09", [(L, 1, "                i += consumed;\n                op_count += 1;\n            } else {", "                i += consumed;\n                pred_pos += len as usize;\n                op_count += 1;\n            } else {")], "fire", "C09-PRED"),
    ("c09-dec-literal-no-step", "C09", [(L, 1, "                pred_pos += 1;\n                i += 1;\n                op_count += 1;", "                i += 1;\n                op_count += 1;")], "fire", "C09-PRED"),
    ("c12-marker-narrowed-length", "C12", [(T, 1, "    let marker = ((N as u8) << 4) | ((bytes.len() % N) as u8);", "    let marker = ((N as u8) << 4) | (bytes.len() as u8 % N as u8);")], "fire", "C12-TP2"),
    ("c17-output-not-truncated", "C17", [(M, 1, "std::fs::File::create(&output_path)?", "std::fs::OpenOptions::new().write(true).create(true).open(&output_path)?")], "fire", "C17-R6"),
    ("c17-output-openoptions-truncate", "C17", [(M, 1, "std::fs::File::create(&output_path)?", "std::fs::OpenOptions::new().write(true).create(true).truncate(true).open(&output_path)?")], "quiet", ""),
    ("c11-enumerate-skips-len-eq-k", "C11", [("ragc-core/src/kmer_extract.rs", 1, "    if contig.len() < k {\n        return vec;\n    }", "    if contig.len() <= k {\n        return vec;\n    }")], "fire", "C11-P6"),
    ("c09-elide-length-total-len", "C09", [(L, 1, "                    && (match_pos as usize) + (len_fwd as usize) == self.reference_len", "                    && (match_pos as usize) + (total_len as usize) == self.reference_len")], "fire", "C09-PRED"),
    ("c09-empty-when-prefix", "C09", [(L, 1, "        if target.len() == self.reference_len\n            && target", "        if target.len() <= self.reference_len\n            && target")], "fire", "C09-EMPTY"),
    ("c15-finalize-or-close", "C15", [(A, 1, "            archive.close().context(\"Failed to close archive\")?;", "            let closed = archive.close().context(\"Failed to close archive\");\n            let _ = closed.is_ok();")], "fire", "C15-E1"),
    ("c14-close-keeps-writer", "C14", [(R, 1, "        self.reader = None;\n        self.writer = None;\n        self.file = None;\n        Ok(())", "        self.reader = None;\n        self.file = None;\n        Ok(())")], "fire", "C14-ONCE"),
    ("c20-rc-mask-from-2k-bits", "C20", [(K, 1, "(!0u64) << shift", "((1u64 << (2 * max_size)) - 1) << shift")], "fire", "C20-K4"),
    ("c03-split-whitespace", "C03", [(C, 1, "        s.split(' ').map(|s| s.to_string()).collect()", "        s.split_whitespace().map(|s| s.to_string()).collect()")], "fire", "C03-NAME"),
    ("c04-zstd-sticky-level", "C04", [("ragc-core/src/zstd_pool.rs", 1, "        match cctx.compress(&mut output, data, level) {", "        match cctx.compress2(&mut output, data) {")], "fire", "C04-D8"),
    ("c10-start-case-split-gt", "C10", [(S, 1, "                    let new_start = (pos + 1).saturating_sub(k);", "                    let new_start = if pos > k { pos + 1 - k } else { 0 };")], "fire", "C10-S1"),
    ("c10-start-case-split-ge", "C10", [(S, 1, "                    let new_start = (pos + 1).saturating_sub(k);", "                    let new_start = if pos >= k { pos + 1 - k } else { 0 };")], "quiet", ""),
    ("c01-encoder-no-clear-per-batch", "C01", [(C, 1, "        self.clear_in_group_ids();\n", "")], "fire", "C01-DESC"),
    ("c02-lz-nrun-moves-pred-both", "C02", [(L, 1, "                    i += nrun_len as usize;\n                    no_prev_literals = 0;", "                    i += nrun_len as usize;\n                    pred_pos += nrun_len;\n                    no_prev_literals = 0;"), (L, 1, "                i += consumed;\n                op_count += 1;\n            } else {", "                i += consumed;\n                pred_pos += len as usize;\n                op_count += 1;\n            } else {")], "fire", "C02-LZ-PRED"),
    # ---------------------------------------------------------------- C20-K5/K6 (slot-domain window invariant)
    ("c20-rc-no-mask", "C20", [(K, 1, "        self.kmer_rc += reverse_complement(symbol) << 62;\n        self.kmer_rc &= self.mask;\n\n        // Direct code", "        self.kmer_rc += reverse_complement(symbol) << 62;\n\n        // Direct code")], "fire", "C20-K5"),
    ("c20-dir-shift-off-by-slot", "C20", [(K, 1, "            self.kmer_dir += symbol << self.shift;\n        } else {\n            self.cur_size += 1;\n            self.kmer_dir += symbol << (64 - 2 * self.cur_size);\n        }\n    }\n\n    /// Insert a symbol based", "            self.kmer_dir += symbol << (self.shift + 2);\n        } else {\n            self.cur_size += 1;\n            self.kmer_dir += symbol << (64 - 2 * self.cur_size);\n        }\n    }\n\n    /// Insert a symbol based")], "fire", "C20-K5"),
    ("c20-fill-after-place", "C20", [(K, 1, "            self.cur_size += 1;\n            self.kmer_dir += symbol << (64 - 2 * self.cur_size);\n        }\n    }\n\n    /// Insert a symbol based", "            self.kmer_dir += symbol << (62 - 2 * self.cur_size);\n            self.cur_size += 1;\n        }\n    }\n\n    /// Insert a symbol based")], "quiet", ""),
    ("c20-fill-after-place-wrong", "C20", [(K, 1, "            self.cur_size += 1;\n            self.kmer_dir += symbol << (64 - 2 * self.cur_size);\n        }\n    }\n\n    /// Insert a symbol based", "            self.kmer_dir += symbol << (64 - 2 * self.cur_size);\n            self.cur_size += 1;\n        }\n    }\n\n    /// Insert a symbol based")], "fire", "C20-K5"),
    ("c20-rc-or-instead-of-add", "C20", [(K, 1, "        self.kmer_rc += reverse_complement(symbol) << 62;\n        self.kmer_rc &= self.mask;\n\n        // Direct code", "        self.kmer_rc |= reverse_complement(symbol) << 62;\n        self.kmer_rc &= self.mask;\n\n        // Direct code")], "quiet", ""),
    ("c20-full-test-ge", "C20", [(K, 1, "        if self.cur_size == self.max_size {\n            self.kmer_dir <<= 2;", "        if self.cur_size >= self.max_size {\n            self.kmer_dir <<= 2;")], "quiet", ""),
    ("c20-rck-position-off-by-one", "C20", [(K, 1, "        result |= rc_base << (shift + 2 * (k - 1 - i));", "        result |= rc_base << (shift + 2 * (k - i)) >> 2;")], "fire", "C20-K6"),      # i = 0: shift by 64
    ("c20-rck-position-regrouped", "C20", [(K, 1, "        result |= rc_base << (shift + 2 * (k - 1 - i));", "        result |= rc_base << (shift + 2 * (k - i) - 2);")], "quiet", ""),
    ("c20-rck-forgets-complement", "C20", [(K, 1, "        result |= rc_base << (shift + 2 * (k - 1 - i));", "        result |= base << (shift + 2 * (k - 1 - i));")], "fire", "C20-K6"),
    ("c20-rck-not-reversed", "C20", [(K, 1, "        result |= rc_base << (shift + 2 * (k - 1 - i));", "        result |= rc_base << (shift + 2 * i);")], "fire", "C20-K6"),
    ("c20-revcomp-mode-forgets-mask", "C20", [(K, 2, "        self.kmer_rc &= self.mask;\n", "")], "fire", "C20-K5"),
    # ---------------------------------------------------------------- C08-H8 (caches only grow)
    ("c08-get-sample-takes-desc", "C08", [(D, 1, "            .get_sample_desc(sample_name)\n            .ok_or_else(|| anyhow!(\"Sample not found: {sample_name}\"))?;\n\n        let mut contigs = Vec::new();", "            .take_sample_desc(sample_name)\n            .ok_or_else(|| anyhow!(\"Sample not found: {sample_name}\"))?;\n\n        let mut contigs = Vec::new();"),
                                          (C, 1, "    /// Get contig descriptor for a specific contig in a sample\n", "    pub fn take_sample_desc(&mut self, sample_name: &str) -> Option<Vec<(String, Vec<SegmentDesc>)>> {\n        let id = *self.sample_ids.get(sample_name)?;\n        let contigs = std::mem::take(&mut self.sample_desc[id].contigs);\n        Some(contigs.into_iter().map(|c| (c.name, c.segments)).collect())\n    }\n\n    /// Get contig descriptor for a specific contig in a sample\n")], "fire", "C08-H8"),
    ("c08-query-clears-ref-cache", "C08", [(D, 1, "    pub fn get_reference_segment(&mut self, group_id: u32) -> Result<Contig> {\n", "    pub fn get_reference_segment(&mut self, group_id: u32) -> Result<Contig> {\n        if self.segment_cache.len() > 4096 {\n            self.segment_cache.clear();\n        }\n")], "quiet", ""),
    ("c08-query-removes-ref-from-cache", "C08", [(D, 1, "                return Ok(self.segment_cache.get(&desc.group_id).unwrap().clone());", "                return Ok(self.segment_cache.remove(&desc.group_id).unwrap());")], "quiet", ""),     # evicting from the reference cache is harmless: the filler reloads on a miss
    # ---------------------------------------------------------------- round 3
    ("c10-skip-before-enumerate", "C10", [(S, 1, "    for (pos, &base) in contig.iter().enumerate() {", "    let scan_from = contig.iter().position(|&b| b <= 3).unwrap_or(contig.len());\n    for (pos, &base) in contig.iter().skip(scan_from).enumerate() {")], "fire", "C10-S7"),
    ("c10-skip-after-enumerate", "C10", [(S, 1, "    for (pos, &base) in contig.iter().enumerate() {", "    let scan_from = contig.iter().position(|&b| b <= 3).unwrap_or(contig.len());\n    for (pos, &base) in contig.iter().enumerate().skip(scan_from) {")], "quiet", ""),
    ("c15-close-swallows-serialize-error-conditionally", "C15", [(R, 1, "            self.serialize()?;\n", "            if let Err(e) = self.serialize() {\n                if self.writer.is_some() {\n                    return Err(e);\n                }\n            }\n")], "fire", "C15-E1"),
    ("c15-close-logs-then-returns-serialize-error", "C15", [(R, 1, "            self.serialize()?;\n", "            if let Err(e) = self.serialize() {\n                eprintln!(\"footer write failed: {e}\");\n                return Err(e);\n            }\n")], "quiet", ""),
    ("c01-split-symmetric-halves", "C01", [(A, 1, "    let left_end = seg2_start_pos + k;", "    let left_end = (split_pos + (k - 1) / 2).min(segment_data.len());")], "fire", "C01-SPLIT"),
    ("c01-split-ceil-rewritten", "C01", [(A, 1, "    let half_ceil = (k + 1) / 2;\n    let seg2_start_pos = split_pos.saturating_sub(half_ceil);", "    let half_ceil = k - k / 2;\n    let seg2_start_pos = split_pos.saturating_sub(half_ceil);")], "quiet", ""),
    ("c01-split-floor-plus-ceil", "C01", [(A, 1, "    let left_end = seg2_start_pos + k;", "    let left_end = (split_pos + k / 2).min(segment_data.len());")], "quiet", ""),
    ("c01-split-overlap-k-minus-1", "C01", [(A, 1, "    let left_end = seg2_start_pos + k;", "    let left_end = seg2_start_pos + k - 1;")], "fire", "C01-SPLIT"),
    ("c13-flat-buffer-unstable-sort", "C13", "patches/c13-flat-buffer-unstable-sort.diff", "fire", "C13-ORD"),
    ("c13-flat-buffer-stable-sort", "C13", "patches/c13-flat-buffer-stable-sort.diff", "quiet", ""),
    ("c04-early-flush-plus-direct-buffering", "C04", "patches/c04-early-flush-plus-direct-buffering.diff", "fire", "C04-D9"),
    ("c04-workers-buffer-directly", "C04", "patches/c04-workers-buffer-directly.diff", "quiet", ""),     # stays deterministic: the buffer is ordered by stream id and flushed by one thread
    ("c05-bulk-tokens-notify-one", "C05", "patches/c05-bulk-tokens-notify-one.diff", "fire", "C05-T6"),
    ("c06-bulk-tokens-notify-one", "C06", "patches/c05-bulk-tokens-notify-one.diff", "fire", "C06-Q5"),
    ("c05-bulk-tokens-notify-all", "C05", "patches/c05-bulk-tokens-notify-all.diff", "quiet", ""),
    ("c06-bulk-tokens-notify-all", "C06", "patches/c05-bulk-tokens-notify-all.diff", "quiet", ""),
    ("c19-double-file-stem", "C19", "patches/c19-double-file-stem.diff", "fire", "C19-G5"),
    ("c19-name-keeps-inner-extension-under-gz", "C19", [(CI, 1, "            .file_name()\n            .and_then(|s| s.to_str())\n            .map(|s| s.strip_suffix(\".gz\").unwrap_or(s))\n            .and_then(|s| Path::new(s).file_stem())\n", "            .file_stem()\n")], "fire", "C19-G5"),      # the defect repaired by 4431ba2
    ("c19-gz-suffix-trimmed-differently", "C19", [(CI, 1, "            .map(|s| s.strip_suffix(\".gz\").unwrap_or(s))\n", "            .map(|s| s.trim_end_matches(\".gz\"))\n")], "quiet", ""),
    ("c12-nibble-unpacker-wrong", "C12", "patches/c12-nibble-unpacker-wrong.diff", "fire", "C12-TP4"),
    ("c12-nibble-unpacker-correct", "C12", "patches/c12-nibble-unpacker-correct.diff", "quiet", ""),
    ("c16-nibble-unpacker-correct", "C16", "patches/c12-nibble-unpacker-correct.diff", "quiet", ""),
    ("c02-tuple-digits-reversed-both-sides", "C02", [(T, 1, "        for j in 0..N {\n            c = c * (MAX as u32) + (bytes[i + j] as u32);", "        for j in (0..N).rev() {\n            c = c * (MAX as u32) + (bytes[i + j] as u32);"),
                                                     (T, 1, "        for k in (0..N).rev() {\n            output[j + k] = (c % (MAX as u32)) as u8;", "        for k in 0..N {\n            output[j + k] = (c % (MAX as u32)) as u8;")], "fire", "C02-TUPLE"),
    ("c12-tuple-digits-reversed-both-sides", "C12", [(T, 1, "        for j in 0..N {\n            c = c * (MAX as u32) + (bytes[i + j] as u32);", "        for j in (0..N).rev() {\n            c = c * (MAX as u32) + (bytes[i + j] as u32);"),
                                                     (T, 1, "        for k in (0..N).rev() {\n            output[j + k] = (c % (MAX as u32)) as u8;", "        for k in 0..N {\n            output[j + k] = (c % (MAX as u32)) as u8;")], "fire", "C12-TP4"),
    ("c12-unpack-trailing-off-by-one", "C12", [(T, 1, "        for k in (0..n).rev() {", "        for k in (1..n).rev() {")], "fire", "C12-TP4"),
    # ---------------------------------------------------------------- round 4
    ("c03-cvarint-wrong-class-offset", "C03", [(C, 1, "            let num = num - Self::THR_3;\n            data.push(Self::PREF_4 + (num >> 24) as u8);", "            let num = num - Self::THR_2;\n            data.push(Self::PREF_4 + (num >> 24) as u8);")], "fire", "C03-VINT"),
    ("c02-cvarint-offsets-dropped-both-sides", "C02", [(C, 1, "            let num = num - Self::THR_1;\n", "            let num = num;\n"), (C, 1, "((ptr[0] as u32) << 8) + ptr[1] as u32 + Self::THR_1 - ((Self::PREF_2 as u32) << 8);", "((ptr[0] as u32) << 8) + ptr[1] as u32 - ((Self::PREF_2 as u32) << 8);")], "fire", "C02-VINT"),
    ("c11-duplicate-scan-sentinel-zero", "C11", "patches/c11-duplicate-scan-sentinel-zero.diff", "fire", "C11-P8"),
    ("c10-kmer-mask-wrapping-shl", "C10", "patches/c10-kmer-mask-wrapping-shl.diff", "fire", "C10-S8"),
    ("c20-kmer-mask-wrapping-shl", "C20", "patches/c10-kmer-mask-wrapping-shl.diff", "fire", "C20-K5"),
    ("c20-kmer-mask-checked-shl", "C20", [(K, 1, "        let mask = (!0u64) << shift;\n\n        Self {\n            kmer_dir: 0,", "        let mask = (!0u64).checked_shl(shift).unwrap_or(0);\n\n        Self {\n            kmer_dir: 0,")], "quiet", ""),
    ("c13-varint-little-endian-both-sides", "C13", [(V, 1, "    for i in (0..no_bytes).rev() {", "    for i in 0..no_bytes {")], "fire", "C13-VAR"),
    ("c13-varint-count-via-leading-zeros", "C13", [(V, 1, "    let mut no_bytes = 0u8;\n    let mut tmp = value;\n    while tmp > 0 {\n        no_bytes += 1;\n        tmp >>= 8;\n    }\n", "    let no_bytes = ((64 - value.leading_zeros() + 7) / 8) as u8;\n")], "fire", "C13-VAR"),
    ("c12-zstd-single-read", "C12", "patches/c12-zstd-single-read.diff", "fire", "C12-IO"),
    ("c17-bufwriter-not-flushed", "C17", "patches/c17-bufwriter-not-flushed.diff", "fire", "C17-R8"),
    ("c17-bufwriter-flushed", "C17", "patches/c17-bufwriter-flushed.diff", "quiet", ""),
    ("c19-scan-letters-upper-only", "C19", "patches/c19-scan-letters-upper-only.diff", "fire", "C19-G6"),
    ("c18-nrun-guard-weakened", "C18", [(L, 1, "                if nrun_len >= MIN_NRUN_LEN {", "                if nrun_len > 0 {")], "fire", "C18-O"),
    # ---------------------------------------------------------------- round 5
    ("c04-fallback-candidates-hashmap", "C04", "patches/r5-C04.diff", "fire", "C04-D1"),
    ("c05-task-done-misses-tokens", "C05", "patches/r5-C05.diff", "fire", "C05-T7"),
    ("c05-task-done-everywhere", "C05", "patches/c05-task-done-everywhere.diff", "quiet", ""),
    ("c04-task-done-everywhere", "C04", "patches/c05-task-done-everywhere.diff", "quiet", ""),
    ("c06-task-done-everywhere", "C06", "patches/c05-task-done-everywhere.diff", "quiet", ""),
    ("c06-clone-aliases-condvar", "C06", "patches/r5-C06.diff", "fire", "C06-Q9"),
    ("c08-placeholder-before-load", "C08", "patches/r5-C08.diff", "fire", "C08-H3"),
    ("c09-rolling-code-not-refreshed", "C09", "patches/r5-C09.diff", "fire", "C09-ROLL"),
    ("c13-writer-open-without-truncate", "C13", "patches/r5-C13.diff", "fire", "C13-OPEN"),
    ("c13-writer-open-with-truncate", "C13", [(R, 1, "            let file = File::create(path).context(\"Failed to create archive for writing\")?;", "            let file = std::fs::OpenOptions::new().read(true).write(true).create(true).truncate(true).open(path).context(\"Failed to create archive for writing\")?;")], "quiet", ""),
    # ---------------------------------------------------------------- round 6
    ("c02-min-match-clamped-in-coder", "C02", "patches/r6-C02.diff", "fire", "C02-MML"),
    ("c09-nrun-swallows-non-acgt", "C09", "patches/r6-C09.diff", "fire", "C09-NRUN"),
    ("c09-nrun-iterator-style-correct", "C09", "patches/r6-C09-twin.diff", "quiet", ""),
    ("c12-scratch-buffer-wrong-guard", "C12", "patches/r6-C12.diff", "fire", "C12-ZBUF"),
    ("c12-scratch-buffer-bound-guard", "C12", "patches/r6-C12-twin.diff", "quiet", ""),
    ("c04-scratch-buffer-bound-guard", "C04", "patches/r6-C12-twin.diff", "quiet", ""),
    ("c13-random-access-moves-cursor", "C13", "patches/r6-C13.diff", "fire", "C13-CUR"),
    ("c16-decompress-guessed-capacity", "C16", "patches/r6-C16.diff", "fire", "C16-PACK"),
    ("c17-file-prefix-merges-inputs", "C17", "patches/r6-C17.diff", "fire", "C17-R9"),
    ("c18-part-range-check-by-sum", "C18", "patches/r6-C18.diff", "fire", "C18-FILE"),
    ("c19-single-file-scanned-whole", "C19", "patches/r6-C19.diff", "fire", "C19-G7"),
    ("c20-rc-byte-table-padding-slip", "C20", "patches/r6-C20.diff", "fire", "C20-K6"),
    ("c20-rc-byte-table-correct", "C20", "patches/r6-C20-twin.diff", "quiet", ""),
    ("c18-rc-byte-table-correct", "C18", "patches/r6-C20-twin.diff", "quiet", ""),
    # ---------------------------------------------------------------- round 7
    ("c09-append-int-two-digits-gt", "C09", "patches/r7-C09.diff", "fire", "C09-ALPHA"),
    ("c09-append-int-two-digits-ge", "C09", "patches/r7-C09-twin.diff", "quiet", ""),
    ("c01-append-int-two-digits-ge", "C01", "patches/r7-C09-twin.diff", "quiet", ""),
    ("c03-cursor-from-batch-number", "C03", "patches/r7-C03.diff", "fire", "C03-BATCH"),
]
