// ragc-facts: a rustc driver that dumps type-resolved MIR facts as JSON.
//
// Used as RUSTC_WORKSPACE_WRAPPER under `cargo +nightly check`; argv[1] is the
// real rustc path and is dropped.  For every workspace crate it writes
// $RAGC_FACTS_DIR/<crate>.json in one write call (parallel rustc processes never
// share a file).  Nothing in here is specific to a property: it is the
// "resolved program" the python rule library reads.
#![feature(rustc_private)]
#![allow(clippy::all)]

extern crate rustc_abi;
extern crate rustc_driver;
extern crate rustc_hir;
extern crate rustc_interface;
extern crate rustc_middle;
extern crate rustc_session;
extern crate rustc_span;

use rustc_driver::Compilation;
use rustc_hir::def::DefKind;
use rustc_hir::def_id::{DefId, LOCAL_CRATE};
use rustc_middle::mir::{
    self, AggregateKind, AssertKind, BinOp, Body, Const, ConstValue, Operand, Place,
    ProjectionElem, Rvalue, StatementKind, TerminatorKind, UnwindAction,
};
use rustc_middle::ty::print::{with_no_trimmed_paths, with_no_visible_paths, with_resolve_crate_name};
use rustc_middle::ty::{self, Instance, Ty, TyCtxt, TypingEnv};
use rustc_span::Span;
use std::fmt::Write as _;

// ---------------------------------------------------------------- JSON
enum J {
    Null,
    Bool(bool),
    Int(i128),
    UInt(u128),
    Str(String),
    Arr(Vec<J>),
    Obj(Vec<(&'static str, J)>),
}
fn s<T: Into<String>>(x: T) -> J {
    J::Str(x.into())
}
fn esc(out: &mut String, x: &str) {
    out.push('"');
    for c in x.chars() {
        match c {
            '"' => out.push_str("\\\""),
            '\\' => out.push_str("\\\\"),
            '\n' => out.push_str("\\n"),
            '\r' => out.push_str("\\r"),
            '\t' => out.push_str("\\t"),
            c if (c as u32) < 0x20 => {
                let _ = write!(out, "\\u{:04x}", c as u32);
            }
            c => out.push(c),
        }
    }
    out.push('"');
}
impl J {
    fn write(&self, out: &mut String) {
        match self {
            J::Null => out.push_str("null"),
            J::Bool(b) => out.push_str(if *b { "true" } else { "false" }),
            J::Int(i) => {
                let _ = write!(out, "{}", i);
            }
            J::UInt(i) => {
                let _ = write!(out, "{}", i);
            }
            J::Str(x) => esc(out, x),
            J::Arr(v) => {
                out.push('[');
                for (i, e) in v.iter().enumerate() {
                    if i > 0 {
                        out.push(',');
                    }
                    e.write(out);
                }
                out.push(']');
            }
            J::Obj(v) => {
                out.push('{');
                for (i, (k, e)) in v.iter().enumerate() {
                    if i > 0 {
                        out.push(',');
                    }
                    esc(out, k);
                    out.push(':');
                    e.write(out);
                }
                out.push('}');
            }
        }
    }
}

// ---------------------------------------------------------------- helpers
fn path_of(tcx: TyCtxt<'_>, did: DefId) -> String {
    with_resolve_crate_name!(with_no_trimmed_paths!(with_no_visible_paths!(tcx.def_path_str(did))))
}
fn path_with_args<'tcx>(tcx: TyCtxt<'tcx>, did: DefId, args: ty::GenericArgsRef<'tcx>) -> String {
    with_resolve_crate_name!(with_no_trimmed_paths!(with_no_visible_paths!(
        tcx.def_path_str_with_args(did, args)
    )))
}
fn ty_str(ty: Ty<'_>) -> String {
    with_resolve_crate_name!(with_no_trimmed_paths!(with_no_visible_paths!(format!("{}", ty))))
}

struct SpanInfo {
    file: String,
    line: usize,
    col: usize,
    exp: bool,
    mac: Option<String>,
}
fn span_info(tcx: TyCtxt<'_>, sp: Span) -> SpanInfo {
    let sm = tcx.sess.source_map();
    let exp = sp.from_expansion();
    let mut mac = None;
    if exp {
        // outermost macro in the backtrace (the one written in user source)
        for ed in sp.macro_backtrace() {
            if let rustc_span::ExpnKind::Macro(_, name) = ed.kind {
                mac = Some(name.to_string());
            } else if mac.is_none() {
                mac = Some(format!("{:?}", ed.kind));
            }
        }
    }
    // location of the outermost call site in user source
    let root = sp.source_callsite();
    let lo = sm.lookup_char_pos(root.lo());
    let file = match &lo.file.name {
        rustc_span::FileName::Real(r) => match r.local_path() {
            Some(p) => p.to_string_lossy().to_string(),
            None => format!("{:?}", lo.file.name),
        },
        other => format!("{:?}", other),
    };
    SpanInfo { file, line: lo.line, col: lo.col.0 + 1, exp, mac }
}
fn span_json(tcx: TyCtxt<'_>, sp: Span) -> J {
    let si = span_info(tcx, sp);
    let mut v = vec![("file", s(si.file)), ("line", J::Int(si.line as i128)), ("col", J::Int(si.col as i128))];
    if si.exp {
        v.push(("exp", J::Bool(true)));
        if let Some(m) = si.mac {
            v.push(("mac", s(m)));
        }
    }
    J::Obj(v)
}

fn alloc_bytes(tcx: TyCtxt<'_>, alloc_id: mir::interpret::AllocId, offset: u64, len: Option<u64>) -> Option<Vec<u8>> {
    let ga = tcx.try_get_global_alloc(alloc_id)?;
    let mem = match ga {
        mir::interpret::GlobalAlloc::Memory(m) => m,
        _ => return None,
    };
    let a = mem.inner();
    let total = a.len() as u64;
    if offset > total {
        return None;
    }
    let end = match len {
        Some(l) => (offset + l).min(total),
        None => total,
    };
    if end - offset > 1 << 16 {
        return None;
    }
    let bytes = a.inspect_with_uninit_and_ptr_outside_interpreter(offset as usize..end as usize);
    Some(bytes.to_vec())
}
fn bytes_json(b: &[u8]) -> J {
    J::Arr(b.iter().map(|x| J::Int(*x as i128)).collect())
}

fn scalar_int_json<'tcx>(tcx: TyCtxt<'tcx>, si: ty::ScalarInt, ty: Ty<'tcx>) -> J {
    let size = si.size();
    let bits = si.to_bits(size);
    let _ = tcx;
    match ty.kind() {
        ty::Int(_) => {
            let nb = size.bits();
            let v: i128 = if nb == 0 {
                0
            } else if nb == 128 {
                bits as i128
            } else {
                let sign = 1u128 << (nb - 1);
                if bits & sign != 0 {
                    (bits as i128) - (1i128 << nb)
                } else {
                    bits as i128
                }
            };
            J::Int(v)
        }
        _ => J::UInt(bits),
    }
}

fn const_value_json<'tcx>(tcx: TyCtxt<'tcx>, cv: ConstValue, ty: Ty<'tcx>) -> Vec<(&'static str, J)> {
    let mut v = Vec::new();
    match cv {
        ConstValue::Scalar(mir::interpret::Scalar::Int(si)) => {
            v.push(("int", scalar_int_json(tcx, si, ty)));
        }
        ConstValue::Scalar(mir::interpret::Scalar::Ptr(ptr, _)) => {
            let (prov, off) = ptr.into_raw_parts();
            let aid = prov.alloc_id();
            if let Some(mir::interpret::GlobalAlloc::Static(sdid)) = tcx.try_get_global_alloc(aid) {
                v.push(("static", s(path_of(tcx, sdid))));
                return v;
            }
            if let Some(mir::interpret::GlobalAlloc::Function { instance }) = tcx.try_get_global_alloc(aid) {
                v.push(("fnptr", s(path_of(tcx, instance.def_id()))));
                return v;
            }
            // pointee size when known: &[T;N] / &T
            if let Some(b) = alloc_bytes(tcx, aid, off.bytes(), None) {
                v.push(("bytes", bytes_json(&b)));
            } else {
                v.push(("ptr", J::Bool(true)));
            }
        }
        ConstValue::ZeroSized => {
            v.push(("zst", J::Bool(true)));
        }
        ConstValue::Slice { alloc_id, meta } => {
            if let Some(b) = alloc_bytes(tcx, alloc_id, 0, Some(meta)) {
                if matches!(ty.peel_refs().kind(), ty::Str) {
                    v.push(("str", s(String::from_utf8_lossy(&b).to_string())));
                }
                v.push(("bytes", bytes_json(&b)));
            }
        }
        ConstValue::Indirect { alloc_id, offset } => {
            if let Some(b) = alloc_bytes(tcx, alloc_id, offset.bytes(), None) {
                v.push(("bytes", bytes_json(&b)));
            }
        }
    }
    v
}

struct Cx<'tcx> {
    tcx: TyCtxt<'tcx>,
    env: TypingEnv<'tcx>,
}

impl<'tcx> Cx<'tcx> {
    fn const_json(&self, c: &Const<'tcx>) -> J {
        let tcx = self.tcx;
        let ty = c.ty();
        let mut v: Vec<(&'static str, J)> = vec![("k", s("const")), ("ty", s(ty_str(ty)))];
        if let ty::FnDef(did, args) = ty.kind() {
            v.push(("fn", s(path_of(tcx, *did))));
            v.push(("fn_disp", s(path_with_args(tcx, *did, args))));
            return J::Obj(v);
        }
        match c {
            Const::Val(cv, ty) => {
                v.extend(const_value_json(tcx, *cv, *ty));
            }
            Const::Unevaluated(uv, ty) => {
                v.push(("item", s(path_of(tcx, uv.def))));
                if let Some(p) = uv.promoted {
                    v.push(("promoted", J::Int(p.as_u32() as i128)));
                }
                if let Ok(cv) = c.eval(tcx, self.env, rustc_span::DUMMY_SP) {
                    v.extend(const_value_json(tcx, cv, *ty));
                }
            }
            Const::Ty(_, ct) => {
                v.push(("tyconst", s(format!("{}", ct))));
                if let Some(si) = c.try_eval_scalar_int(tcx, self.env) {
                    v.push(("int", scalar_int_json(tcx, si, ty)));
                }
            }
        }
        J::Obj(v)
    }

    fn place_json(&self, body: &Body<'tcx>, p: &Place<'tcx>) -> J {
        let tcx = self.tcx;
        let mut pt = mir::PlaceTy::from_ty(body.local_decls[p.local].ty);
        let mut projs = Vec::new();
        for elem in p.projection.iter() {
            let j = match elem {
                ProjectionElem::Deref => s("deref"),
                ProjectionElem::Field(f, _) => {
                    let mut o: Vec<(&'static str, J)> = vec![("f", J::Int(f.as_u32() as i128))];
                    match pt.ty.kind() {
                        ty::Adt(adt, _) => {
                            let vi = pt.variant_index.unwrap_or(rustc_abi::FIRST_VARIANT);
                            if (vi.as_usize()) < adt.variants().len() {
                                let var = adt.variant(vi);
                                if f.as_usize() < var.fields.len() {
                                    o.push(("n", s(var.fields[f].name.to_string())));
                                }
                                o.push(("adt", s(path_of(tcx, adt.did()))));
                                if adt.is_enum() {
                                    o.push(("var", s(var.name.to_string())));
                                }
                            }
                        }
                        ty::Closure(cdid, _) => {
                            if let Some(l) = cdid.as_local() {
                                let caps = tcx.closure_captures(l);
                                if f.as_usize() < caps.len() {
                                    o.push(("n", s(caps[f.as_usize()].to_symbol().to_string())));
                                }
                            }
                            o.push(("closure", J::Bool(true)));
                        }
                        _ => {}
                    }
                    J::Obj(o)
                }
                ProjectionElem::Index(l) => J::Obj(vec![("idx", J::Int(l.as_u32() as i128))]),
                ProjectionElem::ConstantIndex { offset, min_length, from_end } => J::Obj(vec![
                    ("cidx", J::Int(offset as i128)),
                    ("minlen", J::Int(min_length as i128)),
                    ("from_end", J::Bool(from_end)),
                ]),
                ProjectionElem::Subslice { from, to, from_end } => J::Obj(vec![
                    ("sub_from", J::Int(from as i128)),
                    ("sub_to", J::Int(to as i128)),
                    ("from_end", J::Bool(from_end)),
                ]),
                ProjectionElem::Downcast(name, vi) => J::Obj(vec![
                    ("dc", J::Int(vi.as_u32() as i128)),
                    ("name", match name {
                        Some(n) => s(n.to_string()),
                        None => J::Null,
                    }),
                ]),
                ProjectionElem::OpaqueCast(_) => s("opaque"),
                ProjectionElem::UnwrapUnsafeBinder(_) => s("unwrap_binder"),
            };
            projs.push(j);
            pt = pt.projection_ty(tcx, elem);
        }
        J::Obj(vec![("l", J::Int(p.local.as_u32() as i128)), ("p", J::Arr(projs)), ("ty", s(ty_str(pt.ty)))])
    }

    fn operand_json(&self, body: &Body<'tcx>, o: &Operand<'tcx>) -> J {
        match o {
            Operand::Copy(p) => J::Obj(vec![("k", s("copy")), ("pl", self.place_json(body, p))]),
            Operand::Move(p) => J::Obj(vec![("k", s("move")), ("pl", self.place_json(body, p))]),
            Operand::Constant(c) => self.const_json(&c.const_),
            #[allow(unreachable_patterns)]
            _ => J::Obj(vec![("k", s("other")), ("dbg", s(format!("{:?}", o)))]),
        }
    }

    fn rvalue_json(&self, body: &Body<'tcx>, rv: &Rvalue<'tcx>) -> J {
        let tcx = self.tcx;
        match rv {
            Rvalue::Use(o, ..) => J::Obj(vec![("k", s("use")), ("op", self.operand_json(body, o))]),
            Rvalue::Repeat(o, n) => J::Obj(vec![
                ("k", s("repeat")),
                ("op", self.operand_json(body, o)),
                ("n", s(format!("{}", n))),
            ]),
            Rvalue::Ref(_, bk, p) => J::Obj(vec![
                ("k", s("ref")),
                ("mut", J::Bool(matches!(bk, mir::BorrowKind::Mut { .. }))),
                ("pl", self.place_json(body, p)),
            ]),
            Rvalue::ThreadLocalRef(d) => J::Obj(vec![("k", s("tls")), ("item", s(path_of(tcx, *d)))]),
            Rvalue::RawPtr(k, p) => J::Obj(vec![
                ("k", s("rawptr")),
                ("mut", J::Bool(matches!(k, mir::RawPtrKind::Mut))),
                ("pl", self.place_json(body, p)),
            ]),
            Rvalue::Cast(ck, o, t) => J::Obj(vec![
                ("k", s("cast")),
                ("ck", s(format!("{:?}", ck))),
                ("op", self.operand_json(body, o)),
                ("ty", s(ty_str(*t))),
                ("from", s(ty_str(o.ty(body, tcx)))),
            ]),
            Rvalue::BinaryOp(op, ab) => J::Obj(vec![
                ("k", s("binop")),
                ("op", s(format!("{:?}", op))),
                ("a", self.operand_json(body, &ab.0)),
                ("b", self.operand_json(body, &ab.1)),
                ("ty", s(ty_str(ab.0.ty(body, tcx)))),
            ]),
            Rvalue::UnaryOp(op, a) => J::Obj(vec![
                ("k", s("unop")),
                ("op", s(format!("{:?}", op))),
                ("a", self.operand_json(body, a)),
                ("ty", s(ty_str(a.ty(body, tcx)))),
            ]),
            Rvalue::Discriminant(p) => J::Obj(vec![("k", s("discr")), ("pl", self.place_json(body, p))]),
            Rvalue::Aggregate(kind, ops) => {
                let mut v: Vec<(&'static str, J)> = vec![("k", s("agg"))];
                match &**kind {
                    AggregateKind::Array(t) => {
                        v.push(("ak", s("array")));
                        v.push(("ety", s(ty_str(*t))));
                    }
                    AggregateKind::Tuple => v.push(("ak", s("tuple"))),
                    AggregateKind::Adt(did, vi, _, _, active) => {
                        v.push(("ak", s("adt")));
                        v.push(("adt", s(path_of(tcx, *did))));
                        let adt = tcx.adt_def(*did);
                        let var = adt.variant(*vi);
                        v.push(("var", s(var.name.to_string())));
                        v.push(("vi", J::Int(vi.as_u32() as i128)));
                        if let Some(a) = active {
                            v.push(("active", J::Int(a.as_u32() as i128)));
                        }
                        v.push((
                            "fields",
                            J::Arr(var.fields.iter().map(|f| s(f.name.to_string())).collect()),
                        ));
                    }
                    AggregateKind::Closure(did, _) => {
                        v.push(("ak", s("closure")));
                        v.push(("closure", s(path_of(tcx, *did))));
                        if let Some(l) = did.as_local() {
                            let caps = tcx.closure_captures(l);
                            v.push(("fields", J::Arr(caps.iter().map(|c| s(c.to_symbol().to_string())).collect())));
                        }
                    }
                    AggregateKind::RawPtr(..) => v.push(("ak", s("rawptr"))),
                    other => v.push(("ak", s(format!("{:?}", other)))),
                }
                v.push(("ops", J::Arr(ops.iter().map(|o| self.operand_json(body, o)).collect())));
                J::Obj(v)
            }
            Rvalue::CopyForDeref(p) => J::Obj(vec![
                ("k", s("use")),
                ("op", J::Obj(vec![("k", s("copy")), ("pl", self.place_json(body, p))])),
            ]),
            other => J::Obj(vec![("k", s("other")), ("dbg", s(format!("{:?}", other)))]),
        }
    }

    fn callee_json(&self, body: &Body<'tcx>, func: &Operand<'tcx>) -> Vec<(&'static str, J)> {
        let tcx = self.tcx;
        let fty = func.ty(body, tcx);
        let mut v: Vec<(&'static str, J)> = Vec::new();
        match fty.kind() {
            ty::FnDef(did, args) => {
                v.push(("decl", s(path_of(tcx, *did))));
                v.push(("decl_disp", s(path_with_args(tcx, *did, args))));
                let mut resolved = false;
                if let Ok(Some(inst)) = Instance::try_resolve(tcx, self.env, *did, args) {
                    let rd = inst.def_id();
                    v.push(("callee", s(path_of(tcx, rd))));
                    v.push(("callee_disp", s(path_with_args(tcx, rd, inst.args))));
                    v.push(("inst", s(format!("{:?}", std::mem::discriminant(&inst.def)).replace("Discriminant", ""))));
                    v.push(("inst_kind", s(inst_kind(&inst.def))));
                    v.push(("local", J::Bool(rd.is_local())));
                    resolved = true;
                }
                if !resolved {
                    v.push(("callee", s(path_of(tcx, *did))));
                    v.push(("callee_disp", s(path_with_args(tcx, *did, args))));
                    v.push(("inst_kind", s("unresolved")));
                    v.push(("local", J::Bool(did.is_local())));
                }
                let ga: Vec<J> = args.iter().map(|a| s(with_resolve_crate_name!(with_no_trimmed_paths!(with_no_visible_paths!(format!("{}", a)))))).collect();
                v.push(("gargs", J::Arr(ga)));
                // const generic args evaluated
                let mut cvals = Vec::new();
                for a in args.iter() {
                    if let Some(ct) = a.as_const() {
                        match ct.try_to_target_usize(tcx) {
                            Some(x) => cvals.push(J::UInt(x as u128)),
                            None => cvals.push(J::Null),
                        }
                    }
                }
                if !cvals.is_empty() {
                    v.push(("cgargs", J::Arr(cvals)));
                }
            }
            _ => {
                v.push(("indirect", J::Bool(true)));
                v.push(("fty", s(ty_str(fty))));
                v.push(("fop", self.operand_json(body, func)));
            }
        }
        v
    }

    fn body_json(&self, did: DefId, body: &Body<'tcx>, promoted: Option<u32>) -> J {
        let tcx = self.tcx;
        let mut locals = Vec::new();
        for (_l, d) in body.local_decls.iter_enumerated() {
            let mut o: Vec<(&'static str, J)> = vec![("ty", s(ty_str(d.ty)))];
            let peeled = d.ty.peel_refs();
            match peeled.kind() {
                ty::Closure(cd, _) => o.push(("closure", s(path_of(tcx, *cd)))),
                ty::Adt(a, _) => o.push(("adt", s(path_of(tcx, a.did())))),
                _ => {}
            }
            locals.push(J::Obj(o));
        }
        let mut dbg = Vec::new();
        for vdi in body.var_debug_info.iter() {
            let mut o: Vec<(&'static str, J)> = vec![("name", s(vdi.name.to_string()))];
            match &vdi.value {
                mir::VarDebugInfoContents::Place(p) => o.push(("pl", self.place_json(body, p))),
                mir::VarDebugInfoContents::Const(c) => o.push(("const", self.const_json(&c.const_))),
            }
            if let Some(a) = vdi.argument_index {
                o.push(("arg", J::Int(a as i128)));
            }
            dbg.push(J::Obj(o));
        }
        let mut blocks = Vec::new();
        for (_bb, data) in body.basic_blocks.iter_enumerated() {
            let mut stmts = Vec::new();
            for st in data.statements.iter() {
                match &st.kind {
                    StatementKind::Assign(b) => {
                        let (pl, rv) = &**b;
                        stmts.push(J::Obj(vec![
                            ("k", s("assign")),
                            ("pl", self.place_json(body, pl)),
                            ("rv", self.rvalue_json(body, rv)),
                            ("sp", span_json(tcx, st.source_info.span)),
                        ]));
                    }
                    StatementKind::SetDiscriminant { place, variant_index } => {
                        stmts.push(J::Obj(vec![
                            ("k", s("setdiscr")),
                            ("pl", self.place_json(body, place)),
                            ("vi", J::Int(variant_index.as_u32() as i128)),
                            ("sp", span_json(tcx, st.source_info.span)),
                        ]));
                    }
                    StatementKind::StorageDead(l) => {
                        stmts.push(J::Obj(vec![("k", s("dead")), ("l", J::Int(l.as_u32() as i128))]));
                    }
                    StatementKind::Intrinsic(i) => {
                        stmts.push(J::Obj(vec![("k", s("intrinsic")), ("dbg", s(format!("{:?}", i)))]));
                    }
                    _ => {}
                }
            }
            let term = data.terminator();
            let sp = span_json(tcx, term.source_info.span);
            let unwind_j = |u: &UnwindAction| match u {
                UnwindAction::Cleanup(b) => J::Int(b.as_u32() as i128),
                _ => J::Null,
            };
            let tj = match &term.kind {
                TerminatorKind::Goto { target } => {
                    J::Obj(vec![("k", s("goto")), ("t", J::Int(target.as_u32() as i128)), ("sp", sp)])
                }
                TerminatorKind::SwitchInt { discr, targets } => {
                    let dty = discr.ty(body, tcx);
                    let mut ts = Vec::new();
                    for (val, bb) in targets.iter() {
                        // sign-interpret for signed discr types
                        let vj = match dty.kind() {
                            ty::Int(it) => {
                                let nb = it.bit_width().unwrap_or(64) as u32;
                                let sign = 1u128 << (nb - 1);
                                if nb < 128 && val & sign != 0 {
                                    J::Int((val as i128) - (1i128 << nb))
                                } else {
                                    J::Int(val as i128)
                                }
                            }
                            _ => J::UInt(val),
                        };
                        ts.push(J::Arr(vec![vj, J::Int(bb.as_u32() as i128)]));
                    }
                    J::Obj(vec![
                        ("k", s("switch")),
                        ("discr", self.operand_json(body, discr)),
                        ("dty", s(ty_str(dty))),
                        ("targets", J::Arr(ts)),
                        ("otherwise", J::Int(targets.otherwise().as_u32() as i128)),
                        ("sp", sp),
                    ])
                }
                TerminatorKind::Return => J::Obj(vec![("k", s("return")), ("sp", sp)]),
                TerminatorKind::Unreachable => J::Obj(vec![("k", s("unreachable")), ("sp", sp)]),
                TerminatorKind::UnwindResume => J::Obj(vec![("k", s("resume")), ("sp", sp)]),
                TerminatorKind::UnwindTerminate(_) => J::Obj(vec![("k", s("terminate")), ("sp", sp)]),
                TerminatorKind::Drop { place, target, unwind, .. } => J::Obj(vec![
                    ("k", s("drop")),
                    ("pl", self.place_json(body, place)),
                    ("t", J::Int(target.as_u32() as i128)),
                    ("unwind", unwind_j(unwind)),
                    ("sp", sp),
                ]),
                TerminatorKind::Call { func, args, destination, target, unwind, fn_span, .. } => {
                    let mut v: Vec<(&'static str, J)> = vec![("k", s("call"))];
                    v.extend(self.callee_json(body, func));
                    v.push(("args", J::Arr(args.iter().map(|a| self.operand_json(body, &a.node)).collect())));
                    v.push(("dest", self.place_json(body, destination)));
                    v.push(("t", match target {
                        Some(t) => J::Int(t.as_u32() as i128),
                        None => J::Null,
                    }));
                    v.push(("unwind", unwind_j(unwind)));
                    v.push(("sp", sp));
                    v.push(("fsp", span_json(tcx, *fn_span)));
                    J::Obj(v)
                }
                TerminatorKind::TailCall { func, args, .. } => {
                    let mut v: Vec<(&'static str, J)> = vec![("k", s("tailcall"))];
                    v.extend(self.callee_json(body, func));
                    v.push(("args", J::Arr(args.iter().map(|a| self.operand_json(body, &a.node)).collect())));
                    v.push(("sp", sp));
                    J::Obj(v)
                }
                TerminatorKind::Assert { cond, expected, msg, target, unwind } => {
                    let mut v: Vec<(&'static str, J)> = vec![("k", s("assert"))];
                    v.push(("cond", self.operand_json(body, cond)));
                    v.push(("expected", J::Bool(*expected)));
                    match &**msg {
                        AssertKind::BoundsCheck { len, index } => {
                            v.push(("ak", s("bounds")));
                            v.push(("len", self.operand_json(body, len)));
                            v.push(("index", self.operand_json(body, index)));
                        }
                        AssertKind::Overflow(op, a, b) => {
                            v.push(("ak", s("overflow")));
                            v.push(("op", s(binop_name(*op))));
                            v.push(("a", self.operand_json(body, a)));
                            v.push(("b", self.operand_json(body, b)));
                            v.push(("ty", s(ty_str(a.ty(body, tcx)))));
                        }
                        AssertKind::OverflowNeg(a) => {
                            v.push(("ak", s("overflow")));
                            v.push(("op", s("Neg")));
                            v.push(("a", self.operand_json(body, a)));
                            v.push(("ty", s(ty_str(a.ty(body, tcx)))));
                        }
                        AssertKind::DivisionByZero(a) => {
                            v.push(("ak", s("divzero")));
                            v.push(("a", self.operand_json(body, a)));
                        }
                        AssertKind::RemainderByZero(a) => {
                            v.push(("ak", s("remzero")));
                            v.push(("a", self.operand_json(body, a)));
                        }
                        other => {
                            v.push(("ak", s("other")));
                            v.push(("dbg", s(format!("{:?}", other))));
                        }
                    }
                    v.push(("t", J::Int(target.as_u32() as i128)));
                    v.push(("unwind", unwind_j(unwind)));
                    v.push(("sp", sp));
                    J::Obj(v)
                }
                other => J::Obj(vec![("k", s("other")), ("dbg", s(format!("{:?}", other))), ("sp", sp)]),
            };
            blocks.push(J::Obj(vec![
                ("stmts", J::Arr(stmts)),
                ("term", tj),
                ("cleanup", J::Bool(data.is_cleanup)),
            ]));
        }
        let dk = tcx.def_kind(did);
        let kind = match dk {
            DefKind::Fn => "fn",
            DefKind::AssocFn => "assocfn",
            DefKind::Closure => "closure",
            _ => "other",
        };
        let kind = if promoted.is_some() { "promoted" } else { kind };
        let key = match promoted {
            Some(i) => format!("{}::{{promoted#{}}}", path_of(tcx, did), i),
            None => path_of(tcx, did),
        };
        let mut v: Vec<(&'static str, J)> = vec![
            ("key", s(key)),
            ("kind", s(kind)),
            ("crate", s(tcx.crate_name(LOCAL_CRATE).to_string())),
        ];
        let sm = tcx.sess.source_map();
        let lo = sm.lookup_char_pos(body.span.lo());
        let hi = sm.lookup_char_pos(body.span.hi());
        let si = span_info(tcx, body.span);
        v.push(("file", s(si.file)));
        v.push(("line_lo", J::Int(lo.line as i128)));
        v.push(("line_hi", J::Int(hi.line as i128)));
        if promoted.is_none() && matches!(dk, DefKind::Fn | DefKind::AssocFn) {
            let vis = tcx.visibility(did);
            v.push(("pub", J::Bool(vis.is_public())));
            let sig = tcx.fn_sig(did).instantiate_identity().skip_norm_wip();
            v.push(("sig", s(with_resolve_crate_name!(with_no_trimmed_paths!(with_no_visible_paths!(format!("{}", sig)))))));
            // own generic parameters in declaration order (lifetimes excluded): lets a rule bind the generic
            // arguments recorded at a call site (`gargs`) to the names used inside the body (`tyconst`)
            let gens = tcx.generics_of(did);
            let mut gn: Vec<J> = Vec::new();
            for gp in gens.own_params.iter() {
                if !matches!(gp.kind, rustc_middle::ty::GenericParamDefKind::Lifetime) {
                    gn.push(s(gp.name.to_string()));
                }
            }
            v.push(("generics", J::Arr(gn)));
            if let Some(ai) = tcx.opt_associated_item(did) {
                let cont = ai.container_id(tcx);
                v.push(("container", s(path_of(tcx, cont))));
                if let DefKind::Impl { of_trait } = tcx.def_kind(cont) {
                    let st = tcx.type_of(cont).instantiate_identity().skip_norm_wip();
                    v.push(("self_ty", s(ty_str(st))));
                    if of_trait {
                        let tr = tcx.impl_trait_ref(cont).instantiate_identity().skip_norm_wip();
                        v.push(("trait", s(path_of(tcx, tr.def_id))));
                    }
                }
            }
        }
        if promoted.is_none() && matches!(dk, DefKind::Closure) {
            let parent = tcx.typeck_root_def_id(did);
            v.push(("root", s(path_of(tcx, parent))));
            v.push(("parent", s(path_of(tcx, tcx.parent(did)))));
        }
        v.push(("arg_count", J::Int(body.arg_count as i128)));
        v.push(("locals", J::Arr(locals)));
        v.push(("dbg", J::Arr(dbg)));
        v.push(("blocks", J::Arr(blocks)));
        // attributes of interest
        let is_test = false;
        v.push(("test", J::Bool(is_test)));
        J::Obj(v)
    }
}

fn inst_kind(d: &ty::InstanceKind<'_>) -> String {
    let full = format!("{:?}", d);
    full.split(|c| c == '(' || c == ' ' || c == '{').next().unwrap_or("").to_string()
}

fn binop_name(op: BinOp) -> String {
    format!("{:?}", op)
}

// ---------------------------------------------------------------------------------------------
// Alpha-renaming facts (development aid): every local binding with the exact byte ranges of its
// declaration and uses, so that a tool can rename locals in a scratch copy without changing
// behaviour.  Written to $RAGC_RENAME_DIR/<crate>.rename.json when that variable is set.
struct RenameV<'tcx> {
    tcx: TyCtxt<'tcx>,
    // hir_id -> (name, decl spans, use spans, shorthand flags, tainted)
    binds: std::collections::BTreeMap<(u32, u32), Bind>,
    shorthand_expr: std::collections::HashSet<Span>,
    shorthand_pat: std::collections::HashSet<Span>,
}
struct NoiseV<'tcx> {
    tcx: TyCtxt<'tcx>,
    stmts: Vec<Span>,
    ifs: Vec<(Span, Span, Span, Span)>,
}
impl<'tcx> rustc_hir::intravisit::Visitor<'tcx> for NoiseV<'tcx> {
    fn visit_block(&mut self, b: &'tcx rustc_hir::Block<'tcx>) {
        // only blocks that are written as `{ .. }` in the source (proc-macro output re-uses foreign spans)
        let sm = self.tcx.sess.source_map();
        let real = match sm.span_to_snippet(b.span) {
            Ok(sn) => sn.starts_with('{') && sn.ends_with('}'),
            Err(_) => false,
        };
        if !b.span.from_expansion() && real {
            for st in b.stmts {
                if !st.span.from_expansion() && b.span.contains(st.span) && !matches!(st.kind, rustc_hir::StmtKind::Item(_)) {
                    self.stmts.push(st.span);
                }
            }
        }
        rustc_hir::intravisit::walk_block(self, b);
    }
    fn visit_expr(&mut self, e: &'tcx rustc_hir::Expr<'tcx>) {
        // `if c { A } else { B }` with a plain boolean condition and two written-out blocks
        if let rustc_hir::ExprKind::If(c, th, Some(el)) = e.kind {
            let plain = !matches!(c.kind, rustc_hir::ExprKind::Let(..)) && !contains_let(c);
            let both_blocks = matches!(th.kind, rustc_hir::ExprKind::Block(_, None)) && matches!(el.kind, rustc_hir::ExprKind::Block(_, None));
            let sm = self.tcx.sess.source_map();
            let brace = |sp: Span| matches!(sm.span_to_snippet(sp), Ok(s) if s.starts_with('{') && s.ends_with('}'));
            if plain && both_blocks && !e.span.from_expansion() && !c.span.from_expansion() && !th.span.from_expansion() && !el.span.from_expansion()
                && brace(th.span) && brace(el.span) && e.span.contains(c.span) && e.span.contains(th.span) && e.span.contains(el.span)
            {
                if let Ok(s) = sm.span_to_snippet(e.span) {
                    if s.starts_with("if ") {
                        self.ifs.push((e.span, c.span, th.span, el.span));
                    }
                }
            }
        }
        rustc_hir::intravisit::walk_expr(self, e);
    }
}
fn contains_let(e: &rustc_hir::Expr<'_>) -> bool {
    match e.kind {
        rustc_hir::ExprKind::Let(..) => true,
        rustc_hir::ExprKind::Binary(_, a, b) => contains_let(a) || contains_let(b),
        rustc_hir::ExprKind::DropTemps(x) => contains_let(x),
        _ => false,
    }
}
struct Bind {
    name: String,
    decl: Vec<(Span, bool)>,
    uses: Vec<(Span, bool)>,
    param: bool,
}
fn hid(h: rustc_hir::HirId) -> (u32, u32) {
    (h.owner.def_id.local_def_index.as_u32(), h.local_id.as_u32())
}
impl<'tcx> rustc_hir::intravisit::Visitor<'tcx> for RenameV<'tcx> {
    fn visit_pat(&mut self, p: &'tcx rustc_hir::Pat<'tcx>) {
        if let rustc_hir::PatKind::Struct(_, fields, _) = p.kind {
            for f in fields {
                if f.is_shorthand {
                    self.shorthand_pat.insert(f.pat.span);
                }
            }
        }
        if let rustc_hir::PatKind::Binding(_, id, ident, _) = p.kind {
            let sh = self.shorthand_pat.contains(&p.span);
            let e = self.binds.entry(hid(id)).or_insert_with(|| Bind { name: ident.name.to_string(), decl: vec![], uses: vec![], param: false });
            e.decl.push((ident.span, sh));
        }
        rustc_hir::intravisit::walk_pat(self, p);
    }
    fn visit_expr(&mut self, e: &'tcx rustc_hir::Expr<'tcx>) {
        if let rustc_hir::ExprKind::Struct(_, fields, _) = e.kind {
            for f in fields {
                if f.is_shorthand {
                    self.shorthand_expr.insert(f.expr.span);
                }
            }
        }
        if let rustc_hir::ExprKind::Path(rustc_hir::QPath::Resolved(None, path)) = e.kind {
            if let rustc_hir::def::Res::Local(id) = path.res {
                let sh = self.shorthand_expr.contains(&e.span);
                let name = self.tcx.hir_name(id).to_string();
                let b = self.binds.entry(hid(id)).or_insert_with(|| Bind { name, decl: vec![], uses: vec![], param: false });
                b.uses.push((path.span, sh));
            }
        }
        rustc_hir::intravisit::walk_expr(self, e);
    }
}
fn rename_facts(tcx: TyCtxt<'_>, out_dir: &str) {
    let krate = tcx.crate_name(LOCAL_CRATE).to_string();
    if krate.starts_with("build_script") {
        return;
    }
    let sm = tcx.sess.source_map();
    let mut all = Vec::new();
    // one map for the whole crate: a closure body is a body owner of its own, but the locals it captures
    // are declared in the enclosing body and share its HIR owner
    let mut v = RenameV { tcx, binds: Default::default(), shorthand_expr: Default::default(), shorthand_pat: Default::default() };
    let mut owner_of: std::collections::BTreeMap<(u32, u32), String> = Default::default();
    for ldid in tcx.hir_body_owners() {
        let body = tcx.hir_body_owned_by(ldid);
        if tcx.def_span(ldid).from_expansion() {
            continue;       // code generated by a derive / proc macro re-uses the spans of its input tokens
        }
        let is_fn = matches!(tcx.def_kind(ldid.to_def_id()), DefKind::Fn | DefKind::AssocFn);
        let before: std::collections::BTreeSet<(u32, u32)> = v.binds.keys().cloned().collect();
        for prm in body.params {
            rustc_hir::intravisit::Visitor::visit_pat(&mut v, prm.pat);
        }
        if is_fn {
            for (k, b) in v.binds.iter_mut() {
                if !before.contains(k) {
                    b.param = true;
                }
            }
        }
        rustc_hir::intravisit::Visitor::visit_expr(&mut v, body.value);
        let owner = path_of(tcx, ldid.to_def_id());
        for k in v.binds.keys() {
            owner_of.entry(*k).or_insert_with(|| owner.clone());
        }
    }
    {
        for (k, b) in std::mem::take(&mut v.binds) {
            let owner = owner_of.get(&k).cloned().unwrap_or_default();
            let mut ok = !b.decl.is_empty();
            let mut sites = Vec::new();
            for (sp, sh, is_decl) in b.decl.iter().map(|x| (x.0, x.1, true)).chain(b.uses.iter().map(|x| (x.0, x.1, false))) {
                if sp.from_expansion() {
                    ok = false;
                    break;
                }
                match sm.span_to_snippet(sp) {
                    Ok(snip) if snip == b.name => {}
                    _ => {
                        ok = false;
                        break;
                    }
                }
                let lo = sm.lookup_byte_offset(sp.lo());
                let file = match &lo.sf.name {
                    rustc_span::FileName::Real(r) => match r.local_path() {
                        Some(p) => p.to_string_lossy().to_string(),
                        None => {
                            ok = false;
                            String::new()
                        }
                    },
                    _ => {
                        ok = false;
                        String::new()
                    }
                };
                sites.push(J::Obj(vec![
                    ("file", s(file)),
                    ("lo", J::Int(lo.pos.0 as i128)),
                    ("len", J::Int(b.name.len() as i128)),
                    ("shorthand", J::Bool(sh)),
                    ("decl", J::Bool(is_decl)),
                ]));
            }
            if b.name == "self" || b.name.starts_with('_') {
                ok = false;
            }
            all.push(J::Obj(vec![
                ("owner", s(owner.clone())),
                ("name", s(b.name.clone())),
                ("param", J::Bool(b.param)),
                ("renamable", J::Bool(ok)),
                ("sites", J::Arr(sites)),
            ]));
        }
    }
    // statement starts (for the "noise" mutator: a no-op call inserted in front of every statement)
    let mut stmts = Vec::new();
    let mut ifs = Vec::new();
    for ldid in tcx.hir_body_owners() {
        if !matches!(tcx.def_kind(ldid.to_def_id()), DefKind::Fn | DefKind::AssocFn | DefKind::Closure) || tcx.def_span(ldid).from_expansion() {
            continue;
        }
        if tcx.is_const_fn(ldid.to_def_id()) {
            continue;
        }
        let body = tcx.hir_body_owned_by(ldid);
        let mut nv = NoiseV { tcx, stmts: vec![], ifs: vec![] };
        rustc_hir::intravisit::Visitor::visit_expr(&mut nv, body.value);
        for (e, c, th, el) in nv.ifs {
            let off = |sp: Span| {
                let lo = sm.lookup_byte_offset(sp.lo());
                let hi = sm.lookup_byte_offset(sp.hi());
                (lo.pos.0 as i128, hi.pos.0 as i128)
            };
            let lo = sm.lookup_byte_offset(e.lo());
            if let rustc_span::FileName::Real(r) = &lo.sf.name {
                if let Some(p) = r.local_path() {
                    let (e0, e1) = off(e);
                    let (c0, c1) = off(c);
                    let (t0, t1) = off(th);
                    let (l0, l1) = off(el);
                    ifs.push(J::Obj(vec![
                        ("file", s(p.to_string_lossy().to_string())),
                        ("e", J::Arr(vec![J::Int(e0), J::Int(e1)])),
                        ("c", J::Arr(vec![J::Int(c0), J::Int(c1)])),
                        ("t", J::Arr(vec![J::Int(t0), J::Int(t1)])),
                        ("l", J::Arr(vec![J::Int(l0), J::Int(l1)])),
                    ]));
                }
            }
        }
        for sp in nv.stmts {
            let lo = sm.lookup_byte_offset(sp.lo());
            if let rustc_span::FileName::Real(r) = &lo.sf.name {
                if let Some(p) = r.local_path() {
                    stmts.push(J::Obj(vec![("file", s(p.to_string_lossy().to_string())), ("lo", J::Int(lo.pos.0 as i128))]));
                }
            }
        }
    }
    let root = J::Obj(vec![("crate", s(krate.clone())), ("bindings", J::Arr(all)), ("stmts", J::Arr(stmts)), ("ifs", J::Arr(ifs))]);
    let mut out = String::with_capacity(1 << 20);
    root.write(&mut out);
    let path = format!("{}/{}.rename.json", out_dir, krate);
    std::fs::write(&path, out.as_bytes()).expect("write rename facts");
}

struct Cb;

impl rustc_driver::Callbacks for Cb {
    fn after_analysis<'tcx>(&mut self, _c: &rustc_interface::interface::Compiler, tcx: TyCtxt<'tcx>) -> Compilation {
        if let Ok(d) = std::env::var("RAGC_RENAME_DIR") {
            rename_facts(tcx, &d);
        }
        let out_dir = match std::env::var("RAGC_FACTS_DIR") {
            Ok(d) => d,
            Err(_) => return Compilation::Continue,
        };
        let krate = tcx.crate_name(LOCAL_CRATE).to_string();
        if krate.starts_with("build_script") {
            return Compilation::Continue;
        }
        let mut functions = Vec::new();
        let mut nfn = 0usize;
        for ldid in tcx.hir_body_owners() {
            let did = ldid.to_def_id();
            let dk = tcx.def_kind(did);
            if !matches!(dk, DefKind::Fn | DefKind::AssocFn | DefKind::Closure) {
                continue;
            }
            if tcx.is_constructor(did) {
                continue;
            }
            let body = tcx.optimized_mir(did);
            let cx = Cx { tcx, env: TypingEnv::post_analysis(tcx, did) };
            functions.push(cx.body_json(did, body, None));
            nfn += 1;
            // promoted constants of this body (e.g. `&(a..=b)`, `&[0]`) as tiny bodies of their own
            let proms = tcx.promoted_mir(did);
            for (pi, pb) in proms.iter_enumerated() {
                functions.push(cx.body_json(did, pb, Some(pi.as_u32())));
            }
        }
        // ADTs, consts, statics, impls
        let mut adts = Vec::new();
        let mut consts = Vec::new();
        let mut statics = Vec::new();
        let mut impls = Vec::new();
        for ldid in tcx.hir_crate_items(()).definitions() {
            let did = ldid.to_def_id();
            match tcx.def_kind(did) {
                DefKind::Struct | DefKind::Enum | DefKind::Union => {
                    let adt = tcx.adt_def(did);
                    let mut vars = Vec::new();
                    for var in adt.variants().iter() {
                        let mut fields = Vec::new();
                        for f in var.fields.iter() {
                            let fty = tcx.type_of(f.did).instantiate_identity().skip_norm_wip();
                            fields.push(J::Obj(vec![
                                ("name", s(f.name.to_string())),
                                ("ty", s(ty_str(fty))),
                                ("pub", J::Bool(f.vis.is_public())),
                                ("vis", s(format!("{:?}", f.vis))),
                            ]));
                        }
                        vars.push(J::Obj(vec![("name", s(var.name.to_string())), ("fields", J::Arr(fields))]));
                    }
                    let si = span_info(tcx, tcx.def_span(did));
                    adts.push(J::Obj(vec![
                        ("key", s(path_of(tcx, did))),
                        ("kind", s(format!("{:?}", tcx.def_kind(did)))),
                        ("pub", J::Bool(tcx.visibility(did).is_public())),
                        ("variants", J::Arr(vars)),
                        ("file", s(si.file)),
                        ("line", J::Int(si.line as i128)),
                    ]));
                }
                DefKind::Const { .. } | DefKind::AssocConst { .. } => {
                    let generics = tcx.generics_of(did);
                    if generics.count() != 0 || generics.parent_count != 0 && tcx.generics_of(generics.parent.unwrap()).count() != 0 {
                        // generic const: record without value
                        consts.push(J::Obj(vec![("key", s(path_of(tcx, did))), ("generic", J::Bool(true))]));
                        continue;
                    }
                    // trait-provided consts without value
                    if let Some(ai) = tcx.opt_associated_item(did) {
                        if !ai.defaultness(tcx).has_value() {
                            continue;
                        }
                    }
                    let ty = tcx.type_of(did).instantiate_identity().skip_norm_wip();
                    let mut v: Vec<(&'static str, J)> = vec![("key", s(path_of(tcx, did))), ("ty", s(ty_str(ty)))];
                    let si = span_info(tcx, tcx.def_span(did));
                    v.push(("file", s(si.file)));
                    v.push(("line", J::Int(si.line as i128)));
                    if let Ok(cv) = tcx.const_eval_poly(did) {
                        v.extend(const_value_json(tcx, cv, ty));
                    }
                    consts.push(J::Obj(v));
                }
                DefKind::Static { mutability, .. } => {
                    let ty = tcx.type_of(did).instantiate_identity().skip_norm_wip();
                    let si = span_info(tcx, tcx.def_span(did));
                    statics.push(J::Obj(vec![
                        ("key", s(path_of(tcx, did))),
                        ("ty", s(ty_str(ty))),
                        ("mut", J::Bool(mutability.is_mut())),
                        ("thread_local", J::Bool(tcx.is_thread_local_static(did))),
                        ("file", s(si.file)),
                        ("line", J::Int(si.line as i128)),
                    ]));
                }
                DefKind::Impl { of_trait } => {
                    let st = tcx.type_of(did).instantiate_identity().skip_norm_wip();
                    let mut v: Vec<(&'static str, J)> = vec![("key", s(path_of(tcx, did))), ("self_ty", s(ty_str(st)))];
                    if let ty::Adt(a, _) = st.kind() {
                        v.push(("adt", s(path_of(tcx, a.did()))));
                    }
                    if of_trait {
                        let tr = tcx.impl_trait_ref(did).instantiate_identity().skip_norm_wip();
                        v.push(("trait", s(path_of(tcx, tr.def_id))));
                    }
                    let items: Vec<J> = tcx
                        .associated_items(did)
                        .in_definition_order()
                        .map(|ai| s(path_of(tcx, ai.def_id)))
                        .collect();
                    v.push(("items", J::Arr(items)));
                    let si = span_info(tcx, tcx.def_span(did));
                    v.push(("file", s(si.file)));
                    v.push(("line", J::Int(si.line as i128)));
                    v.push(("derived", J::Bool(tcx.is_automatically_derived(did))));
                    impls.push(J::Obj(v));
                }
                _ => {}
            }
        }
        let cfg_dbg = tcx.sess.opts.debug_assertions;
        let ovf = tcx.sess.overflow_checks();
        let root = J::Obj(vec![
            ("crate", s(krate.clone())),
            ("crate_types", J::Arr(tcx.crate_types().iter().map(|t| s(format!("{:?}", t))).collect())),
            ("debug_assertions", J::Bool(cfg_dbg)),
            ("overflow_checks", J::Bool(ovf)),
            ("n_functions", J::Int(nfn as i128)),
            ("functions", J::Arr(functions)),
            ("adts", J::Arr(adts)),
            ("consts", J::Arr(consts)),
            ("statics", J::Arr(statics)),
            ("impls", J::Arr(impls)),
        ]);
        let mut out = String::with_capacity(1 << 24);
        root.write(&mut out);
        let path = format!("{}/{}.json", out_dir, krate);
        let tmp = format!("{}.tmp{}", path, std::process::id());
        std::fs::write(&tmp, out.as_bytes()).expect("write facts");
        std::fs::rename(&tmp, &path).expect("rename facts");
        Compilation::Continue
    }
}

fn main() {
    let mut args: Vec<String> = std::env::args().collect();
    // RUSTC_WORKSPACE_WRAPPER: argv[1] is the path of the real rustc
    if args.len() > 1 && (args[1].ends_with("rustc") || args[1].contains("/rustc")) {
        args.remove(1);
    }
    let mut cb = Cb;
    rustc_driver::run_compiler(&args, &mut cb);
}
