"""Loading of the MIR fact files written by engine/driver and basic accessors.

Everything here is property-agnostic.  Functions are indexed by their key
(`crate::path::Type::<T>::method`, closures as `...::{closure#n}`).
"""
import json
import os
import re

CRATES = ["ragc_common", "ragc_core", "ragc", "split_fasta", "compare_archives"]


_PARAMS = None


def _alias_params(fd):
    """A parameter that was only renamed keeps the name the rules know (position-based alias from
    engine/tables/param_names.json).  Applied only to names that are new to the function: if the current names
    are the frozen names in another order, the signature was reordered and the current names are right."""
    global _PARAMS
    if os.environ.get("VERIF_NO_PARAM_ALIAS"):
        return
    if _PARAMS is None:
        p = os.path.join(os.path.dirname(os.path.dirname(os.path.dirname(os.path.abspath(__file__)))), "engine", "tables", "param_names.json")
        try:
            with open(p) as fh:
                _PARAMS = json.load(fh)["functions"]
        except OSError:
            _PARAMS = {}
    frozen = _PARAMS.get(fd["key"])
    if not frozen or len(frozen) != fd.get("arg_count"):
        return
    cur = {}
    for v in fd["dbg"]:
        if "arg" in v and v.get("pl") is not None and not v["pl"]["p"]:
            cur[v["pl"]["l"]] = v
    names_now = {v["name"] for v in cur.values()}
    fset = {n for n in frozen if n}
    for l, v in cur.items():
        want = frozen[l - 1] if 0 < l <= len(frozen) else None
        if want and v["name"] != want and v["name"] not in fset and want not in names_now:
            v["alias_of"] = v["name"]
            v["name"] = want


class Func:
    __slots__ = ("d", "key", "crate", "file", "blocks", "locals", "dbg", "kind", "_names",
                 "_defs", "_cfg", "root", "parent")

    def __init__(self, d):
        self.d = d
        self.key = d["key"]
        self.crate = d["crate"]
        self.file = d["file"]
        self.blocks = d["blocks"]
        self.locals = d["locals"]
        self.dbg = d["dbg"]
        self.kind = d["kind"]
        self.root = d.get("root")
        self.parent = d.get("parent")
        self._names = None
        self._defs = None
        self._cfg = None

    # ------------------------------------------------------------ names
    def local_names(self):
        """local index -> source name (only locals that are whole user variables)."""
        if self._names is None:
            n = {}
            for v in self.dbg:
                pl = v.get("pl")
                if pl is not None and not pl["p"]:
                    n.setdefault(pl["l"], v["name"])
            self._names = n
        return self._names

    def upvar_names(self):
        """field index of closure env (_1) -> captured variable name"""
        out = {}
        for v in self.dbg:
            pl = v.get("pl")
            if pl is None or pl["l"] != 1 or not pl["p"]:
                continue
            for pr in pl["p"]:
                if isinstance(pr, dict) and "f" in pr:
                    out[pr["f"]] = v["name"]
                    break
        return out

    def arg_names(self):
        out = {}
        for v in self.dbg:
            if "arg" in v and v.get("pl") is not None and not v["pl"]["p"]:
                out[v["pl"]["l"]] = v["name"]
        return out

    @property
    def line_lo(self):
        return self.d["line_lo"]

    @property
    def line_hi(self):
        return self.d["line_hi"]

    def is_pub(self):
        return self.d.get("pub", False)

    def terms(self):
        for i, b in enumerate(self.blocks):
            yield i, b["term"]

    def calls(self, include_cleanup=False):
        for i, b in enumerate(self.blocks):
            if b["cleanup"] and not include_cleanup:
                continue
            t = b["term"]
            if t["k"] == "call":
                yield i, t

    def __repr__(self):
        return "<Func %s>" % self.key


class Facts:
    def __init__(self, directory, crates=None):
        self.dir = directory
        self.crates = {}
        self.funcs = {}
        self.adts = {}
        self.consts = {}
        self.statics = {}
        self.impls = []
        want = crates or CRATES
        for c in want:
            p = os.path.join(directory, c + ".json")
            if not os.path.exists(p):
                raise FileNotFoundError("fact file missing: " + p)
            with open(p) as fh:
                d = json.load(fh)
            self.crates[c] = d
            seen = {}
            for fd in d["functions"]:
                k = fd["key"]
                if k in self.funcs or k in seen:
                    # disambiguate duplicates deterministically (order of definition)
                    n = seen.get(k, 1)
                    seen[k] = n + 1
                    fd["key"] = "%s#%d" % (k, n)
                else:
                    seen[k] = 1
                _alias_params(fd)
                self.funcs[fd["key"]] = Func(fd)
            for a in d["adts"]:
                self.adts[a["key"]] = a
            for cst in d["consts"]:
                self.consts[cst["key"]] = cst
            for st in d["statics"]:
                self.statics[st["key"]] = st
            for im in d["impls"]:
                im["crate"] = c
                self.impls.append(im)

    def func(self, key):
        return self.funcs[key]

    def find(self, pattern, crate=None):
        """functions whose key matches the regex (search)"""
        r = re.compile(pattern)
        return [f for k, f in self.funcs.items() if r.search(k) and (crate is None or f.crate == crate)]

    def one(self, pattern, crate=None):
        fs = self.find(pattern, crate)
        if len(fs) != 1:
            raise KeyError("expected exactly one function matching %r, found %d: %s" %
                           (pattern, len(fs), [f.key for f in fs][:8]))
        return fs[0]

    def closures_of(self, key):
        """all closure bodies nested (transitively) in function `key`"""
        return [f for f in self.funcs.values() if f.kind == "closure" and f.root == key]

    def const(self, key):
        return self.consts[key]


# ---------------------------------------------------------------- pretty printer
def fmt_place(pl, names=None):
    s = "_%d" % pl["l"]
    if names and pl["l"] in names:
        s = names[pl["l"]]
    for pr in pl["p"]:
        if pr == "deref":
            s = "(*%s)" % s
        elif isinstance(pr, dict):
            if "f" in pr:
                s = "%s.%s" % (s, pr.get("n", pr["f"]))
            elif "idx" in pr:
                ix = "_%d" % pr["idx"]
                if names and pr["idx"] in names:
                    ix = names[pr["idx"]]
                s = "%s[%s]" % (s, ix)
            elif "cidx" in pr:
                s = "%s[%s%d]" % (s, "-" if pr.get("from_end") else "", pr["cidx"])
            elif "dc" in pr:
                s = "(%s as %s)" % (s, pr.get("name") or pr["dc"])
            elif "sub_from" in pr:
                s = "%s[%d..%s%d]" % (s, pr["sub_from"], "-" if pr.get("from_end") else "", pr["sub_to"])
        else:
            s = "%s.<%s>" % (s, pr)
    return s


def fmt_op(o, names=None):
    k = o["k"]
    if k in ("copy", "move"):
        return ("" if k == "copy" else "move ") + fmt_place(o["pl"], names)
    if k == "const":
        if "fn" in o:
            return "fn:" + o.get("fn_disp", o["fn"])
        if "int" in o:
            return "%s_%s" % (o["int"], short_ty(o["ty"]))
        if "str" in o:
            return json.dumps(o["str"])
        if "item" in o:
            return "const:" + o["item"]
        if "bytes" in o:
            return "bytes%s" % (o["bytes"][:16],)
        return "const<%s>" % short_ty(o["ty"])
    return "?" + json.dumps(o)[:60]


def short_ty(t):
    return re.sub(r"[a-z_0-9]+::", "", t)


def fmt_rv(rv, names=None):
    k = rv["k"]
    if k == "use":
        return fmt_op(rv["op"], names)
    if k == "ref":
        return ("&mut " if rv["mut"] else "&") + fmt_place(rv["pl"], names)
    if k == "rawptr":
        return ("&raw mut " if rv["mut"] else "&raw const ") + fmt_place(rv["pl"], names)
    if k == "binop":
        return "%s(%s, %s)" % (rv["op"], fmt_op(rv["a"], names), fmt_op(rv["b"], names))
    if k == "unop":
        return "%s(%s)" % (rv["op"], fmt_op(rv["a"], names))
    if k == "cast":
        return "%s as %s [%s]" % (fmt_op(rv["op"], names), short_ty(rv["ty"]), rv["ck"])
    if k == "discr":
        return "discriminant(%s)" % fmt_place(rv["pl"], names)
    if k == "agg":
        ak = rv["ak"]
        ops = [fmt_op(o, names) for o in rv["ops"]]
        if ak == "adt":
            fl = rv.get("fields", [])
            inner = ", ".join("%s: %s" % (fl[i] if i < len(fl) else i, ops[i]) for i in range(len(ops)))
            return "%s::%s{%s}" % (short_ty(rv["adt"]), rv["var"], inner)
        if ak == "closure":
            fl = rv.get("fields", [])
            inner = ", ".join("%s: %s" % (fl[i] if i < len(fl) else i, ops[i]) for i in range(len(ops)))
            return "closure[%s]{%s}" % (rv["closure"], inner)
        return "%s(%s)" % (ak, ", ".join(ops))
    if k == "repeat":
        return "[%s; %s]" % (fmt_op(rv["op"], names), rv["n"])
    if k == "tls":
        return "tls:" + rv["item"]
    return "?" + rv.get("dbg", "")[:80]


def fmt_term(t, names=None):
    k = t["k"]
    if k == "goto":
        return "goto bb%d" % t["t"]
    if k == "switch":
        return "switch(%s) [%s, otherwise: bb%d]" % (
            fmt_op(t["discr"], names), ", ".join("%s: bb%d" % (v, b) for v, b in t["targets"]), t["otherwise"])
    if k == "call":
        callee = t.get("callee_disp") or ("indirect " + fmt_op(t["fop"], names))
        return "%s = %s(%s) -> %s" % (fmt_place(t["dest"], names), callee,
                                      ", ".join(fmt_op(a, names) for a in t["args"]),
                                      "bb%s" % t["t"] if t["t"] is not None else "!")
    if k == "drop":
        return "drop(%s) -> bb%d" % (fmt_place(t["pl"], names), t["t"])
    if k == "assert":
        extra = ""
        if t["ak"] == "overflow":
            extra = "%s(%s%s) %s" % (t["op"], fmt_op(t["a"], names),
                                      (", " + fmt_op(t["b"], names)) if "b" in t else "", short_ty(t["ty"]))
        elif t["ak"] == "bounds":
            extra = "index %s < len %s" % (fmt_op(t["index"], names), fmt_op(t["len"], names))
        return "assert[%s %s] -> bb%d" % (t["ak"], extra, t["t"])
    return k


def dump(f, cleanup=False):
    names = f.local_names()
    out = ["fn %s  (%s:%d-%d) args=%d" % (f.key, f.file, f.line_lo, f.line_hi, f.d["arg_count"])]
    for i, b in enumerate(f.blocks):
        if b["cleanup"] and not cleanup:
            continue
        out.append("  bb%d%s:" % (i, " (cleanup)" if b["cleanup"] else ""))
        for s in b["stmts"]:
            if s["k"] == "assign":
                sp = s["sp"]
                out.append("    %s = %s    // L%d%s" % (fmt_place(s["pl"], names), fmt_rv(s["rv"], names), sp["line"],
                                                        " !" + sp.get("mac", "") if sp.get("exp") else ""))
            elif s["k"] == "setdiscr":
                out.append("    discr(%s) = %d" % (fmt_place(s["pl"], names), s["vi"]))
        t = b["term"]
        sp = t["sp"]
        out.append("    %s    // L%d%s" % (fmt_term(t, names), sp["line"], " !" + sp.get("mac", "") if sp.get("exp") else ""))
    return "\n".join(out)
