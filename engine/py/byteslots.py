"""Abstract interpretation of byte-granular integer codecs in an *8-bit slot domain* (C13-VAR / C02-INT).

A u64 is abstracted as 8 byte slots (slot 0 = most significant).  A slot holds a constant 0..255 or a symbolic byte
("b", id, nonzero?) - `nonzero` records that the byte is known to differ from 0 (the leading byte of a value class).
The nine classes "exactly m significant bytes" (m = 0..8: leading 8-m bytes zero, next byte non-zero, the rest
arbitrary) partition all of u64, so interpreting a codec once per class covers every value.  Transfer functions are
exact or refuse (fail closed): shifts by multiples of 8 move slots, `& 0xff..` keeps or clears whole slots, `+`/`|`
are slot-wise when one side of every slot is 0, comparison with 0 is decided from the known-non-zero byte, a
narrowing cast keeps the low slots.  Built on vecint.VecInterp (vectors as sinks and sources).
"""
import re

from absint import Interp, Undecidable, Panic
from vecint import VecInterp, some, NONE

NB = 8


class BWord:
    __slots__ = ("s",)

    def __init__(self, s):
        assert len(s) == NB
        self.s = tuple(s)

    @staticmethod
    def of_int(v):
        v &= (1 << 64) - 1
        return BWord([(v >> (56 - 8 * i)) & 255 for i in range(NB)])

    @staticmethod
    def cls(m):
        """the class of values with exactly m significant bytes: b_{m-1} != 0, b_{m-2}..b_0 arbitrary"""
        s = [0] * NB
        for i in range(m):
            s[NB - m + i] = ("b", m - 1 - i, i == 0)
        return BWord(s)

    def is_const(self):
        return all(isinstance(x, int) for x in self.s)

    def to_int(self):
        v = 0
        for x in self.s:
            v = (v << 8) | x
        return v

    def known_nonzero(self):
        return any((isinstance(x, int) and x != 0) or (isinstance(x, tuple) and x[2]) for x in self.s)

    def known_zero(self):
        return all(x == 0 for x in self.s)

    def low(self):
        return self.s[NB - 1]

    def __eq__(self, o):
        return isinstance(o, BWord) and self.s == o.s

    def __hash__(self):
        return hash(self.s)

    def __repr__(self):
        def one(x):
            return ("%d" % x) if isinstance(x, int) else ("b%d%s" % (x[1], "!" if x[2] else ""))
        i = 0
        while i < NB - 1 and self.s[i] == 0:
            i += 1
        return "<" + " ".join(one(x) for x in self.s[i:]) + ">"


def lift(v):
    if isinstance(v, BWord):
        return v
    if isinstance(v, int):
        return BWord.of_int(v)
    raise Undecidable("not an integer: %r" % (v,))


def norm(v):
    """a word whose slots are all constants is just a number"""
    if isinstance(v, BWord) and v.is_const():
        return v.to_int()
    return v


BITS = {"u8": 8, "u16": 16, "u32": 32, "u64": 64, "usize": 64, "i8": 8, "i16": 16, "i32": 32, "i64": 64, "isize": 64}


def narrow(v, ty):
    b = BITS.get(ty)
    if b is None or not isinstance(v, BWord):
        return v
    keep = b // 8
    return norm(BWord([0] * (NB - keep) + list(v.s[NB - keep:])))


class ByteInterp(VecInterp):
    def _sub(self, f, cp):
        return ByteInterp(self.F, self.max_steps, self.depth + 1, cp)

    def binop(self, op, a, b, ty):
        if not isinstance(a, BWord) and not isinstance(b, BWord):
            return Interp.binop(self, op, a, b, ty)
        wo = op.endswith("WithOverflow")
        base = op[:-len("WithOverflow")] if wo else op
        if base in ("Shl", "Shr", "ShlUnchecked", "ShrUnchecked"):
            if isinstance(b, BWord):
                b = norm(b)
                if isinstance(b, BWord):
                    raise Undecidable("symbolic shift amount")
            w = BITS.get(ty, 64)
            b &= w - 1
            if b % 8:
                raise Undecidable("shift of a symbolic word by %d bits (not a whole byte)" % b)
            c = b // 8
            s = lift(a).s
            r = BWord(list(s[c:]) + [0] * c) if base.startswith("Shl") else BWord([0] * c + list(s[:NB - c]))
            return narrow(r, ty)
        if base in ("Add", "BitOr", "BitXor", "BitAnd"):
            x, y = lift(a), lift(b)
            out = []
            for p, q in zip(x.s, y.s):
                if isinstance(p, int) and isinstance(q, int):
                    if base == "Add" and p + q > 255:
                        raise Undecidable("carry out of a byte slot")
                    out.append({"Add": p + q, "BitOr": p | q, "BitXor": p ^ q, "BitAnd": p & q}[base])
                elif base == "BitAnd":
                    c, sy = (p, q) if isinstance(p, int) else (q, p)
                    if not isinstance(c, int):
                        if p == q:
                            out.append(p)
                            continue
                        raise Undecidable("& of two symbolic bytes")
                    if c == 255:
                        out.append(sy)
                    elif c == 0:
                        out.append(0)
                    else:
                        raise Undecidable("mask cuts through a byte slot")
                else:
                    if p == 0:
                        out.append(q)
                    elif q == 0:
                        out.append(p)
                    else:
                        raise Undecidable("%s of two occupied byte slots (carry / overlap)" % base)
            r = narrow(BWord(out), ty)
            return {0: r, 1: 0} if wo else r
        if base in ("Gt", "Lt", "Ge", "Le", "Eq", "Ne"):
            x, y = lift(a), lift(b)
            if x == y:
                return 1 if base in ("Ge", "Le", "Eq") else 0
            zero_side = x.known_zero() or y.known_zero()
            if zero_side:
                o = y if x.known_zero() else x
                if o.known_nonzero():
                    nz = True
                elif o.known_zero():
                    nz = False
                else:
                    raise Undecidable("comparison of a byte word with 0 whose value is not determined by the class")
                # o != 0 (nz) ; unsigned: o > 0 iff nz
                if base == "Eq":
                    return 0 if nz else 1
                if base == "Ne":
                    return 1 if nz else 0
                x_is_zero = x.known_zero()
                table = {"Gt": (not x_is_zero) and nz, "Lt": x_is_zero and nz, "Ge": (not x_is_zero) or not nz, "Le": x_is_zero or not nz}
                return 1 if table[base] else 0
            # interval reasoning: a symbolic byte ranges over 0..255 (1..255 when known non-zero)
            def bounds(w):
                lo = hi = 0
                for e in w.s:
                    if isinstance(e, int):
                        lo, hi = (lo << 8) | e, (hi << 8) | e
                    else:
                        lo, hi = (lo << 8) | (1 if e[2] else 0), (hi << 8) | 255
                return lo, hi
            shared = [i for i in range(NB) if isinstance(x.s[i], tuple) and isinstance(y.s[i], tuple)]
            if shared:
                raise Undecidable("comparison of two symbolic words")
            (xl, xh), (yl, yh) = bounds(x), bounds(y)
            if base in ("Lt", "Ge"):
                if xh < yl:
                    r = True
                elif xl >= yh:
                    r = False
                else:
                    raise Undecidable("comparison not determined by the byte class (%r vs %r)" % (x, y))
                return 1 if r == (base == "Lt") else 0
            if base in ("Le", "Gt"):
                if xh <= yl:
                    r = True
                elif xl > yh:
                    r = False
                else:
                    raise Undecidable("comparison not determined by the byte class (%r vs %r)" % (x, y))
                return 1 if r == (base == "Le") else 0
            if base in ("Eq", "Ne"):
                if xh < yl or yh < xl:
                    return 1 if base == "Ne" else 0
                raise Undecidable("equality not determined by the byte class (%r vs %r)" % (x, y))
        raise Undecidable("%s on a symbolic word" % op)

    def rvalue(self, rv):
        if rv["k"] == "cast":
            v = self.operand(rv["op"])
            if isinstance(v, BWord):
                if rv["ck"] == "IntToInt":
                    return narrow(v, rv["ty"])
                raise Undecidable("cast %s of a symbolic word" % rv["ck"])
        if rv["k"] == "discr":
            v = self.target(self.read_place(rv["pl"]))
            if isinstance(v, dict) and v.get("__adt") == "core::ops::control_flow::ControlFlow":
                return 0 if v["__var"] == "Continue" else 1
        return VecInterp.rvalue(self, rv)

    def do_call(self, t):
        if t.get("indirect"):
            raise Undecidable("indirect call")
        c = t["callee"]
        decl = t.get("decl", "")
        raw = [self.operand(a) for a in t["args"]]
        a = [self.target(x) for x in raw]
        if decl.endswith("io::Write::write_all") or c.endswith("io::Write>::write_all") or c.endswith("io::Write::write_all"):
            sink, data = a[0], a[1]
            if isinstance(sink, dict) and "__sink" in sink:
                sink = sink["__sink"]
            if not isinstance(sink, list) or not isinstance(data, list):
                raise Undecidable("write_all on something that is not a modelled sink")
            sink.extend(list(data))
            return {"__adt": "core::result::Result", "__var": "Ok", 0: {}, "0": {}}
        if decl.endswith("io::Read::read_exact") or c.endswith("io::Read>::read_exact") or c.endswith("io::Read::read_exact"):
            rd, buf = a[0], a[1]
            if not (isinstance(rd, dict) and "__reader" in rd and isinstance(buf, list)):
                raise Undecidable("read_exact on something that is not a modelled reader")
            src, p = rd["__reader"], rd["pos"]
            if p + len(buf) > len(src):
                return {"__adt": "core::result::Result", "__var": "Err", 0: "unexpected end of input", "0": "unexpected end of input"}
            for i in range(len(buf)):
                buf[i] = src[p + i]
            rd["pos"] = p + len(buf)
            return {"__adt": "core::result::Result", "__var": "Ok", 0: {}, "0": {}}
        if decl.endswith("ops::try_trait::Try::branch"):
            r = a[0]
            if isinstance(r, dict) and r.get("__adt") == "core::result::Result":
                if r["__var"] == "Ok":
                    return {"__adt": "core::ops::control_flow::ControlFlow", "__var": "Continue", 0: r.get(0, r.get("0")), "0": r.get(0, r.get("0"))}
                return {"__adt": "core::ops::control_flow::ControlFlow", "__var": "Break", 0: r, "0": r}
            raise Undecidable("? on %r" % (r,))
        if decl.endswith("ops::try_trait::FromResidual::from_residual"):
            return a[0]
        m_ = re.search(r"core::num::<impl (u64|u32|u16|usize)>::(from_be_bytes|from_le_bytes|to_be_bytes|to_le_bytes)$", c)
        if m_:
            nb = {"u64": 8, "usize": 8, "u32": 4, "u16": 2}[m_.group(1)]
            op = m_.group(2)
            if op.startswith("from"):
                arr = list(a[0])
                if len(arr) != nb:
                    raise Undecidable("%s of %d bytes" % (op, len(arr)))
                ents = [slot_of(x) if isinstance(x, BWord) else x for x in arr]
                if op == "from_le_bytes":
                    ents = ents[::-1]
                return norm(BWord([0] * (NB - nb) + ents))
            w = lift(a[0])
            ents = list(w.s[NB - nb:])
            if op == "to_le_bytes":
                ents = ents[::-1]
            return [x if isinstance(x, int) else BWord([0] * (NB - 1) + [x]) for x in ents]
        if re.search(r"std::io::(error::)?Error::new$", c):
            return "io error"
        if re.search(r"alloc::fmt::format$|fmt::format::format_inner$", c):
            return "formatted text"
        f = self.F.funcs.get(c)
        if f is not None and f.crate in ("ragc_core", "ragc_common"):
            if self.depth > 8:
                raise Undecidable("call depth")
            sub = ByteInterp(self.F, self.max_steps, self.depth + 1, {})
            args = []
            for x in raw:
                tx = self.target(x)
                args.append(("refval", tx) if isinstance(x, tuple) and x and x[0] in ("ref", "refval") else x)
            return sub.call(f, args)
        return VecInterp.do_call(self, t)


def slot_of(x):
    """what a sink received for one byte"""
    if isinstance(x, BWord):
        return x.low()
    return x
