"""Finite-domain evaluation of byte-vector codecs (C12-TP4): absint.Interp extended with Vec<u8> / slice values
(python lists, aliased by reference so that `&mut` arguments work), const-generic parameters and the handful of
std helpers the tuple packer uses.  The IR is interpreted over an exhaustive *finite* domain chosen by the rule;
nothing of ragc is executed.  Anything not modelled raises Undecidable (fail closed, construct named).
"""
import re

from absint import Interp, Undecidable, Panic, wrap

NONE = {"__adt": "core::option::Option", "__var": "None"}


class View(list):
    """a window [lo, hi) into another vector: reads and writes go to the parent (sub-slices, chunks)"""

    def __init__(self, parent, lo, hi):
        list.__init__(self)
        self.parent, self.lo, self.hi = parent, lo, hi

    def __len__(self):
        return self.hi - self.lo

    def __getitem__(self, i):
        if isinstance(i, slice):
            return [self.parent[self.lo + k] for k in range(*i.indices(len(self)))]
        if not 0 <= i < len(self):
            raise IndexError(i)
        return self.parent[self.lo + i]

    def __setitem__(self, i, v):
        if not 0 <= i < len(self):
            raise IndexError(i)
        self.parent[self.lo + i] = v

    def __iter__(self):
        return (self.parent[self.lo + k] for k in range(len(self)))

    def __eq__(self, o):
        return list(iter(self)) == list(o)

    def __bool__(self):
        return len(self) > 0

    def append(self, v):
        raise Undecidable("push into a sub-slice")


def iter_next(it):
    """advance a modelled iterator value: returns (True, item) or (False, None)"""
    if "__iter" in it:
        v, p = it["__iter"], it["pos"]
        if p < len(v):
            it["pos"] = p + 1
            return True, (("refcell", v, p) if it.get("mut") else ("refval", v[p]))
        return False, None
    if "__chunks" in it:
        v, n, p = it["__chunks"], it["n"], it["pos"]
        if n <= 0:
            raise Panic("chunk size 0")
        if p < len(v):
            hi = min(p + n, len(v))
            it["pos"] = hi
            return True, ("refval", View(v, p, hi))
        return False, None
    if "__zip" in it:
        a, b = it["__zip"]
        oka, va = iter_next(a)
        if not oka:
            return False, None
        okb, vb = iter_next(b)
        if not okb:
            return False, None
        return True, {0: va, 1: vb}
    if "__enum" in it:
        ok, v = iter_next(it["__enum"])
        if not ok:
            return False, None
        i = it["i"]
        it["i"] = i + 1
        return True, {0: i, 1: v}
    if "__rev" in it:
        rng = it["__rev"]
        if rng["start"] < rng["end"]:
            rng["end"] -= 1
            return True, rng["end"]
        return False, None
    if it.get("__adt", "").endswith("ops::range::Range"):
        if it["start"] < it["end"]:
            it["start"] += 1
            return True, it["start"] - 1
        return False, None
    raise Undecidable("next() on an iterator that is not modelled: %r" % sorted(it))


def some(v):
    return {"__adt": "core::option::Option", "__var": "Some", 0: v}


class VecInterp(Interp):
    def __init__(self, F, max_steps=200000, depth=0, cparams=None):
        Interp.__init__(self, F, max_steps, depth)
        self.cparams = cparams or {}

    # ------------------------------------------------------------ values
    def operand(self, o):
        if o["k"] == "const" and "tyconst" in o:
            m = re.fullmatch(r"(-?\d+)(_\w+)?", str(o["tyconst"]))
            if m:
                return int(m.group(1))
            if o["tyconst"] not in self.cparams:
                raise Undecidable("const generic %s is not bound" % o["tyconst"])
            return self.cparams[o["tyconst"]]
        return Interp.operand(self, o)

    def target(self, v):
        """the object a reference value designates (lists and dicts are shared, scalars are copied)"""
        hops = 0
        while isinstance(v, tuple) and v and v[0] in ("ref", "refval", "refcell") and hops < 8:
            hops += 1
            if v[0] == "refcell":
                v = v[1][v[2]]
            elif v[0] == "refval":
                v = v[1]
            else:
                x = self.env.get(v[1])
                for p2 in v[2]:
                    x = self.project(x, p2)
                v = x
        return v

    def rvalue(self, rv):
        if rv["k"] == "agg" and rv.get("ak") == "closure":
            # captured references leave this frame with the closure: bind them to the objects they designate
            caps = []
            for o in rv["ops"]:
                x = self.operand(o)
                if isinstance(x, tuple) and x and x[0] == "ref":
                    x = ("refval", self.target(x))
                caps.append(x)
            return {"__closure": rv["closure"], "caps": caps}
        if rv["k"] == "unop" and rv["op"] == "PtrMetadata":
            v = self.target(self.operand(rv["a"]))
            if isinstance(v, list):
                return len(v)
            raise Undecidable("PtrMetadata of a non-slice")
        if rv["k"] in ("ref", "rawptr"):
            pl = rv["pl"]
            # a reference to (part of) a list designates the list object itself
            if pl["p"] and pl["p"][-1] == "deref":
                base = self.read_place({"l": pl["l"], "p": pl["p"][:-1]})
                t = self.target(base)
                if isinstance(t, (list, dict)):
                    return ("refval", t)
            if not pl["p"]:
                t = self.env.get(pl["l"])
                if isinstance(t, list):
                    return ("refval", t)
        if rv["k"] == "len":
            v = self.target(self.read_place(rv["pl"]))
            if isinstance(v, list):
                return len(v)
        return Interp.rvalue(self, rv)

    def project(self, v, pr):
        if pr == "deref":
            # one level only (a `&mut &[u8]` holds a reference to a reference)
            if isinstance(v, tuple) and v and v[0] == "ref":
                x = self.env.get(v[1])
                for p2 in v[2]:
                    x = self.project(x, p2)
                return x
            if isinstance(v, tuple) and v and v[0] == "refval":
                return v[1]
            if isinstance(v, tuple) and v and v[0] == "refcell":
                return v[1][v[2]]
            if isinstance(v, (list, dict)):
                return v           # a vector / struct value used where a reference to it is expected
        if isinstance(v, dict) and "__closure" in v and isinstance(pr, dict) and "f" in pr:
            return v["caps"][pr["f"]]
        if isinstance(pr, dict) and "idx" in pr:
            v = self.target(v)
            i = self.env[pr["idx"]]
            if isinstance(v, list):
                if not 0 <= i < len(v):
                    raise Panic("index out of bounds")
                return v[i]
        return Interp.project(self, v, pr)

    def assign(self, pl, v):
        path = pl["p"]
        if path and isinstance(path[-1], dict) and "idx" in path[-1]:
            tgt = self.target(self.read_place({"l": pl["l"], "p": path[:-1]}))
            i = self.env[path[-1]["idx"]]
            if not isinstance(tgt, list):
                raise Undecidable("indexed write into a non-vector")
            if not 0 <= i < len(tgt):
                raise Panic("index out of bounds")
            tgt[i] = v
            return
        if path == ["deref"]:
            base0 = self.env.get(pl["l"])
            if isinstance(base0, tuple) and base0 and base0[0] == "refcell":
                base0[1][base0[2]] = v
                return
        if path == ["deref"]:
            base = self.env.get(pl["l"])
            if isinstance(base, tuple) and base[0] == "refval" and isinstance(base[1], list) and isinstance(v, list):
                base[1][:] = v
                return
        if len(path) >= 2 and path[0] == "deref":
            base = self.env.get(pl["l"])
            if isinstance(base, tuple) and base and base[0] == "refval" and isinstance(base[1], dict):
                # field write through a reference to a struct that lives in another frame
                cur = base[1]
                for pr in path[1:-1]:
                    if isinstance(pr, dict) and "f" in pr and isinstance(cur, dict):
                        cur = cur.setdefault(pr.get("n", pr["f"]), {})
                    else:
                        raise Undecidable("write through projection %r" % (pr,))
                last = path[-1]
                if isinstance(last, dict) and "f" in last and isinstance(cur, dict):
                    cur[last.get("n", last["f"])] = v
                    return
                raise Undecidable("write through projection %r" % (last,))
        return Interp.assign(self, pl, v)

    # ------------------------------------------------------------ calls
    def do_call(self, t):
        if t.get("indirect"):
            raise Undecidable("indirect call")
        c = t["callee"]
        if t["sp"].get("exp") and t["sp"].get("mac") in ("eprintln", "println", "eprint", "print", "format", "debug", "trace", "log"):
            return ("opaque", c)
        if c.startswith("core::panicking::") or c.endswith("::begin_panic") or "panic_fmt" in c or "panic_display" in c:
            raise Panic("explicit panic at %s:%s" % (t["sp"]["file"], t["sp"]["line"]))
        if re.search(r"core::fmt::rt::Argument::<'_>::new_\w+$|core::fmt::Arguments::<'\w+>::(new\w*|from_str)$", c):
            return ("opaque", c)
        if c.startswith("anyhow::"):
            return "error value"
        raw = [self.operand(a) for a in t["args"]]
        a = [self.target(x) for x in raw]
        disp = t.get("callee_disp", "")
        if re.search(r"Vec::<T(, A)?>::(new|with_capacity)$|Vec::<u8>::(new|with_capacity)$", c):
            return []
        if re.search(r"Vec::<\w+(, A)?>::push$", c):
            if not isinstance(a[0], list):
                raise Undecidable("push on a non-vector")
            a[0].append(a[1])
            return {}
        if re.search(r"Vec::<\w+(, A)?>::clear$", c) and isinstance(a[0], list) and not isinstance(a[0], View):
            del a[0][:]
            return {}
        if re.search(r"Vec::<\w+(, A)?>::truncate$", c) and isinstance(a[0], list) and not isinstance(a[0], View) and isinstance(a[1], int):
            del a[0][a[1]:]
            return {}
        if re.search(r"Vec::<\w+(, A)?>::resize$", c) and isinstance(a[0], list) and not isinstance(a[0], View) and isinstance(a[1], int):
            # std: shrinks by truncation, grows by appending copies of the value - the kept prefix is NOT rewritten
            if a[1] <= len(a[0]):
                del a[0][a[1]:]
            else:
                a[0].extend([a[2]] * (a[1] - len(a[0])))
            return {}
        if re.search(r"Vec::<\w+(, A)?>::extend_from_slice$", c) and isinstance(a[0], list) and not isinstance(a[0], View) and isinstance(a[1], list):
            a[0].extend(list(a[1][:]))
            return {}
        if re.search(r"Vec::<\w+(, A)?>::reserve(_exact)?$|Vec::<\w+(, A)?>::shrink_to_fit$", c) and isinstance(a[0], list):
            return {}
        if re.search(r"(slice::<impl \[\w+\]>|Vec::<\w+(, A)?>)::len$", c):
            return len(a[0])
        if re.search(r"(slice::<impl \[\w+\]>|Vec::<\w+(, A)?>)::is_empty$", c):
            return 1 if not a[0] else 0
        if re.search(r"Deref(Mut)?>::deref(_mut)?$", c) and isinstance(a[0], list):
            return ("refval", a[0])
        if re.search(r"slice::<impl \[\w+\]>::to_vec$|Clone>::clone$|Clone::clone$", c) and isinstance(a[0], list):
            return list(a[0])
        if re.search(r"vec::from_elem$", c):
            if isinstance(a[0], (list, dict)):
                import copy
                return [copy.deepcopy(a[0]) for _ in range(a[1])]
            return [a[0]] * a[1]
        if re.search(r"(slice::<impl \[\w+\]>|Vec::<\w+(, A)?>)::(as_slice|as_mut_slice)$", c):
            return ("refval", a[0])
        if c.endswith("for [T]>::index") or c.endswith("for [T]>::index_mut") or re.search(r"Index(Mut)?<I> for (alloc::vec::)?Vec<T, A>>::index(_mut)?$", c) or \
                re.search(r"^<(alloc::vec::Vec<T, A>|\[T\]) as core::ops::index::Index(Mut)?<I>>::index(_mut)?$", c):
            v, r = a[0], a[1]
            if isinstance(v, list) and isinstance(r, int):
                if not 0 <= r < len(v):
                    raise Panic("index out of bounds")
                return ("refcell", v, r)
            if isinstance(v, list) and isinstance(r, dict):
                lo = r.get("start", 0)
                hi = r.get("end", len(v))
                if not (0 <= lo <= hi <= len(v)):
                    raise Panic("slice range out of bounds")
                if lo == 0 and hi == len(v):
                    return ("refval", v)
                return ("refval", View(v, lo, hi))
            raise Undecidable("index with %r" % (r,))
        if re.search(r"slice::<impl \[\w+\]>::(get|get_mut)$", c) and isinstance(a[0], list):
            v, r = a[0], a[1]
            if isinstance(r, int):
                return some(("refcell", v, r)) if 0 <= r < len(v) else dict(NONE)
            if isinstance(r, dict):
                lo = r.get("start", 0)
                hi = r.get("end", len(v))
                if not (isinstance(lo, int) and isinstance(hi, int)):
                    raise Undecidable("symbolic range")
                return some(("refval", View(v, lo, hi))) if 0 <= lo <= hi <= len(v) else dict(NONE)
        if re.search(r"Option::<T>::(ok_or_else|ok_or)$", c) and isinstance(a[0], dict) and a[0].get("__adt") == "core::option::Option":
            if a[0].get("__var") == "Some":
                return {"__adt": "core::result::Result", "__var": "Ok", 0: a[0].get(0), "0": a[0].get(0)}
            return {"__adt": "core::result::Result", "__var": "Err", 0: "error value", "0": "error value"}
        if re.search(r"slice::<impl \[\w+\]>::iter$", c):
            return {"__iter": a[0], "pos": 0}
        if re.search(r"slice::<impl \[\w+\]>::iter_mut$", c):
            return {"__iter": a[0], "pos": 0, "mut": True}
        if re.search(r"slice::<impl \[\w+\]>::(chunks|chunks_mut)$", c):
            return {"__chunks": a[0], "n": a[1], "pos": 0}
        if re.search(r"Iterator::zip$", c):
            its = []
            for x in a[:2]:
                if isinstance(x, list):
                    x = {"__iter": x, "pos": 0}
                if not isinstance(x, dict):
                    raise Undecidable("zip of something that is not an iterator")
                its.append(x)
            return {"__zip": tuple(its)}
        if re.search(r"Iterator::enumerate$", c) and isinstance(a[0], dict):
            return {"__enum": a[0], "i": 0}
        if re.search(r"Iterator>::next$", c) and isinstance(a[0], dict) and not a[0].get("__adt", "").endswith("Option"):
            ok, v = iter_next(a[0])
            return some(v) if ok else dict(NONE)
        if re.search(r"Iterator::(max|min)$", c) and isinstance(a[0], dict) and "__iter" in a[0]:
            rest = a[0]["__iter"][a[0]["pos"]:]
            if not rest:
                return dict(NONE)
            return some(("refval", (max if c.endswith("max") else min)(rest)))
        if re.search(r"Iterator::copied$|Iterator::cloned$", c):
            return a[0]
        if re.search(r"Option::<T>::(unwrap|expect)$", c):
            if a[0].get("__var") != "Some":
                raise Panic("unwrap on None")
            return a[0][0]
        if c.endswith("core::iter::traits::collect::IntoIterator>::into_iter") and isinstance(a[0], dict):
            return a[0]
        if c.endswith("core::iter::traits::collect::IntoIterator>::into_iter") and isinstance(a[0], list):
            return {"__iter": a[0], "pos": 0}
        if re.search(r"IntoIterator for &'\w+ (mut )?(\[T\]|alloc::vec::Vec<T, A>|\[T; N\])>::into_iter$", c) and isinstance(a[0], list):
            return {"__iter": a[0], "pos": 0, "mut": " mut " in c}
        if re.search(r"Iterator::rev$", c) and isinstance(a[0], dict) and "__iter" in a[0] and not a[0].get("mut"):
            return {"__iter": list(a[0]["__iter"][a[0]["pos"]:])[::-1], "pos": 0}
        if re.search(r"Iterator::rev$", c) and isinstance(a[0], dict) and a[0].get("__adt", "").endswith("ops::range::Range"):
            return {"__rev": a[0]}
        if re.search(r"Iterator for core::ops::range::Range<\w+>>::next$", c):
            rng = a[0]
            st, en = rng["start"], rng["end"]
            if st < en:
                rng["start"] = st + 1
                return some(st)
            return dict(NONE)
        if re.search(r"rev::Rev<\w+> as core::iter::traits::iterator::Iterator>::next$|Iterator for core::iter::adapters::rev::Rev<\w+>>::next$", c):
            rng = a[0]["__rev"]
            st, en = rng["start"], rng["end"]
            if st < en:
                rng["end"] = en - 1
                return some(en - 1)
            return dict(NONE)
        f = self.F.funcs.get(c)
        if f is not None and f.crate in ("ragc_core", "ragc_common"):
            if self.depth > 8:
                raise Undecidable("call depth")
            cp = {}
            gens = f.d.get("generics") or []
            gargs = [g for g in t.get("gargs", []) if re.fullmatch(r"-?\d+(_\w+)?", g) or True]
            if gens:
                if len(gargs) != len(gens):
                    raise Undecidable("generic arguments of %s" % c)
                for name, g in zip(gens, gargs):
                    m = re.fullmatch(r"(-?\d+)(_\w+)?", g)
                    if m:
                        cp[name] = int(m.group(1))
                    elif g in self.cparams:
                        cp[name] = self.cparams[g]
            sub = type(self)(self.F, self.max_steps, self.depth + 1, cp)
            sub.world = getattr(self, "world", None)
            args = []
            for x in raw:
                tx = self.target(x)
                args.append(("refval", tx) if isinstance(x, tuple) and x and x[0] in ("ref", "refval") else x)
            return sub.call(f, args)
        return Interp.do_call(self, t)
