"""Path enumeration for small bodies and event extraction.

enumerate_paths: all paths entry -> return where every back edge is taken at most
`max_back` times (complete for loop-free code; for loops it covers zero and one
iteration of each, which is what the monitor rules need: "wait zero times" and
"wait, re-test, leave").
"""
from cfg import cfg_of
from expr import Exprs


class TooManyPaths(Exception):
    pass


def enumerate_paths(func, max_back=1, limit=50000, start=0, ends=None):
    g = cfg_of(func)
    back = set(g.back_edges())
    ends = set(g.exits) if ends is None else set(ends)
    out = []
    stack = [(start, (start,), ())]
    while stack:
        b, path, used = stack.pop()
        if b in ends:
            out.append(path)
            if len(out) > limit:
                raise TooManyPaths(func.key)
            continue
        for s in g.succ[b]:
            e = (b, s)
            if e in back:
                if used.count(e) >= max_back:
                    continue
                stack.append((s, path + (s,), used + (e,)))
            else:
                stack.append((s, path + (s,), used))
    return out


class Event:
    __slots__ = ("kind", "data", "block", "site")

    def __init__(self, kind, data, block, site):
        self.kind = kind
        self.data = data
        self.block = block
        self.site = site

    def __repr__(self):
        return "%s%r@bb%d" % (self.kind, self.data, self.block)


def path_events(func, path, ex, classify_call, classify_assign=None, want_conds=True):
    """walk a path, return list of Events.
    classify_call(term, ex) -> (kind, data) or None
    classify_assign(stmt, ex) -> (kind, data) or None
    cond events: ("cond", (expr, value)) for each switch on the path"""
    evs = []
    for i, b in enumerate(path):
        blk = func.blocks[b]
        if classify_assign:
            for s in blk["stmts"]:
                if s["k"] == "assign":
                    r = classify_assign(s, ex)
                    if r:
                        evs.append(Event(r[0], r[1], b, "%s:%s" % (s["sp"]["file"], s["sp"]["line"])))
        t = blk["term"]
        site = "%s:%s" % (t["sp"]["file"], t["sp"]["line"])
        if t["k"] == "call":
            r = classify_call(t, ex)
            if r:
                evs.append(Event(r[0], r[1], b, site))
        elif t["k"] == "switch" and want_conds and i + 1 < len(path):
            nxt = path[i + 1]
            vals = [v for v, tb in t["targets"] if tb == nxt]
            e = ex.operand(t["discr"])
            if nxt == t["otherwise"] and not vals:
                known = [v for v, _ in t["targets"]]
                evs.append(Event("cond", (e, ("not", tuple(known))), b, site))
            else:
                evs.append(Event("cond", (e, ("is", tuple(vals))), b, site))
        elif t["k"] == "return":
            evs.append(Event("return", None, b, site))
    return evs


def cond_truth(ev):
    """for a cond event on a bool: True/False/None"""
    e, (how, vals) = ev.data
    if how == "is" and vals == (0,):
        return False
    if how == "not" and vals == (0,):
        return True
    if how == "is" and vals == (1,):
        return True
    return None


def _stateful(e):
    if not isinstance(e, tuple):
        return False
    if e and e[0] == "call" and len(e) == 4:
        return True
    return any(_stateful(x) for x in e if isinstance(x, tuple))


def feasible(evs, barrier_kinds=("wait",), invalidators=None):
    """prune paths that take contradictory branches on the same expression with no
    intervening event that could change it.  `invalidators`: dict event kind -> predicate(expr)
    saying whether that event may change the value of a condition expression; barrier kinds
    forget everything (the lock is released there)."""
    known = {}
    for e in evs:
        if e.kind in barrier_kinds:
            known = {}
        elif e.kind == "cond":
            t = cond_truth(e)
            if t is None:
                continue
            if _stateful(e.data[0]):
                continue      # the value of a call on `&mut` state (iterator.next(), a reader) is new each time it is evaluated
            k = repr(e.data[0])
            if k in known and known[k][0] != t:
                return False
            known[k] = (t, e.data[0])
        elif invalidators and e.kind in invalidators:
            pred = invalidators[e.kind]
            known = {k: v for k, v in known.items() if not pred(v[1])}
    return True
