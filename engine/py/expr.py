"""Expression reconstruction over one MIR body (DESIGN 3.4).

An operand at a program point is rewritten into a tree over parameters, fields,
constants, calls and opaque multiply-assigned variables by back-substituting
locals that have exactly one whole-local definition.  References, derefs, moves,
copies and smart-pointer `deref()` calls are erased, integer casts are dropped,
`xWithOverflow(a,b).0` becomes `x(a,b)`.

Trees are nested tuples so they can be compared and hashed:
  ("const", v) ("str", s) ("bytes", (..)) ("fn", path) ("item", key) ("unit",)
  ("param", name) ("var", name_or_index) ("field", base, name) ("index", base, idx)
  ("variant", base, name) ("bin", op, a, b) ("un", op, a) ("call", callee, (args..))
  ("agg", what, ((field, expr)..)) ("discr", e) ("cast", e, ty)
"""
import re

DEREF_LIKE = re.compile(
    r"(core::ops::deref::Deref(Mut)?>::deref(_mut)?$)|(core::convert::AsRef<.*>>::as_ref$)|"
    r"(core::borrow::Borrow(Mut)?<.*>>::borrow(_mut)?$)|(alloc::vec::Vec::<T, A>::as_slice$)|"
    r"(alloc::vec::Vec::<T, A>::as_mut_slice$)|(alloc::string::String::as_str$)|(alloc::string::String::as_bytes$)|"
    r"(core::str::<impl str>::as_bytes$)|(core::convert::Into<.*>>::into$)|(core::convert::From<.*>>::from$)|"
    r"(core::iter::traits::collect::IntoIterator>::into_iter$)"
)
FACTS = None   # set by the check entry point: lets constants that refer to promoted bodies be expanded

COMMUTATIVE = {"Add", "Mul", "BitAnd", "BitOr", "BitXor", "Eq", "Ne"}
INT_TY = re.compile(r"^(u|i)(8|16|32|64|128|size)$")


def is_int_ty(t):
    return bool(INT_TY.match(t)) or t in ("bool", "char")


class Exprs:
    def __init__(self, func, keep_casts=False, max_depth=40, deref_calls=True):
        self.f = func
        self.keep_casts = keep_casts
        self.max_depth = max_depth
        self.deref_calls = deref_calls
        self.names = func.local_names()
        self.argc = func.d["arg_count"]
        self.defs = {}
        self.block_of_term = {}
        for bi, b in enumerate(func.blocks):
            self.block_of_term[id(b["term"])] = bi
            if b["cleanup"]:
                continue
            for si, s in enumerate(b["stmts"]):
                if s["k"] == "assign":
                    pl = s["pl"]
                    if not pl["p"]:
                        self.defs.setdefault(pl["l"], []).append(("rv", bi, si, s["rv"]))
                    elif pl["p"][0] != "deref":
                        # partial write: makes the base local opaque (a write through a
                        # pointer does not change the pointer local itself)
                        self.defs.setdefault(pl["l"], []).append(("partial", bi, si, None))
            t = b["term"]
            if t["k"] == "call":
                pl = t["dest"]
                if not pl["p"]:
                    self.defs.setdefault(pl["l"], []).append(("call", bi, None, t))
                elif pl["p"][0] != "deref":
                    self.defs.setdefault(pl["l"], []).append(("partial", bi, None, None))
        # a local whose address is taken mutably can change behind the back of its single
        # definition (buffers filled by read_exact, iterators advanced by next): keep it opaque
        self.escaped = set()
        for b in func.blocks:
            if b["cleanup"]:
                continue
            for s in b["stmts"]:
                if s["k"] == "assign" and s["rv"]["k"] in ("ref", "rawptr") and s["rv"]["mut"]:
                    pl = s["rv"]["pl"]
                    if "deref" not in pl["p"]:
                        self.escaped.add(pl["l"])
        self.upvars = func.upvar_names() if func.kind == "closure" else {}

    # ------------------------------------------------------------
    def local(self, l, depth=0, stack=()):
        if l != 0 and l <= self.argc:
            nm = self.names.get(l)
            if self.f.kind == "closure" and l == 1:
                return ("param", "<env>")
            return ("param", nm if nm else "arg%d" % l)
        ds = self.defs.get(l, [])
        real = [d for d in ds if d[0] != "partial"]
        if len(real) == 1 and len(ds) == 1 and depth < self.max_depth and l not in stack and l not in self.escaped:
            kind, bi, si, x = real[0]
            if kind == "rv":
                return self.rvalue(x, depth + 1, stack + (l,))
            return self.call(x, depth + 1, stack + (l,))
        # drop flags and loop variables: opaque
        nm = self.names.get(l)
        if nm is None and l in self.escaped and len(real) == 1 and len(ds) == 1 and depth < self.max_depth and l not in stack:
            # an unnamed temporary that is only borrowed mutably (a lock guard, a builder): keep its
            # provenance, but mark the value as mutable so that nothing folds it to a constant
            kind, bi, si, x = real[0]
            inner = self.rvalue(x, depth + 1, stack + (l,)) if kind == "rv" else self.call(x, depth + 1, stack + (l,))
            return ("mut", inner)
        return ("var", nm if nm else "_%d" % l)

    def place(self, pl, depth=0, stack=()):
        e = self.local(pl["l"], depth, stack)
        pt = pl["p"]
        for i, pr in enumerate(pt):
            if pr == "deref":
                continue
            if isinstance(pr, dict):
                if "f" in pr:
                    if pr.get("closure") or (e == ("param", "<env>")):
                        nm = pr.get("n") or self.upvars.get(pr["f"]) or "up%d" % pr["f"]
                        e = ("upvar", nm)
                        continue
                    # (a,b).0 of checked arithmetic
                    if e[0] == "bin" and e[1].endswith("WithOverflow"):
                        if pr["f"] == 0:
                            e = ("bin", e[1][:-len("WithOverflow")], e[2], e[3])
                        else:
                            e = ("ovf", e)
                        continue
                    if e[0] == "agg":
                        # projection out of a known aggregate
                        hit = None
                        for fname, fe in e[2]:
                            if fname == pr.get("n", str(pr["f"])) or fname == str(pr["f"]):
                                hit = fe
                        if hit is not None:
                            e = hit
                            continue
                    e = ("field", e, pr.get("n", str(pr["f"])))
                elif "idx" in pr:
                    e = ("index", e, self.local(pr["idx"], depth + 1, stack))
                elif "cidx" in pr:
                    e = ("index", e, ("const", -pr["cidx"] if pr.get("from_end") else pr["cidx"]))
                elif "dc" in pr:
                    e = ("variant", e, pr.get("name") or str(pr["dc"]))
                elif "sub_from" in pr:
                    e = ("subslice", e, pr["sub_from"], pr["sub_to"], pr.get("from_end"))
        return e

    def operand(self, o, depth=0, stack=()):
        k = o["k"]
        if k in ("copy", "move"):
            return self.place(o["pl"], depth, stack)
        if k == "const":
            if "fn" in o:
                return ("fn", o["fn"])
            if "promoted" in o and "item" in o and FACTS is not None and depth < 30:
                pf = FACTS.funcs.get("%s::{promoted#%d}" % (o["item"], o["promoted"]))
                if pf is not None:
                    return Exprs(pf, keep_casts=self.keep_casts).local(0, depth + 1)
            if "int" in o:
                return ("const", o["int"])
            if "tyconst" in o:
                return ("cparam", o["tyconst"])      # const generic parameter (N, MAX)
            if "str" in o:
                return ("str", o["str"])
            if "bytes" in o:
                return ("bytes", tuple(o["bytes"]))
            if "item" in o:
                return ("item", o["item"])
            if o.get("zst") or o["ty"] == "()":
                return ("unit",)
            return ("constty", o["ty"])
        return ("unknown",)

    def rvalue(self, rv, depth=0, stack=()):
        k = rv["k"]
        if k == "use":
            return self.operand(rv["op"], depth, stack)
        if k in ("ref", "rawptr"):
            return self.place(rv["pl"], depth, stack)
        if k == "binop":
            a = self.operand(rv["a"], depth, stack)
            b = self.operand(rv["b"], depth, stack)
            return mkbin(rv["op"], a, b)
        if k == "unop":
            a = self.operand(rv["a"], depth, stack)
            if rv["op"] == "PtrMetadata":
                return ("len", a)
            return ("un", rv["op"], a)
        if k == "cast":
            e = self.operand(rv["op"], depth, stack)
            if not self.keep_casts and (is_int_ty(rv["ty"]) and is_int_ty(rv.get("from", "")) or rv["ck"].startswith("PointerCoercion") or rv["ck"] in ("PtrToPtr", "Transmute")):
                return e
            if not self.keep_casts and rv["ck"] in ("IntToInt",):
                return e
            return ("cast", e, rv["ty"], rv.get("from", "?"))
        if k == "discr":
            return ("discr", self.place(rv["pl"], depth, stack))
        if k == "agg":
            ops = [self.operand(o, depth, stack) for o in rv["ops"]]
            if rv["ak"] == "adt":
                fl = rv.get("fields", [])
                what = rv["adt"] + "::" + rv["var"]
                return ("agg", what, tuple((fl[i] if i < len(fl) else str(i), ops[i]) for i in range(len(ops))))
            if rv["ak"] == "closure":
                return ("closure", rv["closure"])
            return ("agg", rv["ak"], tuple((str(i), ops[i]) for i in range(len(ops))))
        if k == "repeat":
            return ("repeat", self.operand(rv["op"], depth, stack), rv["n"])
        if k == "tls":
            return ("tls", rv["item"])
        return ("unknown",)

    def call(self, t, depth=0, stack=()):
        if t.get("indirect"):
            return ("icall", self.operand(t["fop"], depth, stack), tuple(self.operand(a, depth, stack) for a in t["args"]))
        callee = t["callee"]
        args = tuple(self.operand(a, depth, stack) for a in t["args"])
        if self.deref_calls and DEREF_LIKE.search(callee) and len(args) == 1:
            return args[0]
        # a call that receives `&mut` state (a reader, a cursor, an iterator) yields a different value
        # each time: tag it with its site so that two such calls are different atoms
        if any(a["k"] in ("copy", "move") and a["pl"]["ty"].startswith("&mut ") for a in t["args"]):
            return ("call", callee, args, "@bb%s" % self.block_of_term.get(id(t), "?"))
        return ("call", callee, args)


def mkbin(op, a, b):
    if op in ("Gt", "Ge"):
        op = {"Gt": "Lt", "Ge": "Le"}[op]
        a, b = b, a
    base = op[:-len("WithOverflow")] if op.endswith("WithOverflow") else op
    if base in COMMUTATIVE and repr(a) > repr(b):
        a, b = b, a
    return ("bin", op, a, b)


def fmt(e):
    """compact human-readable rendering of an expression tree"""
    if not isinstance(e, tuple):
        return str(e)
    k = e[0]
    if k == "const":
        return str(e[1])
    if k == "str":
        return repr(e[1])
    if k == "bytes":
        return "b%s" % (list(e[1][:12]),)
    if k in ("param", "var", "upvar", "cparam"):
        return str(e[1])
    if k == "field":
        return "%s.%s" % (fmt(e[1]), e[2])
    if k == "index":
        return "%s[%s]" % (fmt(e[1]), fmt(e[2]))
    if k == "variant":
        return "(%s as %s)" % (fmt(e[1]), e[2])
    if k == "bin":
        return "%s(%s, %s)" % (e[1], fmt(e[2]), fmt(e[3]))
    if k == "un":
        return "%s(%s)" % (e[1], fmt(e[2]))
    if k == "len":
        return "len(%s)" % fmt(e[1])
    if k == "call":
        return "%s(%s)" % (short(e[1]), ", ".join(fmt(a) for a in e[2]))
    if k == "agg":
        return "%s{%s}" % (short(e[1]), ", ".join("%s: %s" % (n, fmt(x)) for n, x in e[2]))
    if k == "discr":
        return "discr(%s)" % fmt(e[1])
    if k == "cast":
        return "(%s as %s)" % (fmt(e[1]), short(e[2]))
    if k == "upvar":
        return str(e[1])
    if k == "fn":
        return "fn:" + short(e[1])
    if k == "item":
        return short(e[1])
    if k == "unit":
        return "()"
    if k == "repeat":
        return "[%s; %s]" % (fmt(e[1]), e[2])
    if k == "mut":
        return fmt(e[1])
    if k == "subslice":
        return "%s[%s..%s]" % (fmt(e[1]), e[2], e[3])
    if k == "closure":
        return "closure:" + short(e[1])
    return str(e)


def short(path):
    # keep the last two path segments
    p = re.sub(r"<[^<>]*>", "", path)
    p = re.sub(r"<[^<>]*>", "", p)
    parts = [x for x in p.split("::") if x]
    return "::".join(parts[-2:]) if parts else path


def walk(e):
    """pre-order iterator over sub-expressions"""
    yield e
    if isinstance(e, tuple):
        for x in e[1:]:
            if isinstance(x, tuple):
                if x and isinstance(x[0], str):
                    yield from walk(x)
                else:
                    for y in x:
                        if isinstance(y, tuple):
                            if y and isinstance(y[0], str) and y[0] in KINDS:
                                yield from walk(y)
                            else:
                                for z in y:
                                    if isinstance(z, tuple):
                                        yield from walk(z)


KINDS = {"const", "str", "bytes", "fn", "item", "unit", "param", "var", "upvar", "field", "index", "variant",
         "bin", "un", "call", "agg", "discr", "cast", "len", "closure", "icall", "repeat", "tls", "constty",
         "unknown", "ovf", "subslice", "cparam", "mut"}


def contains(e, pred):
    return any(pred(x) for x in walk(e))


def strip_tags(e):
    """remove call-site tags (for comparing expressions across functions)"""
    if not isinstance(e, tuple):
        return e
    if e and e[0] == "call" and len(e) == 4:
        return ("call", e[1], tuple(strip_tags(a) for a in e[2]))
    return tuple(strip_tags(x) if isinstance(x, tuple) else x for x in e)
