"""Control-flow graph utilities over one MIR body (normal edges only unless asked)."""


def succs(term, unwind=False):
    k = term["k"]
    out = []
    if k == "goto":
        out = [term["t"]]
    elif k == "switch":
        out = [b for _, b in term["targets"]] + [term["otherwise"]]
    elif k in ("call", "drop", "assert"):
        if term.get("t") is not None:
            out = [term["t"]]
        if unwind and term.get("unwind") is not None:
            out.append(term["unwind"])
    seen = []
    for b in out:
        if b not in seen:
            seen.append(b)
    return seen


class CFG:
    def __init__(self, func, unwind=False):
        self.f = func
        n = len(func.blocks)
        self.n = n
        self.succ = [succs(b["term"], unwind) for b in func.blocks]
        # `otherwise -> unreachable` arms of exhaustive matches are not edges
        dead = {i for i, b in enumerate(func.blocks) if b["term"]["k"] == "unreachable"}
        self.succ = [[s for s in ss if s not in dead] for ss in self.succ]
        self.pred = [[] for _ in range(n)]
        for i, ss in enumerate(self.succ):
            for s in ss:
                self.pred[s].append(i)
        # reachable from entry
        self.reach = self._reach([0], self.succ)
        self.exits = [i for i in self.reach if func.blocks[i]["term"]["k"] == "return"]
        self._dom = None
        self._pdom = None

    def _reach(self, starts, adj):
        seen = set()
        st = list(starts)
        while st:
            x = st.pop()
            if x in seen:
                continue
            seen.add(x)
            st.extend(adj[x])
        return seen

    def reachable_from(self, b, avoid=()):
        """blocks reachable from b (inclusive) without passing through `avoid` blocks"""
        avoid = set(avoid)
        seen = set()
        st = [b]
        while st:
            x = st.pop()
            if x in seen or x in avoid:
                continue
            seen.add(x)
            st.extend(self.succ[x])
        return seen

    def can_reach(self, targets):
        """blocks from which some block in targets is reachable (inclusive)"""
        return self._reach(list(targets), self.pred)

    # ------------------------------------------------------------ dominators
    def _dominators(self, entry_nodes, succ, pred, nodes):
        """iterative set-based dominators; returns dict node -> set of dominators"""
        nodes = list(nodes)
        allset = set(nodes)
        dom = {n: set(allset) for n in nodes}
        for e in entry_nodes:
            dom[e] = {e}
        changed = True
        order = nodes
        while changed:
            changed = False
            for n in order:
                if n in entry_nodes:
                    continue
                ps = [p for p in pred[n] if p in allset]
                if ps:
                    new = set.intersection(*[dom[p] for p in ps])
                else:
                    new = set()
                new = new | {n}
                if new != dom[n]:
                    dom[n] = new
                    changed = True
        return dom

    def dom(self):
        if self._dom is None:
            self._dom = self._dominators([0], self.succ, self.pred, sorted(self.reach))
        return self._dom

    def dominates(self, a, b):
        return a in self.dom().get(b, ())

    def pdom(self):
        """post-dominators w.r.t. normal returns (virtual exit); blocks that cannot reach
        a return (panics, diverging) are ignored"""
        if self._pdom is None:
            live = self.can_reach(self.exits) & self.reach
            EXIT = -1
            succ2 = {n: [s for s in self.succ[n] if s in live] for n in live}
            for e in self.exits:
                succ2[e] = [EXIT]
            succ2[EXIT] = []
            pred2 = {n: [] for n in succ2}
            for n, ss in succ2.items():
                for s2 in ss:
                    pred2[s2].append(n)
            nodes = sorted(live) + [EXIT]
            # post-dominators = dominators on the reversed graph
            d = self._dominators([EXIT], pred2, succ2, nodes)
            self._pdom = d
        return self._pdom

    def postdominates(self, a, b):
        return a in self.pdom().get(b, ())

    # ------------------------------------------------------------ loops
    def back_edges(self):
        d = self.dom()
        out = []
        for n in self.reach:
            for s in self.succ[n]:
                if s in d.get(n, ()):
                    out.append((n, s))
        return out

    def natural_loop(self, tail, head):
        body = {head}
        st = [tail]
        while st:
            x = st.pop()
            if x in body:
                continue
            body.add(x)
            st.extend(p for p in self.pred[x] if p in self.reach)
        return body

    def loops(self):
        """list of (head, body set) merged per head"""
        by = {}
        for t, h in self.back_edges():
            by.setdefault(h, set()).update(self.natural_loop(t, h))
        return sorted(by.items())

    def in_loop(self, b):
        return [h for h, body in self.loops() if b in body]

    def paths_avoiding(self, src, dst, avoid):
        """is there a path src ->* dst that does not pass through a block in avoid
        (src and dst themselves are allowed to be in avoid)?"""
        avoid = set(avoid)
        seen = set()
        st = list(self.succ[src])
        while st:
            x = st.pop()
            if x == dst:
                return True
            if x in seen or x in avoid:
                continue
            seen.add(x)
            st.extend(self.succ[x])
        return False


def cfg_of(func):
    if func._cfg is None:
        func._cfg = CFG(func)
    return func._cfg
