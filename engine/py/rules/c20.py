"""C20 — canonical k-mer arithmetic: three clauses (DESIGN 4/C20, K1..K3)."""
import re

from absint import Interp, Undecidable, Panic, tabulate
from cfg import cfg_of
from expr import Exprs, fmt, walk, contains
from mirutil import is_call, dominating_conds, cond_bool, known_le0, linear, lin_sub, implies_le0
from framework import site_of
import callgraph as cgmod
import pipeline
import symbols

EXPLANATION = (
    "(K1) canonical = min(forward, reverse) and direction flag = (forward <= reverse): the bodies of Kmer::data "
    "(canonical arm), data_canonical, is_dir_oriented and canonical_kmer are evaluated in the ordering domain - "
    "they touch the two packed words only through comparisons/min/moves (checked), so the three orderings "
    "a<b, a=b, a>b are a complete case split; (K2) the per-base complement table is the involution 0<->3, 1<->2 "
    "on {0,1,2,3} wherever a per-base complement is written; (K4) every shift and arithmetic site of the k-mer module is "
    "defined for all k in 1..=32 (the C18 audit restricted to that module: `1 << 2k` and `64 - 2k` at k = 32); (K3) in every loop of the modules that define the "
    "k-mers the properties speak about (k-mer enumeration, both segmenters, the second-pass splitter scans) a "
    "base is inserted into the window only under base <= 3 and the other arm resets the window before the next "
    "iteration.  The shift/mask arithmetic of the sliding window itself is bit-level value reasoning and is "
    "not decided.")
UNDECIDED = "window-exactness of insert's shift/mask arithmetic for all k and sequences; reverse_complement_kmer's loop arithmetic"

K = "ragc_core::kmer::"


def run(F, rep):
    rep.explanation = EXPLANATION
    rep.undecided = UNDECIDED
    rep.assumptions = ["finite-domain evaluation of the IR is exact; u64::min / Ord::cmp have their std meaning"]
    # ------------------------------------------------------------ K1
    cases = {"a<b": (1, 2), "a=b": (2, 2), "a>b": (2, 1)}
    modes = _enum_variants(F, K + "KmerMode")
    targets = [("Kmer::data", K + "Kmer::data", "min"), ("Kmer::data_canonical", K + "Kmer::data_canonical", "min"),
               ("Kmer::is_dir_oriented", K + "Kmer::is_dir_oriented", "le")]
    n = 0
    for label, key, want in targets:
        f = F.funcs.get(key)
        if f is None:
            continue
        n += 1
        arith = _arith_on_fields(f, ("kmer_dir", "kmer_rc"))
        rep.ob("C20-K1", "%s touches the packed words only through comparisons, min/max and moves" % label, not arith,
               detail="arithmetic on them: %s" % arith, site="%s:%d" % (f.file, f.line_lo), key="C20-K1 | %s | comparisons only" % key)
        res = {}
        try:
            for cname, (a, b) in cases.items():
                selfv = {"kmer_dir": a, "kmer_rc": b, "cur_size": 3, "max_size": 3, "mask": 0, "shift": 0,
                         "variant": {"__adt": K + "KmerMode", "__var": "Canonical"}}
                it = Interp(F)
                it.enum_index = modes
                res[cname] = it.call(f, [("refval", selfv)])
        except (Undecidable, Panic) as e:
            rep.ob("C20-K1", "%s can be evaluated in the ordering domain" % label, False, detail="undecidable construct: %s" % e,
                   site="%s:%d" % (f.file, f.line_lo), key="C20-K1 | %s | evaluable" % key)
            continue
        if want == "min":
            exp = {c: min(a, b) for c, (a, b) in cases.items()}
        else:
            exp = {c: 1 if a <= b else 0 for c, (a, b) in cases.items()}
        rep.ob("C20-K1", "%s (canonical mode) = %s in all three orderings" % (label, "min(forward, reverse)" if want == "min" else "(forward <= reverse)"),
               res == exp, detail="found %s, wanted %s" % (res, exp), site="%s:%d" % (f.file, f.line_lo), key="C20-K1 | %s | ordering table" % key)
    ck = F.funcs.get(K + "canonical_kmer")
    if ck:
        n += 1
        # canonical_kmer(kmer,k) = min(kmer, reverse_complement_kmer(kmer,k)): shape check on the expression
        ex = Exprs(ck)
        ret = None
        for bi, t in ck.calls():
            if t["dest"]["l"] == 0:
                ret = ex.call(t)
        ok = isinstance(ret, tuple) and ret[0] == "call" and re.search(r"::min$", ret[1]) and len(ret[2]) == 2 and \
            ("param", "kmer") in ret[2] and any(isinstance(a, tuple) and a[0] == "call" and a[1].endswith("reverse_complement_kmer") and
                                                a[2][:1] == (("param", "kmer"),) for a in ret[2])
        rep.ob("C20-K1", "canonical_kmer = min(kmer, reverse_complement_kmer(kmer, k))", bool(ok), detail=fmt(ret),
               site="%s:%d" % (ck.file, ck.line_lo), key="C20-K1 | canonical_kmer | min of both strands")
    rep.floor("C20-K1", n, 4, "canonical/direction functions")

    # ------------------------------------------------------------ K2
    rc = F.funcs.get(K + "reverse_complement")
    want = {0: 3, 1: 2, 2: 1, 3: 0}
    if rep.floor("C20-K2", 1 if rc else 0, 1, "kmer::reverse_complement"):
        try:
            t = tabulate(F, rc, domain=range(4))
            rep.ob("C20-K2", "per-base complement table is 0<->3, 1<->2 (an involution on {0,1,2,3})", t == want, detail=str(t),
                   site="%s:%d" % (rc.file, rc.line_lo), key="C20-K2 | reverse_complement table")
        except Undecidable as e:
            rep.ob("C20-K2", "reverse_complement can be tabulated", False, detail=str(e), key="C20-K2 | tabulate")
    G = cgmod.CallGraph(F)
    live = pipeline.live_scope(F, G)
    maps = symbols.rc_maps(F, live)
    for c, parent, t, site in maps:
        sub = {k: t.get(k) for k in range(4)}
        rep.ob("C20-K2", "per-base map in %s complements A/C/G/T with the same table" % parent.split("::", 1)[-1], sub == want,
               detail=str(sub), site=site, key="C20-K2 | %s | table on 0..3" % c.key)
    rep.floor("C20-K2", len(maps), 3, "per-base maps under a reversing iterator in live code")

    # ------------------------------------------------------------ K3
    nl = 0
    for f in F.funcs.values():
        if f.crate != "ragc_core" or not re.search(r"^ragc_core::(kmer_extract|segment|splitters)::", f.key) or f.kind == "promoted":
            continue
        g = cfg_of(f)
        ex = None
        for bi, t in f.calls():
            if t.get("indirect") or not re.search(r"kmer::Kmer::insert(_canonical|_direct|_rev_comp)?$", t["callee"]):
                continue
            heads = g.in_loop(bi)
            if not heads:
                continue
            nl += 1
            ex = ex or Exprs(f)
            sym = ex.operand(t["args"][1])
            # guard: dominating conditions imply sym <= 3
            known = known_le0(f, bi, ex)
            tgt = dict(linear(sym))
            tgt["1"] = tgt.get("1", 0) - 3
            ok_guard = implies_le0(known, tgt)
            # the other arm resets before the next iteration
            ok_reset = False
            for e, how, vals, sb in dominating_conds(f, bi, ex):
                if not (isinstance(e, tuple) and e[0] == "bin" and e[1] in ("Lt", "Le") and contains(e, lambda x: x == sym)):
                    continue
                sw = f.blocks[sb]["term"]
                arms = [tb for v, tb in sw["targets"]] + [sw["otherwise"]]
                other = [a for a in arms if not g.dominates(a, bi) and a != bi]
                h = heads[-1]
                for a in other:
                    resets = {x for x in g.reachable_from(a) if is_call(f.blocks[x]["term"], r"kmer::Kmer::reset$")}
                    back = g.reachable_from(a, avoid=resets)
                    if resets and h not in back and not any(is_call(f.blocks[x]["term"], r"kmer::Kmer::insert") for x in back):
                        ok_reset = True
            rep.ob("C20-K3", "k-mer window in %s: insert only for base <= 3, other arm resets the window" % f.key.split("::", 1)[-1],
                   ok_guard and ok_reset, detail="inserted value %s; guard implies <= 3: %s; other arm resets: %s" % (fmt(sym), ok_guard, ok_reset),
                   site=site_of(f, t), key="C20-K3 | %s | guarded insert" % f.key)
    rep.floor("C20-K3", nl, 6, "loops inserting bases into a k-mer window (enumeration, segmenters, splitter scans)")
    # ------------------------------------------------------------ K4: the masks and shifts of the k-mer type are defined for every k in 1..=32
    # (k = 32 is where `1 << 2k` and `64 - 2k` reach the width of the word: the overflow audit of C18, restricted to the
    #  k-mer module, with the same guard / interval discharge and the same reasoned table)
    if getattr(F, "cfg", "dev") == "dev":
        from rules import c18
        sub = type(rep)(rep.pid, rep.tier)
        import callgraph as cg4
        import pipeline as pl4
        live = pl4.live_scope(F, cg4.CallGraph(F))
        keys = [k for k, f in F.funcs.items() if k.startswith("ragc_core::kmer::") and k in live and f.kind != "promoted"]
        n4, a4, t4, _ = c18.audit_scope(F, keys, sub, c18.load_table())
        for o in sub.obligations:
            rep.ob("C20-K4", o["instance"], o["ok"], detail=o["detail"], site=o["site"], how=o["how"], key=o["key"].replace("C18-O", "C20-K4"))
        rep.floor("C20-K4", n4, 10, "shift / arithmetic sites of the k-mer module (functions the tool can reach)")
    # notes: heuristic helpers outside the armed modules
    for f in F.funcs.values():
        if f.key.startswith("ragc_core::agc_compressor::") and any(is_call(t, r"kmer::Kmer::insert") for _, t in f.calls()):
            rep.note("not armed (split-position heuristic inside an already delimited segment): %s inserts into a k-mer window" % f.key)


def _enum_variants(F, key):
    a = F.adts.get(key)
    return {v["name"]: i for i, v in enumerate(a["variants"])} if a else {}


def _arith_on_fields(f, names):
    bad = []
    for b in f.blocks:
        for s in b["stmts"]:
            if s["k"] == "assign" and s["rv"]["k"] == "binop" and s["rv"]["op"] not in ("Lt", "Le", "Gt", "Ge", "Eq", "Ne", "Cmp"):
                bad.append(s["rv"]["op"])
    return bad
