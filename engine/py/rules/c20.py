"""C20 — canonical k-mer arithmetic: three clauses (DESIGN 4/C20, K1..K3)."""
import re

from absint import Interp, Undecidable, Panic, tabulate
from cfg import cfg_of
from expr import Exprs, fmt, walk, contains
from mirutil import is_call, dominating_conds, cond_bool, known_le0, linear, lin_sub, implies_le0
from framework import site_of
import callgraph as cgmod
import pipeline
import symbols

EXPLANATION = (
    "(K1) canonical = min(forward, reverse) and direction flag = (forward <= reverse): the bodies of Kmer::data "
    "(canonical arm), data_canonical, is_dir_oriented and canonical_kmer are evaluated in the ordering domain - "
    "they touch the two packed words only through comparisons/min/moves (checked), so the three orderings "
    "a<b, a=b, a>b are a complete case split; (K2) the per-base complement table is the involution 0<->3, 1<->2 "
    "on {0,1,2,3} wherever a per-base complement is written; (K4) every shift and arithmetic site of the k-mer module is "
    "defined for all k in 1..=32 (the C18 audit restricted to that module: `1 << 2k` and `64 - 2k` at k = 32); (K3) in every loop of the modules that define the "
    "k-mers the properties speak about (k-mer enumeration, both segmenters, the second-pass splitter scans) a "
    "base is inserted into the window only under base <= 3 and the other arm resets the window before the next "
    "iteration; (K5) window-exactness of the sliding arithmetic: the bodies of Kmer::new, reset, insert and its three "
    "mode-specific variants are interpreted over an abstract domain of 32 two-bit slots per word (a slot is a constant or "
    "table[s] for a symbolic base s), for every k in 1..=32 and every fill level 0..=k; the induction step `window "
    "invariant before insert => window invariant after insert, no overflow or shift assert trips` is checked in each "
    "state, so by induction over the inserts since the last reset the forward word is exactly the last min(n,k) bases "
    "left-aligned and the reverse word is their reverse complement, whatever the sequence - hence sliding value = value "
    "computed from scratch, and (with K1) canonical = min of the two packings; (K6) reverse_complement_kmer maps "
    "w1..wk to ~wk..~w1 for every k and is an involution, in the same domain (strand symmetry of canonical_kmer follows "
    "with K1).  The evaluation is exact or refuses (carry between slots, odd shift, mask through a slot).  (K7) the slide "
    "itself (enumerate_kmers) is interpreted concretely against from-scratch windows on a finite domain that holds a "
    "sequence of exactly k bases for every k.")
UNDECIDED = "that callers pass symbols 0..3 only outside the loops covered by K3; k outside 1..=32 (rejected by the CLI); Kmer::from_values / swap_dir_rc / get_symbol (not used to build windows)"

K = "ragc_core::kmer::"


def run(F, rep):
    rep.explanation = EXPLANATION
    rep.undecided = UNDECIDED
    rep.assumptions = ["finite-domain evaluation of the IR is exact; u64::min / Ord::cmp have their std meaning"]
    # ------------------------------------------------------------ K1
    cases = {"a<b": (1, 2), "a=b": (2, 2), "a>b": (2, 1)}
    modes = _enum_variants(F, K + "KmerMode")
    targets = [("Kmer::data", K + "Kmer::data", "min"), ("Kmer::data_canonical", K + "Kmer::data_canonical", "min"),
               ("Kmer::is_dir_oriented", K + "Kmer::is_dir_oriented", "le")]
    n = 0
    for label, key, want in targets:
        f = F.funcs.get(key)
        if f is None:
            continue
        n += 1
        arith = _arith_on_fields(f, ("kmer_dir", "kmer_rc"))
        rep.ob("C20-K1", "%s touches the packed words only through comparisons, min/max and moves" % label, not arith,
               detail="arithmetic on them: %s" % arith, site="%s:%d" % (f.file, f.line_lo), key="C20-K1 | %s | comparisons only" % key)
        res = {}
        try:
            for cname, (a, b) in cases.items():
                selfv = {"kmer_dir": a, "kmer_rc": b, "cur_size": 3, "max_size": 3, "mask": 0, "shift": 0,
                         "variant": {"__adt": K + "KmerMode", "__var": "Canonical"}}
                it = Interp(F)
                it.enum_index = modes
                res[cname] = it.call(f, [("refval", selfv)])
        except (Undecidable, Panic) as e:
            rep.ob("C20-K1", "%s can be evaluated in the ordering domain" % label, False, detail="undecidable construct: %s" % e,
                   site="%s:%d" % (f.file, f.line_lo), key="C20-K1 | %s | evaluable" % key)
            continue
        if want == "min":
            exp = {c: min(a, b) for c, (a, b) in cases.items()}
        else:
            exp = {c: 1 if a <= b else 0 for c, (a, b) in cases.items()}
        rep.ob("C20-K1", "%s (canonical mode) = %s in all three orderings" % (label, "min(forward, reverse)" if want == "min" else "(forward <= reverse)"),
               res == exp, detail="found %s, wanted %s" % (res, exp), site="%s:%d" % (f.file, f.line_lo), key="C20-K1 | %s | ordering table" % key)
    ck = F.funcs.get(K + "canonical_kmer")
    if ck:
        n += 1
        # canonical_kmer(kmer,k) = min(kmer, reverse_complement_kmer(kmer,k)): shape check on the expression
        ex = Exprs(ck)
        ret = None
        for bi, t in ck.calls():
            if t["dest"]["l"] == 0:
                ret = ex.call(t)
        ok = isinstance(ret, tuple) and ret[0] == "call" and re.search(r"::min$", ret[1]) and len(ret[2]) == 2 and \
            ("param", "kmer") in ret[2] and any(isinstance(a, tuple) and a[0] == "call" and a[1].endswith("reverse_complement_kmer") and
                                                a[2][:1] == (("param", "kmer"),) for a in ret[2])
        rep.ob("C20-K1", "canonical_kmer = min(kmer, reverse_complement_kmer(kmer, k))", bool(ok), detail=fmt(ret),
               site="%s:%d" % (ck.file, ck.line_lo), key="C20-K1 | canonical_kmer | min of both strands")
    rep.floor("C20-K1", n, 4, "canonical/direction functions")

    # ------------------------------------------------------------ K2
    rc = F.funcs.get(K + "reverse_complement")
    want = {0: 3, 1: 2, 2: 1, 3: 0}
    if rep.floor("C20-K2", 1 if rc else 0, 1, "kmer::reverse_complement"):
        try:
            t = tabulate(F, rc, domain=range(4))
            rep.ob("C20-K2", "per-base complement table is 0<->3, 1<->2 (an involution on {0,1,2,3})", t == want, detail=str(t),
                   site="%s:%d" % (rc.file, rc.line_lo), key="C20-K2 | reverse_complement table")
        except Undecidable as e:
            rep.ob("C20-K2", "reverse_complement can be tabulated", False, detail=str(e), key="C20-K2 | tabulate")
    G = cgmod.CallGraph(F)
    live = pipeline.live_scope(F, G)
    maps = symbols.rc_maps(F, live)
    for c, parent, t, site in maps:
        sub = {k: t.get(k) for k in range(4)}
        rep.ob("C20-K2", "per-base map in %s complements A/C/G/T with the same table" % parent.split("::", 1)[-1], sub == want,
               detail=str(sub), site=site, key="C20-K2 | %s | table on 0..3" % c.key)
    rep.floor("C20-K2", len(maps), 3, "per-base maps under a reversing iterator in live code")

    # ------------------------------------------------------------ K3
    nl = 0
    for f in F.funcs.values():
        if f.crate != "ragc_core" or not re.search(r"^ragc_core::(kmer_extract|segment|splitters)::", f.key) or f.kind == "promoted":
            continue
        g = cfg_of(f)
        ex = None
        for bi, t in f.calls():
            if t.get("indirect") or not re.search(r"kmer::Kmer::insert(_canonical|_direct|_rev_comp)?$", t["callee"]):
                continue
            heads = g.in_loop(bi)
            if not heads:
                continue
            nl += 1
            ex = ex or Exprs(f)
            sym = ex.operand(t["args"][1])
            # guard: dominating conditions imply sym <= 3
            known = known_le0(f, bi, ex)
            tgt = dict(linear(sym))
            tgt["1"] = tgt.get("1", 0) - 3
            ok_guard = implies_le0(known, tgt)
            # the other arm resets before the next iteration
            ok_reset = False
            for e, how, vals, sb in dominating_conds(f, bi, ex):
                if not (isinstance(e, tuple) and e[0] == "bin" and e[1] in ("Lt", "Le") and contains(e, lambda x: x == sym)):
                    continue
                sw = f.blocks[sb]["term"]
                arms = [tb for v, tb in sw["targets"]] + [sw["otherwise"]]
                other = [a for a in arms if not g.dominates(a, bi) and a != bi]
                h = heads[-1]
                for a in other:
                    resets = {x for x in g.reachable_from(a) if is_call(f.blocks[x]["term"], r"kmer::Kmer::reset$")}
                    back = g.reachable_from(a, avoid=resets)
                    if resets and h not in back and not any(is_call(f.blocks[x]["term"], r"kmer::Kmer::insert") for x in back):
                        ok_reset = True
            rep.ob("C20-K3", "k-mer window in %s: insert only for base <= 3, other arm resets the window" % f.key.split("::", 1)[-1],
                   ok_guard and ok_reset, detail="inserted value %s; guard implies <= 3: %s; other arm resets: %s" % (fmt(sym), ok_guard, ok_reset),
                   site=site_of(f, t), key="C20-K3 | %s | guarded insert" % f.key)
    rep.floor("C20-K3", nl, 6, "loops inserting bases into a k-mer window (enumeration, segmenters, splitter scans)")
    # ------------------------------------------------------------ K4: the masks and shifts of the k-mer type are defined for every k in 1..=32
    # (k = 32 is where `1 << 2k` and `64 - 2k` reach the width of the word: the overflow audit of C18, restricted to the
    #  k-mer module, with the same guard / interval discharge and the same reasoned table)
    if getattr(F, "cfg", "dev") == "dev":
        from rules import c18
        sub = type(rep)(rep.pid, rep.tier)
        import callgraph as cg4
        import pipeline as pl4
        live = pl4.live_scope(F, cg4.CallGraph(F))
        keys = [k for k, f in F.funcs.items() if k.startswith("ragc_core::kmer::") and k in live and f.kind != "promoted"]
        n4, a4, t4, _ = c18.audit_scope(F, keys, sub, c18.load_table())
        for o in sub.obligations:
            rep.ob("C20-K4", o["instance"], o["ok"], detail=o["detail"], site=o["site"], how=o["how"], key=o["key"].replace("C18-O", "C20-K4"))
        rep.floor("C20-K4", n4, 10, "shift / arithmetic sites of the k-mer module (functions the tool can reach)")
    # ------------------------------------------------------------ K5 / K6: the sliding window in the 2-bit slot domain
    _window_rules(F, rep)
    if getattr(F, "cfg", "dev") == "dev":
        _slide_rule(F, rep)
    # notes: heuristic helpers outside the armed modules
    for f in F.funcs.values():
        if f.key.startswith("ragc_core::agc_compressor::") and any(is_call(t, r"kmer::Kmer::insert") for _, t in f.calls()):
            rep.note("not armed (split-position heuristic inside an already delimited segment): %s inserts into a k-mer window" % f.key)


def _enum_variants(F, key):
    a = F.adts.get(key)
    return {v["name"]: i for i, v in enumerate(a["variants"])} if a else {}


def _arith_on_fields(f, names):
    bad = []
    for b in f.blocks:
        for s in b["stmts"]:
            if s["k"] == "assign" and s["rv"]["k"] == "binop" and s["rv"]["op"] not in ("Lt", "Le", "Gt", "Ge", "Eq", "Ne", "Cmp"):
                bad.append(s["rv"]["op"])
    return bad


def _call_on_self(F, f, selfv, *rest, trace=None):
    """interpret a `&mut self` method: self lives in a cell of the environment so that writes are kept"""
    from slots import SlotInterp
    it = SlotInterp(F, max_steps=200000)
    it.trace = trace
    env = {1: ("ref", 9000, ()), 9000: selfv}
    for i, a in enumerate(rest):
        env[i + 2] = a
    r = it.run(f, env, 0, None)
    return r, env[9000]


def window_evaluated(F):
    """(function key, block) of every overflow / shift assert that the slot-domain evaluation executed without a panic,
    in bodies all of whose states passed: these sites are defined for every k in 1..=32, every fill level 0..=k and every
    symbol in 0..3 - the whole parameter space of the k-mer window.  Used by the overflow audits (C18-O, C20-K4)."""
    ev = _window_eval(F)
    if ev is None:
        return set()
    counts, results, comp, trace, fkeys = ev
    good = {fk for label, fk in fkeys.items() if not results.get(label)}
    bad = {fk for label, fk in fkeys.items() if results.get(label)}
    return {(k, b) for (k, b) in trace if k in good and k not in bad}


def _window_rules(F, rep):
    """C20-K5: by induction over inserts, for every k in 1..=32 and every fill level n in 0..=k: if the forward word
    holds the last n symbols left-aligned (oldest first) and the reverse word holds their complements in reverse order,
    then after insert(x) the same holds for the window advanced by x (grown while n < k, oldest symbol dropped when
    n = k); Kmer::new and reset establish the empty window.  C20-K6: reverse_complement_kmer maps the packed window
    w1..wk to ~wk..~w1 for every k, and applying it twice gives the word back.  Both are decided by abstract
    interpretation of the bodies in the slot domain (slots.py); symbols range over {0,1,2,3} (K3 guards the callers)."""
    new = F.funcs.get(K + "Kmer::new")
    reset = F.funcs.get(K + "Kmer::reset")
    rcb = F.funcs.get(K + "reverse_complement")
    ins = {m: F.funcs.get(K + "Kmer::" + m) for m in ("insert", "insert_canonical", "insert_direct", "insert_rev_comp")}
    rck = F.funcs.get(K + "reverse_complement_kmer")
    have = [x for x in [new, reset, rcb, rck] + list(ins.values()) if x is not None]
    if not rep.floor("C20-K5", len(have), 8, "k-mer window bodies (new, reset, reverse_complement, 4 inserts, reverse_complement_kmer)"):
        return
    ev = _window_eval(F)
    if ev is None:
        rep.ob("C20-K5", "per-base complement can be tabulated", False, detail="undecidable construct in reverse_complement", key="C20-K5 | complement table")
        return
    counts, results, comp, trace, fkeys = ev
    COMP = (3, 2, 1, 0)
    _window_report(F, rep, counts, results, comp, new, reset, rcb, ins, rck)


def _window_eval(F):
    if getattr(F, "_c20_window", 0) != 0:
        return F._c20_window
    from slots import SlotInterp, Word, window_words, IDENT, NS
    new = F.funcs.get(K + "Kmer::new")
    reset = F.funcs.get(K + "Kmer::reset")
    rcb = F.funcs.get(K + "reverse_complement")
    ins = {m: F.funcs.get(K + "Kmer::" + m) for m in ("insert", "insert_canonical", "insert_direct", "insert_rev_comp")}
    rck = F.funcs.get(K + "reverse_complement_kmer")
    if any(x is None for x in [new, reset, rcb, rck] + list(ins.values())):
        F._c20_window = None
        return None
    try:
        comp = tuple(Interp(F).call(rcb, [v]) for v in range(4))
    except (Undecidable, Panic) as e:
        F._c20_window = None
        return None
    COMP = (3, 2, 1, 0)
    trace = set()
    fkeys = {}
    modes = {"insert_canonical": "Canonical", "insert_direct": "Direct", "insert_rev_comp": "RevComp"}
    # which word(s) each mode maintains
    keeps = {"Canonical": ("kmer_dir", "kmer_rc"), "Direct": ("kmer_dir",), "RevComp": ("kmer_rc",)}
    results = {}          # (function label) -> [failures]
    counts = {}
    def record(label, ok, why):
        counts[label] = counts.get(label, 0) + 1
        if not ok:
            results.setdefault(label, []).append(why)
    for k in range(1, 33):
        for mode in ("Canonical", "Direct", "RevComp"):
            var = {"__adt": K + "KmerMode", "__var": mode}
            try:
                it0 = Interp(F)
                it0.trace = trace
                fkeys["Kmer::new"] = new.key
                st0 = it0.call(new, [k, var])
                ok0 = (isinstance(st0, dict) and st0.get("kmer_dir") == 0 and st0.get("kmer_rc") == 0 and st0.get("cur_size") == 0 and st0.get("max_size") == k)
                record("Kmer::new", ok0, "k=%d %s: %r" % (k, mode, {x: st0.get(x) for x in ("kmer_dir", "kmer_rc", "cur_size", "max_size")} if isinstance(st0, dict) else st0))
            except (Undecidable, Panic) as e:
                record("Kmer::new", False, "k=%d: %s" % (k, e))
                continue
            for n in range(0, k + 1):
                D, R = window_words(k, n, COMP)
                x = Word.sym("x")
                # expected successor window
                names = ["w%d" % (i + 1) for i in range(n)] + ["x"]
                if len(names) > k:
                    names = names[1:]
                m = len(names)
                eD = Word([(names[i], IDENT) if i < m else 0 for i in range(NS)])
                eR = Word([(names[m - 1 - i], COMP) if i < m else 0 for i in range(NS)])
                for entry in ("insert", [a for a, b in modes.items() if b == mode][0]):
                    f = ins[entry]
                    selfv = dict(st0)
                    selfv["variant"] = dict(var)
                    if "kmer_dir" in keeps[mode]:
                        selfv["kmer_dir"] = D
                    if "kmer_rc" in keeps[mode]:
                        selfv["kmer_rc"] = R
                    selfv["cur_size"] = n
                    label = "Kmer::%s (%s)" % (entry, mode)
                    fkeys[label] = f.key
                    try:
                        _, post = _call_on_self(F, f, selfv, x, trace=trace)
                    except Panic as e:
                        record(label, False, "k=%d n=%d: panics (%s)" % (k, n, e))
                        continue
                    except Undecidable as e:
                        record(label, False, "k=%d n=%d: %s" % (k, n, e))
                        continue
                    bad = []
                    if "kmer_dir" in keeps[mode] and post.get("kmer_dir") != eD:
                        bad.append("forward word %r, expected %r" % (post.get("kmer_dir"), eD))
                    if "kmer_rc" in keeps[mode] and post.get("kmer_rc") != eR:
                        bad.append("reverse word %r, expected %r" % (post.get("kmer_rc"), eR))
                    if post.get("cur_size") != m:
                        bad.append("fill level %r, expected %d" % (post.get("cur_size"), m))
                    for fld in ("max_size", "mask", "shift"):
                        if post.get(fld) != st0.get(fld):
                            bad.append("%s changed" % fld)
                    record(label, not bad, "k=%d n=%d: %s" % (k, n, "; ".join(bad)))
                # reset from any state gives the empty window
                if mode == "Canonical":
                    selfv = dict(st0, kmer_dir=D, kmer_rc=R, cur_size=n)
                    try:
                        fkeys["Kmer::reset"] = reset.key
                        _, post = _call_on_self(F, reset, selfv, trace=trace)
                        okr = lift_zero(post.get("kmer_dir")) and lift_zero(post.get("kmer_rc")) and post.get("cur_size") == 0 and post.get("mask") == st0.get("mask") and post.get("shift") == st0.get("shift")
                        record("Kmer::reset", okr, "k=%d n=%d: %r" % (k, n, post))
                    except (Undecidable, Panic) as e:
                        record("Kmer::reset", False, "k=%d n=%d: %s" % (k, n, e))
        # K6
        D, R = window_words(k, k, COMP)
        try:
            it = SlotInterp(F, max_steps=200000)
            it.trace = trace
            fkeys["reverse_complement_kmer"] = rck.key
            fkeys["reverse_complement_kmer twice"] = rck.key
            r1 = it.call(rck, [D, k])
            record("reverse_complement_kmer", r1 == R, "k=%d: %r, expected %r" % (k, r1, R))
            it = SlotInterp(F, max_steps=200000)
            r2 = it.call(rck, [r1, k]) if isinstance(r1, Word) else None
            # ~~w = w: compose the per-slot tables
            norm = Word([(x[0], tuple(COMP[COMP[v]] for v in range(4))) if not isinstance(x, int) and x[1] == tuple(COMP[COMP[v]] for v in range(4)) else x for x in r2.s]) if isinstance(r2, Word) else None
            record("reverse_complement_kmer twice", r2 == D, "k=%d: %r, expected %r" % (k, r2, D))
        except Panic as e:
            record("reverse_complement_kmer", False, "k=%d: panics (%s)" % (k, e))
        except Undecidable as e:
            record("reverse_complement_kmer", False, "k=%d: %s" % (k, e))
    # a dispatcher's verdict also covers the body it dispatched to
    for label in list(results):
        if label.startswith("Kmer::insert ("):
            mode = label.split("(")[1].rstrip(")")
            tgt = {"Canonical": "insert_canonical", "Direct": "insert_direct", "RevComp": "insert_rev_comp"}[mode]
            results.setdefault("Kmer::%s (%s)" % (tgt, mode), []).extend(results[label])
    F._c20_window = (counts, results, comp, trace, fkeys)
    return F._c20_window


def _window_report(F, rep, counts, results, comp, new, reset, rcb, ins, rck):
    COMP = (3, 2, 1, 0)
    rep.ob("C20-K5", "per-base complement used by the window is 0<->3, 1<->2", comp == COMP, detail=str(comp), site="%s:%d" % (rcb.file, rcb.line_lo), key="C20-K5 | complement table")
    for label in sorted(counts):
        fails = results.get(label, [])
        rule = "C20-K6" if label.startswith("reverse_complement_kmer") else "C20-K5"
        what = {"Kmer::new": "establishes the empty window (both words 0, fill 0) and its mask/shift let every insert below succeed",
                "Kmer::reset": "returns to the empty window and keeps mask/shift",
                "reverse_complement_kmer": "maps the packed window w1..wk to ~wk..~w1, left-aligned, nothing else set",
                "reverse_complement_kmer twice": "is the identity on packed k-mers"}.get(label, "keeps the window invariant: forward word = last min(n+1,k) symbols oldest first, reverse word = their complements newest first, no stray bits, no overflow")
        f = {"Kmer::new": new, "Kmer::reset": reset}.get(label) or (rck if label.startswith("reverse_complement_kmer") else ins[label.split("::")[1].split(" ")[0]])
        rep.ob(rule, "%s %s, for every k in 1..=32%s" % (label, what, "" if rule == "C20-K6" or label == "Kmer::new" else " and every fill level"), not fails,
               detail="%d abstract states checked in the 2-bit slot domain%s" % (counts[label], "" if not fails else "; first failure: " + fails[0][:300]),
               site="%s:%d" % (f.file, f.line_lo), key="%s | %s" % (rule, label))
    rep.stat("slot_domain_states", sum(counts.values()))


def lift_zero(v):
    from slots import Word
    return v == 0 or (isinstance(v, Word) and v.is_const() and v.to_int() == 0)


# ---------------------------------------------------------------------------------------------------- K7: the slide itself
def _canon_windows(x, k):
    """canonical k-mers of x in order, from scratch: every window of k symbols below 4, left-aligned 2-bit packing"""
    out, run = [], 0
    for i, b in enumerate(x):
        if b > 3:
            run = 0
            continue
        run += 1
        if run >= k:
            w = x[i - k + 1:i + 1]
            d = r = 0
            for c in w:
                d = (d << 2) | c
            for c in reversed(w):
                r = (r << 2) | (3 - c)
            out.append(min(d, r) << (64 - 2 * k))
    return out


def _slide_domain():
    import itertools
    import random
    dom = []
    for k in (1, 2, 3):
        for L in range(0, 5):
            for x in itertools.product(range(5), repeat=L):
                dom.append((list(x), k))
    for x in itertools.product((0, 3, 4), repeat=5):
        dom.append((list(x), 3))
    rnd = random.Random(20)
    for k in range(1, 33):
        for L in (k - 1, k, k + 1, k + 3):
            if L < 0:
                continue
            x = [rnd.randrange(4) for _ in range(L)]
            dom.append((x, k))
            if L > k:
                y = list(x)
                y[rnd.randrange(L)] = 4 + rnd.randrange(2) * 26          # N (4) or the unknown-letter code (30)
                dom.append((y, k))
        dom.append(([rnd.randrange(4) for _ in range(2 * k + 1)], k))
    return dom


def _slide_rule(F, rep):
    """enumerate_kmers(x, k) is the list of from-scratch canonical values of every full window, for a finite domain that holds
    every sequence of up to 4 symbols over ACGT+N for k = 1..3 and, for every k = 1..32, sequences of k-1, k, k+1, k+3, 2k+1
    symbols (with and without a non-ACGT symbol)."""
    from vecint import VecInterp
    from absint import Undecidable, Panic
    f = F.funcs.get("ragc_core::kmer_extract::enumerate_kmers")
    if not rep.floor("C20-K7", 1 if f else 0, 1, "kmer_extract::enumerate_kmers"):
        return
    bad, undec, n = [], None, 0
    for x, k in _slide_domain():
        n += 1
        try:
            r = VecInterp(F).call(f, [("refval", list(x)), k])
        except Panic as e:
            bad.append("%s, k=%d: panics (%s)" % (x, k, e))
            continue
        except Undecidable as e:
            undec = "%s, k=%d: %s" % (x, k, e)
            break
        want = _canon_windows(x, k)
        if list(r) != want:
            bad.append("%s, k=%d: gives %d value(s) %s, the windows are %s" % (x, k, len(r), [hex(v) for v in list(r)[:3]], [hex(v) for v in want[:3]]))
    rep.ob("C20-K7", "sliding over a sequence yields, in order, the from-scratch canonical value of every full window (a sequence of exactly k bases has one; "
           "a non-ACGT symbol restarts the window) on the finite domain", undec is None and not bad,
           detail=("undecidable construct: %s" % undec) if undec else ("%d (sequence, k) pairs evaluated" % n if not bad else "%d of %d pairs differ, e.g. %s" % (len(bad), n, "; ".join(bad[:3]))),
           site="%s:%d" % (f.file, f.line_lo), key="C20-K7 | enumerate_kmers | slide equals from-scratch windows")
    rep.stat("slide_pairs_evaluated", n)
