"""C15 — write failures during create are reported: error discipline E0..E4 (DESIGN 4/C15)."""
import re

from cfg import cfg_of
from expr import Exprs, fmt, contains
from mirutil import is_call, result_fate, returns_result, try_sites, error_blocks, for_loops
from framework import site_of
import callgraph as cgmod
import pipeline

EXPLANATION = (
    "Error discipline over the whole workspace: (E0) the set W of functions that can reach a write/flush on the "
    "archive's output file is computed from the call graph; buffering functions (add_part_buffered, the "
    "per-stream write buffer) must be outside W, so the error-dropping sites of the worker loop cannot drop a "
    "write error; (E1) the Result of every call to a W function, at every call site in non-test code, must be "
    "propagated (`?`, returned, or converted and propagated) - never dropped, .ok()'d or only printed; (E2) "
    "every path of finalize to Ok passes flush_buffers and then close, and close/serialize flush the writer "
    "after the footer; (E3) the CLI propagates push/drain/sync_and_flush/finalize and main returns the Result; "
    "(E4) every worker JoinHandle is joined and its inner Result propagated.  A combinator running a closure that writes "
    "is a write site, and a result overwritten before it was inspected is dropped.  No I/O error is injected.")
UNDECIDED = "errors reported by the operating system only at close(2) of the file descriptor (not surfaced by std)"

WRITE_PRIMS = re.compile(r"std::io::Write>::(write_all|flush|write)$|std::io::Write::(write_all|flush|write)$|"
                         r"std::io::buffered::bufwriter::BufWriter::<W>::(flush_buf|into_inner)$|std::fs::File::(sync_all|sync_data|set_len)$")


def run(F, rep):
    rep.explanation = EXPLANATION
    rep.undecided = UNDECIDED
    rep.assumptions = ["BufWriter::write_all/flush return Err when the underlying write fails (std contract)",
                       "call graph over resolved callees; dyn Write calls are attributed to the trait method"]
    G = cgmod.CallGraph(F)
    arch = "ragc_common::archive::Archive::"
    # E0: primitive writers = bodies of Archive that call write_all/flush on the BufWriter<File>
    prim = set()
    for f in F.funcs.values():
        if not f.key.startswith(arch):
            continue
        for bi, t in f.calls():
            if t.get("indirect") or not WRITE_PRIMS.search(t["callee"]):
                continue
            tys = t.get("callee_disp", "") + " ".join(a.get("pl", {}).get("ty", "") for a in t["args"])
            # the archive's output sink: a BufWriter (over the file or over a local wrapper of it), i.e. what the `writer` field holds
            if re.search(r"BufWriter<", tys) and not re.search(r"BufWriter<(&mut )?(alloc::vec::Vec|std::io::Cursor|std::io::cursor::Cursor)", tys):
                prim.add(f.key)
    rep.floor("C15-E0", len(prim), 3, "Archive bodies that write or flush the output file (add_part, serialize, close)")
    W = {k for k, v in G.transitive(lambda k: k in prim).items() if v}
    # restrict to Result-returning functions for E1; Drop::drop is the frozen exception
    rep.stat("writers", sorted(W))
    for name in ("add_part_buffered",):
        k = arch + name
        rep.ob("C15-E0", "%s performs no I/O (buffers only)" % name, k in F.funcs and k not in W,
               detail="its errors cannot exist, so dropped results around it cannot hide a write failure",
               key="C15-E0 | %s | no io" % k)
    for f in F.find(r"ParallelWriteBuffer::(flush_to_archive|buffer_write)$"):
        rep.ob("C15-E0", "%s performs no I/O" % f.key.rsplit("::", 1)[-1], f.key not in W, site="%s:%d" % (f.file, f.line_lo),
               key="C15-E0 | %s | no io" % f.key)
    # who may call the immediate add_part in the pipeline crates
    callers = sorted(k for k in G.callers(arch + "add_part") if not k.startswith("ragc_common::archive::") and "legacy" not in k)
    reach = G.reachable([k for k in F.funcs if k.startswith(pipeline.SQC)] + [pipeline.CORE + "worker_thread"])
    bad = [k for k in callers if k in reach]
    rep.ob("C15-E0", "in the streaming pipeline the immediate add_part is reached only through flush_buffers", not bad,
           detail="direct callers inside the pipeline: %s" % bad, key="C15-E0 | add_part | who may call")

    # E5: a local io::Write implementation placed under the archive's writer must be faithful: `write` returns the count
    # the inner writer reported (a wrapper that returns buf.len() turns a short write at the end of the disk into success)
    nw = 0
    for f in F.funcs.values():
        if f.crate not in ("ragc_core", "ragc_common", "ragc") or f.d.get("test") or f.d.get("trait") != "std::io::Write" or not f.key.endswith("::write"):
            continue
        nw += 1
        exw = Exprs(f)
        inner = [bi for bi, t in f.calls() if not t.get("indirect") and (t.get("decl", "").endswith("io::Write::write") or re.search(r"io::Write>::write$|::write$", t["callee"]))]
        oks = []
        for b in f.blocks:
            for s_ in b["stmts"]:
                if s_["k"] == "assign" and s_["pl"]["l"] == 0 and not s_["pl"]["p"]:
                    e = exw.rvalue(s_["rv"])
                    if isinstance(e, tuple) and e[0] == "agg" and e[1].endswith("Result::Ok"):
                        oks.append(dict(e[2]).get("0"))
        faithful = bool(inner) and bool(oks) and all(contains(v, lambda x: isinstance(x, tuple) and x[0] == "call" and (x[1].endswith("::write") or "Try" in x[1] or "branch" in x[1])) or
                                                       (isinstance(v, tuple) and v[0] == "var") for v in oks) and \
            not any(contains(v, lambda x: isinstance(x, tuple) and x[0] == "call" and x[1].endswith("::len")) for v in oks)
        rep.ob("C15-E5", "%s returns the byte count its inner writer reported" % f.key, faithful,
               detail="Ok values: %s; inner write calls: %d" % ([fmt(v)[:60] for v in oks], len(inner)), site="%s:%d" % (f.file, f.line_lo), key="C15-E5 | %s | faithful count" % f.key)
    rep.stat("local_write_impls", nw)

    # E1: every call to a writer propagates its result
    n_sites = 0
    live = pipeline.live_scope(F, G)
    rep.stat("live_scope_bodies", len(live))
    for f in F.funcs.values():
        if f.key not in live:
            # outside what `ragc create` / the public compressor API can run: listed, not armed
            for bi, t in f.calls():
                if not t.get("indirect") and t["callee"] in W and t["dest"]["ty"].startswith("core::result::Result<"):
                    fate = result_fate(F, f, bi, t)
                    if not (fate in ("propagated", "returned")):
                        rep.note("outside the live scope: %s drops the result of %s (%s) at %s" % (f.key, t["callee"], fate, site_of(f, t)))
            continue
        for bi, t in f.calls():
            if t.get("indirect") or t["callee"] not in W:
                continue
            callee = F.funcs[t["callee"]]
            if not t["dest"]["ty"].startswith("core::result::Result<"):
                continue
            n_sites += 1
            fate = result_fate(F, f, bi, t)
            exc = f.d.get("trait") == "core::ops::drop::Drop"
            ok = fate in ("propagated", "returned") or exc
            # a writer called by a non-Result function that panics on error is also "reported"
            if fate == "handled:panics":
                ok = True
            rep.ob("C15-E1", "result of %s in %s" % (_short(t["callee"]), _short(f.key)), ok,
                   detail="fate: %s%s" % (fate, " (frozen exception: Drop cannot propagate; E2 makes it irrelevant on success paths)" if exc else ""),
                   site=site_of(f, t), how="table" if exc else "auto", key="C15-E1 | %s | %s" % (f.key, t["callee"]))
        # a std combinator that runs a closure which writes (try_for_each, try_fold, map + collect ...): the errors of the
        # closure come back as the combinator's result
        clos = {}
        for b in f.blocks:
            for s_ in b["stmts"]:
                if s_["k"] == "assign" and s_["rv"]["k"] == "agg" and s_["rv"].get("ak") == "closure" and not s_["pl"]["p"]:
                    clos[s_["pl"]["l"]] = s_["rv"]["closure"]
        for bi, t in f.calls():
            if t.get("indirect") or t["callee"] in F.funcs or not t["dest"]["ty"].startswith("core::result::Result<"):
                continue
            carried = [clos[a["pl"]["l"]] for a in t["args"] if a["k"] in ("move", "copy") and not a["pl"]["p"] and a["pl"]["l"] in clos and clos[a["pl"]["l"]] in W]
            for ck in carried:
                n_sites += 1
                fate = result_fate(F, f, bi, t)
                rep.ob("C15-E1", "result of %s carrying the write errors of its closure in %s" % (t["callee"].rsplit("::", 1)[-1], _short(f.key)),
                       fate in ("propagated", "returned"), detail="fate: %s" % fate, site=site_of(f, t),
                       key="C15-E1 | %s | %s via %s" % (f.key, ck.rsplit("::", 2)[-1], t["callee"].rsplit("::", 1)[-1]))
        # primitive writes inside the archive itself
        if f.key in prim:
            for bi, t in f.calls():
                if not t.get("indirect") and WRITE_PRIMS.search(t["callee"]):
                    n_sites += 1
                    fate = result_fate(F, f, bi, t)
                    rep.ob("C15-E1", "result of %s in %s" % (t["callee"].rsplit("::", 1)[-1], _short(f.key)),
                           fate in ("propagated", "returned"), detail="fate: %s" % fate, site=site_of(f, t),
                           key="C15-E1 | %s | prim %s" % (f.key, t["callee"].rsplit("::", 1)[-1]))
    rep.floor("C15-E1", n_sites, 12, "call sites of archive-writing functions")

    # E2: finalize
    fin = F.funcs.get(pipeline.SQC + "finalize")
    if rep.floor("C15-E2", 1 if fin else 0, 1, "finalize body"):
        g = cfg_of(fin)
        fl = [bi for bi, t in fin.calls() if is_call(t, re.escape(arch) + r"flush_buffers$")]
        cl = [bi for bi, t in fin.calls() if is_call(t, re.escape(arch) + r"close$")]
        rep.floor("C15-E2", len(fl), 1, "flush_buffers call in finalize")
        rep.floor("C15-E2", len(cl), 1, "close call in finalize")
        oks = _ok_return_blocks(fin)
        rep.floor("C15-E2", len(oks), 1, "Ok(()) return of finalize")
        for o in oks:
            for what, sites in (("flush_buffers", fl), ("close", cl)):
                ok = any(g.dominates(s, o) for s in sites)
                rep.ob("C15-E2", "every path of finalize to Ok passes %s" % what, ok,
                       site=_ok_site(fin, o), key="C15-E2 | finalize | Ok dominated by %s" % what)
        if fl and cl:
            rep.ob("C15-E2", "flush_buffers precedes close", g.dominates(fl[0], cl[0]), site=site_of(fin, fin.blocks[cl[0]]["term"]),
                   key="C15-E2 | finalize | flush before close")
    # close(): flush, then serialize; serialize: write footer, write length, flush last
    close = F.funcs.get(arch + "close")
    ser = F.funcs.get(arch + "serialize")
    if rep.floor("C15-E2", 1 if (close and ser) else 0, 1, "Archive::close and Archive::serialize"):
        g = cfg_of(close)
        sers = [bi for bi, t in close.calls() if t["callee"] == ser.key]
        fls = [bi for bi, t in close.calls() if not t.get("indirect") and t["callee"].endswith("::flush")]
        rep.ob("C15-E2", "close() flushes the writer before writing the footer",
               bool(sers) and any(g.dominates(x, sers[0]) or _guarded_before(g, x, sers[0]) for x in fls),
               site="%s:%d" % (close.file, close.line_lo), key="C15-E2 | close | flush before footer")
        gs = cfg_of(ser)
        w = [bi for bi, t in ser.calls() if not t.get("indirect") and t["callee"].endswith("::write_all") and "BufWriter" in t["callee_disp"]]
        fl2 = [bi for bi, t in ser.calls() if not t.get("indirect") and t["callee"].endswith("::flush")]
        oks = _ok_return_blocks(ser)
        ok = bool(w) and bool(fl2) and all(any(gs.dominates(x, o) for x in fl2) for o in oks) and \
            all(any(gs.dominates(wi, x) for x in fl2) for wi in w)
        rep.ob("C15-E2", "serialize() flushes after the footer and its length, before returning Ok", ok,
               detail="%d footer writes, %d flush" % (len(w), len(fl2)), site="%s:%d" % (ser.file, ser.line_lo),
               key="C15-E2 | serialize | flush last")
        rep.floor("C15-E2", len(w), 1, "footer writes in serialize")

    # E3: CLI
    cli = [f for f in F.funcs.values() if f.crate == "ragc" and f.kind in ("fn", "assocfn")]
    ncalls = 0
    for f in cli:
        for bi, t in f.calls():
            if t.get("indirect"):
                continue
            if re.search(r"StreamingQueueCompressor::(finalize|push|drain|sync_and_flush|with_splitters\w*|new)$", t["callee"]):
                ncalls += 1
                fate = result_fate(F, f, bi, t)
                rep.ob("C15-E3", "CLI propagates %s (in %s)" % (t["callee"].rsplit("::", 1)[-1], _short(f.key)),
                       fate in ("propagated", "returned"), detail="fate: %s" % fate, site=site_of(f, t),
                       key="C15-E3 | %s | %s" % (f.key, t["callee"].rsplit("::", 1)[-1]))
    rep.floor("C15-E3", ncalls, 4, "compressor API calls in the CLI")
    main = F.funcs.get("ragc::main")
    if rep.floor("C15-E3", 1 if main else 0, 1, "ragc::main"):
        rep.ob("C15-E3", "main returns a Result (non-zero exit status on Err)", returns_result(main),
               detail=main.d.get("sig", ""), key="C15-E3 | main | returns Result")
        for bi, t in main.calls():
            if not t.get("indirect") and re.match(r"ragc::\w+$", t["callee"]) and t["dest"]["ty"].startswith("core::result::Result<"):
                fate = result_fate(F, main, bi, t)
                rep.ob("C15-E3", "main propagates %s" % t["callee"], fate in ("propagated", "returned"), detail="fate: %s" % fate,
                       site=site_of(main, t), key="C15-E3 | main | %s" % t["callee"])
    # no exit(0)
    for f in cli:
        for bi, t in f.calls():
            if not t.get("indirect") and t["callee"].endswith("std::process::exit"):
                ex = Exprs(f)
                code = ex.operand(t["args"][0])
                rep.ob("C15-E3", "process::exit in %s uses a non-zero status" % _short(f.key), code != ("const", 0) and code[0] == "const",
                       detail="status %s" % fmt(code), site=site_of(f, t), key="C15-E3 | %s | exit status" % f.key)

    # E4: join results
    nj = 0
    for f in F.funcs.values():
        if not f.key.startswith(pipeline.SQC):
            continue
        for bi, t in f.calls():
            if is_call(t, pipeline.JOIN):
                nj += 1
                fate = result_fate(F, f, bi, t)
                # join() -> Result<Result<()>, Box<Any>>: expect(...) then `?`
                ok = fate in ("propagated", "returned", "handled:panics")
                inner = None
                if fate == "handled:panics":
                    # follow the unwrapped value
                    for b2, t2 in f.calls():
                        if not t2.get("indirect") and re.search(r"Result::<T, E>::(expect|unwrap)$", t2["callee"]) and \
                                t2["args"] and t2["args"][0].get("pl", {}).get("l") == t["dest"]["l"]:
                            inner = result_fate(F, f, b2, t2)
                    ok = inner in ("propagated", "returned")
                rep.ob("C15-E4", "worker result is joined and its inner Result propagated (%s)" % _short(f.key), ok,
                       detail="join fate: %s, inner: %s" % (fate, inner), site=site_of(f, t), key="C15-E4 | %s | join" % f.key)
    rep.floor("C15-E4", nj, 1, "JoinHandle::join sites")
    # notes: non-write error-dropping sites
    w = F.funcs.get(pipeline.CORE + "worker_thread")
    if w:
        for bi, t in w.calls():
            if t.get("indirect") or not t["dest"]["ty"].startswith("core::result::Result<"):
                continue
            if t.get("decl") == "core::ops::try_trait::Try::branch":
                continue
            fate = result_fate(F, w, bi, t)
            if fate.startswith("dropped"):
                inW = t["callee"] in W
                rep.note("worker drops the result of %s (%s) at %s; it %s reach an archive write"
                         % (_short(t["callee"]), fate, site_of(w, t), "CAN" if inW else "cannot"))


def _short(k):
    return k.split("::", 1)[-1]


def _ok_return_blocks(f):
    out = []
    for bi, b in enumerate(f.blocks):
        if b["cleanup"]:
            continue
        for s in b["stmts"]:
            if s["k"] == "assign" and s["pl"]["l"] == 0 and not s["pl"]["p"] and s["rv"]["k"] == "agg" and \
                    s["rv"].get("adt") == "core::result::Result" and s["rv"]["var"] == "Ok":
                out.append(bi)
    return out


def _ok_site(f, bi):
    for s in f.blocks[bi]["stmts"]:
        if s["k"] == "assign" and s["pl"]["l"] == 0:
            return site_of(f, s)
    return site_of(f, f.blocks[bi]["term"])


def _guarded_before(g, x, s):
    """x is in an `if let Some(writer)` arm that rejoins before s: every path to s from the
    arm's condition either passes x or skips it because there is no writer"""
    return any(g.dominates(d, s) and x in g.reachable_from(d) and g.can_reach([s]) >= {x} for d in g.dom().get(x, ()))
