"""C01 — lossless round trip: the write-side / read-side agreements it needs (DESIGN 4/C01)."""
import re

from absint import Undecidable
from cfg import cfg_of
from expr import Exprs, fmt, walk, contains, strip_tags
from mirutil import is_call, dominating_conds, cond_bool, for_loops
from framework import site_of, Report
import callgraph as cgmod
import pipeline
import symbols

EXPLANATION = (
    "The behaviour (extracted bases = input bases for all sample sets and parameters) is a statement about runtime "
    "data and is not decided.  Decided are the agreements between the write side and the read side that the round "
    "trip needs: (RC) every per-base map applied under a reversing iterator to segment bytes, on the compress side "
    "and in the reader, is the same table: 0<->3, 1<->2 and the identity on every other code (so N and IUPAC codes "
    "survive re-orientation); (OVL) the segmenter's overlap, the reader's skipped prefix / subtracted overlap in "
    "reconstruct_contig, get_contig_length and get_contig_range, the k handed to the segmenter and the first word "
    "of the params stream all come from one source (config.k / the stored k) with no arithmetic in between, and "
    "the first/non-first test is `index == 0`; (EMPTY) an empty LZ delta is recorded as in-group id 0 only under "
    "LZ encoding, and the reader returns the cached reference for id 0 and for an empty unpacked delta; (ID) the "
    "id-to-pack addressing rules of C02 and (ALPHA) the literal alphabet rule of C09 are run here as well; (SPLIT) a segment cut in "
    "two at a missing splitter gives parts that overlap by exactly k bases for every k in 1..=32 (index arithmetic evaluated with exact "
    "integer division), and the cutter is handed config.k.")
UNDECIDED = ("that grouping, split positions, delta de-duplication and LZ matching compute the right data; "
             "seg_part_no renumbering; everything inside the LZ matcher")

DEC = "ragc_core::decompressor::Decompressor::"


def run(F, rep):
    rep.explanation = EXPLANATION
    rep.undecided = UNDECIDED
    rep.assumptions = ["finite-domain evaluation of per-base maps is exact", "Vec/slice operations have their std meaning"]
    G = cgmod.CallGraph(F)
    live = pipeline.live_scope(F, G)
    rc_rule(F, rep, live)

    # ------------------------------------------------------------ OVL
    # (a) writer overlap: C10-S1 on the segmenter the worker calls
    from rules import c10
    sub = Report(rep.pid, rep.tier)
    c10.run(F, sub)
    for o in sub.obligations:
        if o["rule"] == "C10-S1":
            rep.ob("C01-OVL", "writer: " + o["instance"], o["ok"], detail=o["detail"], site=o["site"], key=o["key"].replace("C10-S1", "C01-OVL"))
    # (c) k handed to the segmenter is config.k
    w = F.funcs.get(pipeline.CORE + "worker_thread")
    nk = 0
    if w:
        ex = Exprs(w)
        for bi, t in w.calls():
            if not t.get("indirect") and t["callee"].endswith("segment::split_at_splitters_with_size"):
                nk += 1
                k = strip_tags(ex.operand(t["args"][2]))
                rep.ob("C01-OVL", "the worker hands config.k to the segmenter", k == ("field", ("param", "config"), "k"), detail=fmt(k), site=site_of(w, t),
                       key="C01-OVL | worker | k argument #%d" % nk)
    rep.floor("C01-OVL", nk, 2, "segmenter calls in the worker")
    ctor = F.funcs.get(pipeline.SQC + "with_splitters_internal")
    if ctor:
        ex = Exprs(ctor)
        first = None
        for bi, t in sorted(ctor.calls()):
            if not t.get("indirect") and t["callee"].endswith("extend_from_slice"):
                a = ex.operand(t["args"][1])
                if isinstance(a, tuple) and a[0] == "call" and a[1].endswith("to_le_bytes"):
                    first = strip_tags(a[2][0])
                    break
        rep.ob("C01-OVL", "the first word of the params stream is config.k", first == ("field", ("param", "config"), "k"), detail=fmt(first),
               key="C01-OVL | params | first word")
    # (d) reader's kmer_length: load_params returns (segment_size, kmer_length, min_match_len); open stores field 1
    lp, op = F.funcs.get(DEC + "load_params"), F.funcs.get(DEC + "open")
    if lp and op:
        exl = Exprs(lp)
        order = None
        for b in lp.blocks:
            for s in b["stmts"]:
                if s["k"] == "assign" and s["pl"]["l"] == 0 and not s["pl"]["p"]:
                    e = exl.rvalue(s["rv"])
                    if "Result::Ok" in repr(e):
                        tup = dict(e[2]).get("0")
                        if isinstance(tup, tuple) and tup[0] == "agg":
                            order = [fmt(strip_tags(x[1])) for x in tup[2]]
        idx = None
        if order:
            for i, o in enumerate(order):
                if "from_le_bytes" in o and "0)" in o and "1)" in o and "index" in o and ", 3)" in o and ", 4)" not in o:
                    idx = i
        exo = Exprs(op)
        stored = None
        for b in op.blocks:
            for s in b["stmts"]:
                if s["k"] == "assign" and s["rv"]["k"] == "agg" and s["rv"].get("adt", "").endswith("decompressor::Decompressor"):
                    d = dict(zip(s["rv"]["fields"], [exo.operand(o) for o in s["rv"]["ops"]]))
                    stored = strip_tags(d.get("kmer_length"))
        okd = stored is not None and idx is not None and fmt(stored).endswith(".%d" % idx) and "load_params" in fmt(stored)
        rep.ob("C01-OVL", "the reader's k is the first word of the params stream", bool(okd), detail="load_params returns %s; Decompressor.kmer_length = %s" % (order and [o[:40] for o in order], fmt(stored)),
               key="C01-OVL | reader | k source")
    # (b) readers use exactly that k, and `index == 0` as the first-segment test
    for name, kind in (("reconstruct_contig", "skip"), ("get_contig_length", "sub"), ("get_contig_range", "sub")):
        f = F.funcs.get(DEC + name)
        if not rep.floor("C01-OVL", 1 if f else 0, 1, "reader " + name):
            continue
        ex = Exprs(f)
        kexprs = set()
        tests = set()
        uses = 0
        for bi, b in enumerate(f.blocks):
            for s in b["stmts"]:
                if s["k"] != "assign" or s["sp"].get("exp"):
                    continue
                e = strip_tags(ex.rvalue(s["rv"]))
                for x in walk(e):
                    if isinstance(x, tuple) and x[0] == "bin" and x[1] == "Sub" and "raw_length" in fmt(x[2]):
                        kexprs.add(fmt(x[3]))
                        uses += 1
                        for c in dominating_conds(f, bi, ex):
                            if cond_bool(c[1], c[2]) is not None and re.search(r"Eq\(0, .*\.0\)|Eq\(.*\.0, 0\)|Eq\(0, seg_idx\)", fmt(strip_tags(c[0]))):
                                tests.add((fmt(strip_tags(c[0])), cond_bool(c[1], c[2])))
            t = b["term"]
            if t["k"] == "call" and not t.get("indirect") and not t["sp"].get("exp"):
                # segment_data[overlap..]
                for a in t["args"]:
                    e = strip_tags(ex.operand(a))
                    for x in walk(e):
                        if isinstance(x, tuple) and x[0] == "agg" and x[1].startswith("core::ops::range::RangeFrom") and "segment_data" in fmt(e):
                            kexprs.add(fmt(dict(x[2]).get("start")))
                            uses += 1
                            for c in dominating_conds(f, bi, ex):
                                if cond_bool(c[1], c[2]) is not None and re.search(r"Eq\(0, .*\.0\)|Eq\(.*\.0, 0\)", fmt(strip_tags(c[0]))):
                                    tests.add((fmt(strip_tags(c[0])), cond_bool(c[1], c[2])))
        okk = bool(kexprs) and all(k == "self.kmer_length" for k in kexprs)
        okt = bool(tests) and all(v is False for _, v in tests)
        rep.ob("C01-OVL", "reader %s removes exactly the stored k from every non-first segment (first = index 0)" % name, okk and okt,
               detail="overlap expressions %s; first-segment tests %s" % (sorted(kexprs), sorted(tests)), site="%s:%d" % (f.file, f.line_lo),
               key="C01-OVL | reader %s | overlap = k" % name)
    # get_contig_range also skips kmer_len inside the segment for non-first segments
    gr = F.funcs.get(DEC + "get_contig_range")
    if gr:
        ex = Exprs(gr)
        vals = set()
        allv = []
        for l, n in gr.local_names().items():
            if gr.locals[l]["ty"] != "usize":
                continue
            vs = {fmt(strip_tags(ex.rvalue(d[3]))) for d in ex.defs.get(l, []) if d[0] == "rv"}
            if "self.kmer_length" in vs:
                allv.append(vs)
        # the contribution start is the local that is either 0 (first segment) or k
        vals = allv[0] if len(allv) == 1 else set().union(*allv) if allv else set()
        rep.ob("C01-OVL", "range reader starts a non-first segment's contribution at byte k", vals == {"0", "self.kmer_length"}, detail=str(sorted(vals)),
               key="C01-OVL | reader get_contig_range | contribution start")

    # ------------------------------------------------------------ EMPTY
    nb = 0
    for f in F.funcs.values():
        if f.key not in live or not f.key.startswith("ragc_core::agc_compressor::"):
            continue
        ex = None
        for bi, t in f.calls():
            if t.get("indirect") or not t["callee"].endswith("Vec::<T, A>::push") or t["sp"].get("exp"):
                continue
            ex = ex or Exprs(f)
            # bool locals defined as `group_id >= 16` (the raw/LZ selector)
            lzflags = {n for l, n in f.local_names().items() if f.locals[l]["ty"] == "bool" and
                       any(d[0] == "rv" and re.fullmatch(r"Le\(16, .*group_id\)", fmt(strip_tags(ex.rvalue(d[3])))) for d in ex.defs.get(l, []))}
            a0 = t["args"][0]
            rty = f.locals[a0["pl"]["l"]]["ty"] if a0["k"] in ("copy", "move") else ""
            if not rty.endswith("Vec<(usize, u32)>"):
                continue            # the per-pack list of (segment index, in-group id) records
            v = ex.operand(t["args"][1])
            if isinstance(v, tuple) and v[0] == "agg" and dict(v[2]).get("1") == ("const", 0):
                nb += 1
                conds = [(fmt(strip_tags(c[0])), cond_bool(c[1], c[2])) for c in dominating_conds(f, bi, ex)]
                lz = any((re.fullmatch(r"Le\(16, .*group_id\)", c) or (c in lzflags)) and val is True for c, val in conds)
                empty = any(re.fullmatch(r"Vec::is_empty\((\w+|[\w.]*contig_data)\)", c) and val is True for c, val in conds)
                rep.ob("C01-EMPTY", "writer %s records in-group id 0 only for an empty LZ delta" % f.key.split("::", 1)[-1], lz and empty,
                       detail="guards %s" % [c for c in conds if c[1] is not None][-3:], site=site_of(f, t), key="C01-EMPTY | %s | id 0" % f.key)
    rep.floor("C01-EMPTY", nb, 2, "writer sites that record in-group id 0 for a delta")
    gs = F.funcs.get(DEC + "get_segment")
    if gs:
        ex = Exprs(gs)
        ok0 = okE = False
        for bi, b in enumerate(gs.blocks):
            for s in b["stmts"]:
                if s["k"] == "assign" and s["pl"]["l"] == 0 and not s["pl"]["p"]:
                    e = fmt(strip_tags(ex.rvalue(s["rv"])))
                    conds = [(fmt(strip_tags(c[0])), cond_bool(c[1], c[2])) for c in dominating_conds(gs, bi, ex)]
                    if ("Eq(0, desc.in_group_id)", True) in conds and "segment_cache" in e and "clone" in e:
                        ok0 = True
        for l, n in gs.local_names().items():
            dvals = [fmt(strip_tags(ex.rvalue(d[3]) if d[0] == "rv" else ex.call(d[3]))) for d in ex.defs.get(l, []) if d[0] != "partial"]
            if any("LZDiff::decode" in v for v in dvals) and len(dvals) >= 2:
                vals = []
                for d in ex.defs.get(l, []):
                    v = ex.rvalue(d[3]) if d[0] == "rv" else ex.call(d[3])
                    vals.append(fmt(strip_tags(v)))
                okE = any(v.startswith("clone(") and "segment_cache" in v for v in vals) and any("LZDiff::decode" in v for v in vals)
                # and the clone arm is the one taken when the unpacked delta is empty
                for d in ex.defs.get(l, []):
                    if d[0] == "call" and "clone" in d[3]["callee"]:
                        conds = [(fmt(strip_tags(c[0])), cond_bool(c[1], c[2])) for c in dominating_conds(gs, d[1], ex)]
                        okE = okE and any(c.startswith("Vec::is_empty(") and "unpack_contig" in c and v is True for c, v in conds)
        rep.ob("C01-EMPTY", "reader returns the cached reference for in-group id 0", ok0, site="%s:%d" % (gs.file, gs.line_lo), key="C01-EMPTY | reader | id 0")
        rep.ob("C01-EMPTY", "reader decodes an empty delta as a copy of the reference", okE, key="C01-EMPTY | reader | empty delta")

    # ------------------------------------------------------------ PAIR: parallel per-pack vectors move together
    pair_rule(F, rep, live)

    # ------------------------------------------------------------ SPLIT: a segment cut in two overlaps by exactly k
    split_rule(F, rep, live)

    # ------------------------------------------------------------ ID / ALPHA (shared rules)
    from rules import c02, c09
    sub = Report(rep.pid, rep.tier)
    c02.run(F, sub)
    for o in sub.obligations:
        if o["rule"] in ("C02-IDMAP", "C02-CARD", "C02-SEP", "C02-PLACEHOLDER"):
            rep.ob("C01-ID", o["instance"], o["ok"], detail=o["detail"], site=o["site"], key=o["key"].replace("C02-", "C01-ID/"))
        # the segment descriptors (which group, which in-group id) are part of the round trip: their codec clauses are shared (C02-PRED = C03-PRED)
        if o["rule"] in ("C02-PRED", "C02-SIB", "C02-META"):
            rep.ob("C01-DESC", o["instance"], o["ok"], detail=o["detail"], site=o["site"], how=o["how"], key=o["key"].replace("C02-", "C01-DESC/"))
    # (READER) extraction walks all samples on one reader handle: what a query leaves behind must not change a later answer
    # (C08's effect clauses: queries write only caches, single cache filler, no stale or partial cache entries, idempotent loader)
    from rules import c08
    sub = Report(rep.pid, rep.tier)
    sub.cfg = getattr(rep, "cfg", "dev")
    c08.run(F, sub)
    nrd = 0
    for o in sub.obligations:
        if o["rule"] in ("C08-H1", "C08-H2", "C08-H3", "C08-H8"):
            nrd += 1
            rep.ob("C01-READER", o["instance"], o["ok"], detail=o["detail"], site=o["site"], how=o["how"], key=o["key"].replace(o["rule"], "C01-READER/" + o["rule"][4:]))
    rep.floor("C01-READER", nrd, 20, "reader-state clauses shared with C08")
    # (INPUT) "plain or gzip, any line wrapping, one file per sample or one PanSN file": what reaches the compressor is the whole
    # input - every gzip member (C19-G1), every sequence line (G3), the sample its header names (G8/G9)
    from rules import c19
    sub19 = type(rep)(rep.pid, rep.tier)
    sub19.cfg = getattr(rep, "cfg", "dev")
    c19.run(F, sub19)
    nin = 0
    for o in sub19.obligations:
        if o["rule"] in ("C19-G1", "C19-G3", "C19-G8", "C19-G9"):
            nin += 1
            rep.ob("C01-INPUT", o["instance"], o["ok"], detail=o["detail"], site=o["site"], how=o["how"], key=o["key"].replace(o["rule"], "C01-INPUT/" + o["rule"][4:]))
    rep.floor("C01-INPUT", nin, 8, "input-reading clauses shared with C19")
    from rules import c16 as c16r
    c16r.read_fate_rule(F, rep, "C01-INPUT")          # ... and a failing read ends create with an error, not the input
    if getattr(F, "cfg", "dev") == "dev":
        from rules import c03 as c03v
        c03v.vint_rule(F, rep, "C01-DESC", want=("rt",))       # raw lengths and ids of the descriptors travel through this code
        c03v.zz_rule(F, rep, "C01-DESC")                       # ... and through the predictive zigzag code
    c09.alpha_rules(F, rep, "C01")
    c09.empty_rules(F, rep, "C01")     # "empty delta = copy of the reference" is only sound if the encoder emits it for equal segments only
    c09.pred_rules(F, rep, "C01")
    c09.back_rules(F, rep, "C01")
    c09.roll_rules(F, rep, "C01")
    c09.nrun_rules(F, rep, "C01")      # symbols swallowed into an N-run come back as N
    # (PACK) reference segments of LZ groups are stored tuple-packed: the packer must invert on every alphabet (C12-TP4)
    if getattr(F, "cfg", "dev") == "dev":
        from rules import c12
        if F.funcs.get(c12.TP + "bytes_to_tuples") and F.funcs.get(c12.TP + "tuples_to_bytes"):
            c12.tp4_rule(F, rep, "C01-PACK", want=("rt",))      # a stale rolling key code lets the encoder emit a match over symbols it never compared      # the LZ encoder's backward-extension budget: a delta that decodes short breaks the round trip


GROW = re.compile(r"Vec::<T, A>::(push|insert|extend\w*|append)$")
RESET = re.compile(r"Vec::<T, A>::(clear|truncate|drain)$|core::mem::(take|replace|swap)")


def pair_rule(F, rep, live):
    """pending_deltas (the deltas waiting for the current pack) and pending_delta_ids (their in-group ids) are
    parallel vectors: the per-pack de-duplication looks an id up at the index of the matching delta.  Every body
    that grows or resets one of them must grow / reset the other on the same paths."""
    A_, B_ = "pending_deltas", "pending_delta_ids"
    nfun = 0
    for k in sorted(live):
        f = F.funcs[k]
        if f.crate != "ragc_core":
            continue
        ex = None
        ev = {(A_, "grow"): [], (A_, "reset"): [], (B_, "grow"): [], (B_, "reset"): []}
        for bi, t in f.calls():
            if t.get("indirect") or t["sp"].get("exp"):
                continue
            kind = "grow" if GROW.search(t["callee"]) else ("reset" if RESET.search(t["callee"]) else None)
            if kind is None or not t["args"]:
                continue
            ex = ex or Exprs(f)
            recv = strip_tags(ex.operand(t["args"][0]))
            for name in (A_, B_):
                if isinstance(recv, tuple) and recv[0] == "field" and recv[2] == name:
                    ev[(name, kind)].append((bi, t))
        if not any(ev.values()):
            continue
        nfun += 1
        g = cfg_of(f)
        for kind in ("grow", "reset"):
            xs, ys = ev[(A_, kind)], ev[(B_, kind)]
            ok = len(xs) == len(ys)
            why = "%d %s site(s) on %s, %d on %s" % (len(xs), kind, A_, len(ys), B_)
            if ok:
                # each site on one vector has a partner on the other that always runs with it
                for (xb, xt) in xs:
                    if not any(g.dominates(xb, yb) and g.postdominates(yb, xb) or g.dominates(yb, xb) and g.postdominates(xb, yb) or xb == yb for yb, _ in ys):
                        ok = False
                        why += "; the %s at %s has no partner on the same paths" % (kind, site_of(f, xt))
            rep.ob("C01-PAIR", "%s: %s and %s are %s together" % (k.split("::", 1)[-1], A_, B_, "extended" if kind == "grow" else "reset"), ok, detail=why,
                   site=site_of(f, (xs or ys)[0][1]) if (xs or ys) else "%s:%d" % (f.file, f.line_lo), key="C01-PAIR | %s | %s" % (k, kind))
    rep.floor("C01-PAIR", nfun, 2, "bodies that maintain the per-pack delta / id vectors")


class _NotLinear(Exception):
    pass


def _lin(e, env):
    """linear form {atom: coeff, None: const} of an index expression, *unclamped*: saturating/wrapping arithmetic is
    plain arithmetic and min(x, len(..)) is x (the cut lies inside the segment).  Parameters in env are numbers."""
    e = strip_tags(e)
    if isinstance(e, tuple):
        if e[0] == "const" and isinstance(e[1], int):
            return {None: e[1]}
        if e[0] == "param" and e[1] in env:
            return {None: env[e[1]]}
        if e[0] == "bin" and e[1] in ("Add", "Sub"):
            a, b = _lin(e[2], env), _lin(e[3], env)
            sg = 1 if e[1] == "Add" else -1
            out = dict(a)
            for k, v in b.items():
                out[k] = out.get(k, 0) + sg * v
            return out
        if e[0] == "bin" and e[1] in ("Mul", "Div", "Rem", "Shr", "Shl"):
            a, b = _lin(e[2], env), _lin(e[3], env)
            ca = a.get(None, 0) if set(a) <= {None} else None
            cb = b.get(None, 0) if set(b) <= {None} else None
            if e[1] == "Mul" and (ca is not None or cb is not None):
                c, o = (ca, b) if ca is not None else (cb, a)
                return {k: v * c for k, v in o.items()}
            if ca is not None and cb is not None:
                if e[1] == "Div" and cb != 0:
                    return {None: ca // cb}
                if e[1] == "Rem" and cb != 0:
                    return {None: ca % cb}
                if e[1] == "Shr":
                    return {None: ca >> cb}
                if e[1] == "Shl":
                    return {None: ca << cb}
            raise _NotLinear(fmt(e))
        if e[0] == "call":
            c, args = e[1], e[2]
            if re.search(r"::(saturating_sub|wrapping_sub|checked_sub)$", c) and len(args) == 2:
                return _lin(("bin", "Sub", args[0], args[1]), env)
            if re.search(r"::(saturating_add|wrapping_add|checked_add)$", c) and len(args) == 2:
                return _lin(("bin", "Add", args[0], args[1]), env)
            if re.search(r"cmp::(Ord::)?min$", c) and len(args) == 2:
                isl = [contains(a, lambda x: isinstance(x, tuple) and x[0] == "call" and x[1].endswith("::len")) and
                       strip_tags(a)[0] == "call" and strip_tags(a)[1].endswith("::len") for a in args]
                if isl[0] != isl[1]:
                    return _lin(args[1] if isl[0] else args[0], env)
                raise _NotLinear(fmt(e))
            if re.search(r"Option::<T>::(unwrap|expect|unwrap_or)$", c) and args:
                return _lin(args[0], env)
    return {fmt(e): 1}


def split_rule(F, rep, live):
    """Bodies that cut one segment into a left and a right copy (return (Vec<u8>, Vec<u8>) built from data[..E] and
    data[S..] of the same slice): the reader drops exactly k leading bases of every non-first segment, so the two
    parts must share exactly k bases: E - S = k for every k in 1..=32 wherever the cut lies inside the segment
    (saturation / clamping to the segment's ends aside), k being the parameter that the callers fill with config.k."""
    n = 0
    for key in sorted(live):
        f = F.funcs[key]
        if f.crate != "ragc_core" or f.kind != "fn" or not re.fullmatch(r"\(alloc::vec::Vec<u8>, alloc::vec::Vec<u8>\)", f.locals[0]["ty"]):
            continue
        ex = Exprs(f)
        S = E = None
        base = set()
        for bi, t in f.calls():
            if t.get("indirect") or not t["callee"].endswith("for [T]>::index") or len(t.get("gargs", [])) < 2:
                continue
            rng = strip_tags(ex.operand(t["args"][1]))
            b0 = strip_tags(ex.operand(t["args"][0]))
            if not (isinstance(rng, tuple) and rng[0] == "agg"):
                continue
            flds = dict(rng[2])
            if "RangeFrom" in rng[1] and "start" in flds:
                S = flds["start"]
                base.add(fmt(b0))
            elif "RangeTo" in rng[1] and "end" in flds:
                E = flds["end"]
                base.add(fmt(b0))
        if S is None or E is None or len(base) != 1:
            continue
        n += 1
        names = f.arg_names()
        cands = [names[i] for i in range(1, f.d["arg_count"] + 1) if f.locals[i]["ty"] == "usize" and i in names]
        kname, fails = None, {}
        for c in cands:
            bad = None
            for kv in range(1, 33):
                try:
                    d = _lin(("bin", "Sub", E, S), {c: kv})
                except _NotLinear as x:
                    bad = "k=%d: cannot evaluate %s" % (kv, x)
                    break
                d = {a: v for a, v in d.items() if v}
                if d != {None: kv}:
                    bad = "k=%d: left part ends at %s, right part starts at %s: they share %s bases" % (
                        kv, fmt(strip_tags(E)), fmt(strip_tags(S)), " + ".join("%s*%s" % (v, a) if a else str(v) for a, v in sorted(d.items(), key=str)) or "0")
                    break
            if bad is None:
                kname = c
                break
            fails[c] = bad
        rep.ob("C01-SPLIT", "%s: the two parts of a cut segment overlap by exactly k bases for every k in 1..=32" % key.split("::", 1)[-1], kname is not None,
               detail=("overlap = parameter `%s`" % kname) if kname else "; ".join("as k=`%s`: %s" % (c, w) for c, w in fails.items())[:600],
               site="%s:%d" % (f.file, f.line_lo), key="C01-SPLIT | %s | overlap" % key)
        if kname is None:
            continue
        pos = [i for i, nm in names.items() if nm == kname][0] - 1
        for ck in sorted(live):
            cf = F.funcs[ck]
            cex = None
            for bi, t in cf.calls():
                if t.get("indirect") or t["callee"] != key:
                    continue
                cex = cex or Exprs(cf)
                a = strip_tags(cex.operand(t["args"][pos]))
                ok = isinstance(a, tuple) and a[0] == "field" and a[2] in ("k", "kmer_length")
                rep.ob("C01-SPLIT", "%s passes the archive's k as the overlap of %s" % (ck.split("::", 1)[-1], key.rsplit("::", 1)[-1]), ok, detail=fmt(a),
                       site=site_of(cf, t), key="C01-SPLIT | %s | k argument of %s" % (ck, key.rsplit("::", 1)[-1]))
    rep.floor("C01-SPLIT", n, 1, "live bodies that cut a segment into two overlapping parts (split_segment_at_position)")


def rc_rule(F, rep, live=None):
    if live is None:
        G = cgmod.CallGraph(F)
        live = pipeline.live_scope(F, G)
    maps = symbols.rc_maps(F, live)
    want = {c: (3 - c if c < 4 else c) for c in range(256)}
    nw = nr = 0
    for c, parent, tab, site in maps:
        side = "reader" if parent.startswith("ragc_core::decompressor") else "writer"
        if "lz_diff" in parent:
            side = "debug"
        if side == "reader":
            nr += 1
        elif side == "writer":
            nw += 1
        diff = {k: (tab.get(k), want[k]) for k in want if tab.get(k) != want[k]} if "error" not in tab else tab
        lost = sorted(k for k in diff if isinstance(k, int) and k >= 4)
        rep.ob("C01-RC", "per-base map in %s (%s side) complements A/C/G/T and keeps every other code" % (parent.split("::", 1)[-1], side), not diff,
               detail=("codes %s are not preserved (e.g. %s): ambiguity codes in a re-oriented segment are read back changed" % (lost[:8], dict(list(diff.items())[:3])))
               if diff else "identical to the reader's table", site=site, key="C01-RC | %s | table" % c.key)
    rep.floor("C01-RC", nw, 2, "write-side per-base maps under a reversing iterator (pre-computed data_rc, split halves)")
    rep.floor("C01-RC", nr, 1, "read-side per-base map")
    # who is used where: the helpers that re-orient split halves must be one of the tabulated maps
    for f in F.funcs.values():
        if f.key not in live or not f.key.startswith("ragc_core::agc_compressor::"):
            continue
        for bi, t in f.calls():
            if not t.get("indirect") and re.search(r"kmer::reverse_complement$", t["callee"]) and f.kind == "closure":
                # the 2-bit k-mer table applied to segment bytes
                rep.ob("C01-RC", "segment bytes are not complemented through the 2-bit k-mer table (which maps every code >= 4 to 4)",
                       f.key not in [c.key for c, _, _, _ in maps], site=site_of(f, t), key="C01-RC | %s | uses 2-bit table" % f.key)

