"""C09 — LZ-diff decode inverts encode: the alphabet clause (DESIGN 4/C09, C09-ALPHA)."""
import re

from absint import Undecidable, tabulate
from cfg import cfg_of
from expr import Exprs, fmt, walk, contains, strip_tags
from mirutil import is_call, dominating_conds, cond_bool, for_loops
from framework import site_of
import callgraph as cgmod
import symbols

EXPLANATION = (
    "Alphabet clause of the LZ-diff codec, decided from tables extracted out of the MIR and the constants: the "
    "symbol domain S is the image of the input table on the bytes the FASTA reader keeps; every byte the "
    "encoder can append (constants, 'A'+symbol, '0'+(x%10), the '!' rewrite) is collected as a value set; the "
    "decoder's dispatch (is_literal, N-run starter test, fall-through match class) is tabulated over all 256 "
    "bytes by finite-domain evaluation of the IR.  Required: literal bytes are a subset of the decoder's "
    "literal class and decode back to their symbol; the three classes are disjoint on the encoder alphabet; "
    "digits, '-', ',' and '.' fall in the match class only; 0xFF (the pack separator) is not in the alphabet; "
    "the encoder's '!'-rewrite scan range contains no non-literal encoder byte.  (ROLL) the rolling key code of the scanning loops is refreshed on every path through an iteration; (PRED/BACK/EMPTY) as described in DESIGN 11.5.")
UNDECIDED = ("everything else in C09: evolution of pred_pos, match-to-end elision, backward extension, hash matching; "
             "i.e. that decode(encode(t)) == t for all (reference, target, min match)")

LZ = "ragc_core::lz_diff::LZDiff::"


def encoder_alphabet(F, S, rep=None):
    """value sets of every byte appended to the output by LZDiff::encode and its helpers"""
    G = cgmod.CallGraph(F)
    enc = F.funcs.get(LZ + "encode")
    if enc is None:
        return None
    _note_outputs(F)
    fam = [k for k in G.reachable([enc.key]) if k.startswith(LZ) and F.funcs[k].kind == "assocfn"]
    classes = {}   # name -> set
    sites = []
    for k in sorted(fam):
        f = F.funcs[k]
        exk = Exprs(f, keep_casts=True)
        ex = Exprs(f)
        for bi, t in f.calls():
            if t.get("indirect") or not re.search(r"Vec::<u8>::push$|Vec::<T, A>::push$", t["callee"]):
                continue
            if "u8" not in t.get("callee_disp", ""):
                continue
            if t["sp"].get("exp"):
                continue
            recv = ex.operand(t["args"][0])
            if not _is_output(recv):
                continue
            e = exk.operand(t["args"][1])
            env = {}
            for l, n in f.arg_names().items():
                if f.locals[l]["ty"] == "u8":
                    env[n] = set(S)          # a u8 parameter of an emitter is a symbol (checked at call sites below)
            vs = symbols.valset(e, env)
            if vs is None:
                # bound the opaque variables by the guards that dominate the push (`x < 10`, `x < 100`, ...)
                env2 = dict(env)
                env2.update(symbols.guard_env(f, bi, ex, e))
                vs = symbols.valset(e, env2)
            sites.append((f, t, e, vs))
        # in-place rewrite through index_mut: (*ptr) = const
        for bi, b in enumerate(f.blocks):
            for s in b["stmts"]:
                if s["k"] == "assign" and s["pl"]["p"] == ["deref"] and s["pl"]["ty"] == "u8" and not s["sp"].get("exp"):
                    src = ex.local(s["pl"]["l"])
                    if contains(src, lambda x: isinstance(x, tuple) and x[0] == "call" and x[1].endswith("index_mut")) and \
                            contains(src, lambda x: _is_output(x)):
                        vs = symbols.valset(exk.rvalue(s["rv"]), {})
                        sites.append((f, s, exk.rvalue(s["rv"]), vs))
    return sites


OUTS = {"encoded", "text"}      # output-buffer parameters of the emitters; encode's own buffer local is added per run


def _note_outputs(F):
    """the encoder's output buffer is whichever named Vec<u8> local of LZDiff::encode is handed to the emitters"""
    enc = F.funcs.get(LZ + "encode")
    if enc is None:
        return
    for k, f in F.funcs.items():
        if k.startswith(LZ) and f.kind == "assocfn":
            for l, n in f.arg_names().items():
                if f.locals[l]["ty"].replace(" ", "") == "&mutalloc::vec::Vec<u8>":
                    OUTS.add(n)
    ex = Exprs(enc)
    for bi, t in enc.calls():
        if not t.get("indirect") and t["callee"].startswith(LZ) and t["args"]:
            for a in t["args"][1:]:
                if a["k"] in ("copy", "move") and enc.locals[a["pl"]["l"]]["ty"].replace(" ", "") == "&mutalloc::vec::Vec<u8>":
                    e = ex.operand(a)
                    if isinstance(e, tuple) and e[0] == "var":
                        OUTS.add(e[1])


def _is_output(e):
    return isinstance(e, tuple) and ((e[0] in ("param", "var") and e[1] in OUTS) or
                                     (e[0] == "index" and _is_output(e[1])))


def _indexed(e):
    """base of an indexing expression (place projection or Index::index call), else None"""
    if isinstance(e, tuple) and e[0] == "index":
        return e[1]
    if isinstance(e, tuple) and e[0] == "call" and re.search(r"Index(Mut)?(<[^>]*>)?>::index(_mut)?$", e[1]) and e[2]:
        return e[2][0]
    return None


def run(F, rep):
    rep.explanation = EXPLANATION
    rep.undecided = UNDECIDED
    rep.assumptions = ["finite-domain evaluation of the IR of is_literal/decode_literal and of the FASTA byte filter is exact (unsupported constructs fail closed)",
                       "the LZ encoder is applied to sequences over the symbol domain produced by the FASTA reader"]
    alpha_rules(F, rep, "C09")
    back_rules(F, rep)
    pred_rules(F, rep)
    empty_rules(F, rep)
    roll_rules(F, rep)
    nrun_rules(F, rep)


def roll_rules(F, rep, pid="C09"):
    """C09-ROLL: the scanning loops keep a rolling hash-key code of the previous window and roll it forward by one symbol
    (get_code_skip1) instead of recomputing it.  That is sound only if the stored code is refreshed in EVERY iteration with
    the code (or the absence of a code) of the window just examined: if an iteration can reach the next one without
    assigning it - e.g. the `no valid code here` branch - a stale code is rolled forward and a hash hit is taken for a
    match over symbols that were never compared."""
    R = pid + "-ROLL"
    n = 0
    for f in F.funcs.values():
        if not f.key.startswith(LZ) or f.kind != "assocfn" or f.d.get("test"):
            continue
        rolls = [(bi, t) for bi, t in f.calls() if not t.get("indirect") and t["callee"].endswith("::get_code_skip1")]
        if not rolls:
            continue
        g = cfg_of(f)
        ex = Exprs(f)
        from mirutil import local_updates
        ups = local_updates(f, ex)
        for bi, t in rolls:
            # the rolled value: second argument, traced to the named local that carries it across iterations
            prev = strip_tags(ex.operand(t["args"][1]))
            names = [x[1] for x in walk(prev) if isinstance(x, tuple) and x[0] == "var"]
            loops = [(h, body) for h, body in g.loops() if bi in body]
            if not names or not loops:
                continue
            h, body = max(loops, key=lambda hb: len(hb[1]))
            carried = [nm for nm in names if any(n2 == nm and b2 in body for n2, b2, _, _ in ups) and any(n2 == nm and b2 not in body for n2, b2, _, _ in ups)]
            if not carried:
                continue
            nm = carried[0]
            n += 1
            assigns = {b2 for n2, b2, _, _ in ups if n2 == nm and b2 in body}
            tails = [x for x in body if h in g.succ[x]]
            # must-pass-through: from the loop head, can a back edge be reached without passing an assignment?
            seen, st, bad = set(), [h], None
            while st:
                x = st.pop()
                if x in seen or x in assigns or x not in body or f.blocks[x]["cleanup"]:
                    continue
                seen.add(x)
                if x in tails and x != h:
                    bad = x
                    break
                st.extend(s2 for s2 in g.succ[x] if s2 != h)
            rep.ob(R, "%s: the rolling key code `%s` is refreshed on every path through an iteration" % (f.key.rsplit("::", 1)[-1], nm), bad is None,
                   detail="%d assignment(s) in the loop" % len(assigns) if bad is None else
                   "an iteration can reach the next one from %s without assigning `%s`: the previous window's code is rolled forward although that window was skipped" % (site_of(f, f.blocks[bad]["term"]), nm),
                   site=site_of(f, t), key="%s | %s | rolling code refreshed" % (R, f.key))
    rep.floor(R, n, 2, "scanning loops that roll the key code forward (encode, cost vector, estimate)")


def nrun_rules(F, rep, pid="C09"):
    """C09-NRUN: an N-run record stands for `len` copies of the N code and the decoder writes exactly that.  The function
    that measures a run may therefore test the sequence symbols only for (in)equality with the N code: any other test on a
    symbol (`c > 3`, a range, another constant) lets symbols that are not N be absorbed into the run and decoded as N."""
    R = pid + "-NRUN"
    f = F.funcs.get(LZ + "get_nrun_len")
    ncode = F.consts.get("ragc_core::lz_diff::N_CODE", {}).get("int")
    if not rep.floor(R, (1 if f else 0) + (1 if ncode is not None else 0), 2, "get_nrun_len and N_CODE"):
        return
    bodies = [f] + list(F.closures_of(f.key))
    ntests, bad = 0, []
    for b in bodies:
        ex = Exprs(b)
        exprs_ = []
        for blk in b.blocks:
            t = blk["term"]
            if t["k"] == "switch" and not blk["cleanup"]:
                exprs_.append(strip_tags(ex.operand(t["discr"])))
            if b.kind == "closure":
                for s_ in blk["stmts"]:
                    if s_["k"] == "assign" and s_["pl"]["l"] == 0 and not s_["pl"]["p"]:
                        exprs_.append(strip_tags(ex.rvalue(s_["rv"])))      # a predicate closure returns its test
        for ce in exprs_:
            for x in walk(ce):
                if not (isinstance(x, tuple) and x[0] == "bin" and x[1] in ("Eq", "Ne", "Lt", "Le", "Gt", "Ge")):
                    continue
                # a comparison on a symbol: one side is a u8 constant
                consts = [o for o in (x[2], x[3]) if isinstance(o, tuple) and o[0] == "const" and isinstance(o[1], int)]
                other = [o for o in (x[2], x[3]) if not (isinstance(o, tuple) and o[0] == "const")]
                if len(consts) != 1 or not other:
                    continue
                if not _is_symbol(b, ex, other[0]):
                    continue
                ntests += 1
                if not (x[1] in ("Eq", "Ne") and consts[0][1] == ncode):
                    bad.append("%s in %s" % (fmt(x), b.key.rsplit("::", 2)[-1] if b.kind == "closure" else b.key.rsplit("::", 1)[-1]))
    rep.ob(R, "get_nrun_len tests sequence symbols only for equality with the N code (%d)" % ncode, not bad and ntests >= 1,
           detail="%d symbol tests" % ntests if not bad else "other tests on symbols: %s: a symbol passing them is counted into the run and decoded as N" % bad[:3],
           site="%s:%d" % (f.file, f.line_lo), key="%s | get_nrun_len | symbol tests" % R)


def _is_symbol(f, ex, e):
    """is this operand a byte of the sequence (a u8 read through an index / an iterator item)?"""
    s = fmt(e)
    if re.search(r"index\(|\[|next\(|\(\*|deref|param|^arg\d+$", s) is None:
        return False
    # type check through the locals it mentions is not available for sub-expressions: rely on shape + the callers' types
    return ("usize" not in s) and ("len(" not in s)


def back_rules(F, rep, pid="C09"):
    """C09-BACK: the backward-extension budget.  The encoder pops `len_bck` bytes off its output before a match,
    which is only sound when those bytes are single-byte literal records: the budget handed to the matcher must
    never count bytes that belong to a multi-byte record (N-run or match)."""
    R = pid + "-BACK"
    enc = F.funcs.get(LZ + "encode")
    fm = F.funcs.get(LZ + "find_best_match_lp")
    lit = F.funcs.get(LZ + "encode_literal")
    if not rep.floor(R, sum(1 for x in (enc, fm, lit) if x), 3, "encode, find_best_match_lp, encode_literal"):
        return
    ex = Exprs(enc)
    g = cfg_of(enc)
    from mirutil import local_updates
    msites = [(bi, t) for bi, t in enc.calls() if not t.get("indirect") and t["callee"] == fm.key]
    if not rep.floor(R, len(msites), 1, "matcher call in encode"):
        return
    budget = {strip_tags(ex.operand(t["args"][-1])) for bi, t in msites}
    bvar = next(iter(budget)) if len(budget) == 1 else None
    okb = isinstance(bvar, tuple) and bvar[0] == "var"
    rep.ob(R, "the matcher's backward budget is a counter local of encode", okb, detail=str([fmt(b) for b in budget]), key=R + " | budget is a local")
    if not okb:
        return
    B = bvar[1]
    ups = [(bi, er) for nm, bi, e, er in local_updates(enc, ex) if nm == B]
    resets = {bi for bi, er in ups if er == ("const", 0)}
    incs = {bi for bi, er in ups if er == ("bin", "Add", ("const", 1), ("self",))}
    other = [(bi, er) for bi, er in ups if bi not in resets and bi not in incs and er != ("field", ("self",), "0")]
    rep.ob(R, "the budget is only reset to zero or incremented by one", not other, detail="other updates: %s" % [fmt(e) for _, e in other][:4], key=R + " | budget updates")
    # emitters: LZ helpers that receive the output buffer mutably
    def is_emitter(t):
        c = t.get("callee", "")
        if t.get("indirect") or not c.startswith(LZ) or c == fm.key:
            return False
        cf = F.funcs.get(c)
        return bool(cf) and any(cf.locals[l]["ty"].replace(" ", "") in ("&mutalloc::vec::Vec<u8>", "&mutVec<u8>") for l in cf.arg_names())
    emit_lit = {bi for bi, t in enc.calls() if is_emitter(t) and t["callee"] == lit.key}
    emit_rec = {bi for bi, t in enc.calls() if is_emitter(t) and t["callee"] != lit.key}
    rep.floor(R, len(emit_rec), 2, "multi-byte record emitters called from encode (N-run, match)")
    rep.floor(R, len(emit_lit), 3, "literal emitter calls in encode")
    # forward may-analysis: 'dirty' = a multi-byte record was emitted since the budget was last reset
    dirty_in = {b: False for b in g.reach}
    changed = True
    while changed:
        changed = False
        for b in sorted(g.reach):
            st = dirty_in[b]
            # statements first (reset), then the terminator (emit)
            out = st
            if b in resets:
                out = False
            if b in emit_rec:
                out = True
            for s in g.succ[b]:
                if s in g.reach and out and not dirty_in[s]:
                    dirty_in[s] = True
                    changed = True
    for bi, t in msites:
        rep.ob(R, "no multi-byte record is counted in the backward budget: every N-run/match emission is followed by budget = 0 before the matcher is asked again",
               not dirty_in[bi], detail="a path from %s reaches the matcher call without resetting `%s`" % (
                   [site_of(enc, enc.blocks[b]["term"]) for b in sorted(emit_rec) if _reaches_without(g, b, bi, resets)], B) if dirty_in[bi] else "",
               site=site_of(enc, t), key=R + " | reset after record")
    # each increment is paid for by one literal emitted in the same iteration
    loops = g.loops()
    for bi in sorted(incs):
        inner = min([body for h, body in loops if bi in body], key=len, default=None)
        doms = [l for l in emit_lit if g.dominates(l, bi) and (inner is None or l in inner)]
        rep.ob(R, "every increment of the budget follows a literal emitted in the same iteration", bool(doms),
               site="%s:%s" % (enc.file, (enc.blocks[bi]["stmts"][0].get("sp") or {}).get("line", "?") if enc.blocks[bi]["stmts"] else "?"), key=R + " | increment paired with literal")
    rep.floor(R, len(incs), 2, "budget increments")
    # bytes are removed from the output only by the backward-extension loop, bounded by the matcher's answer
    pops = [(bi, t) for bi, t in enc.calls() if re.search(r"Vec::<T, A>::(pop|truncate|drain|clear|remove)$", t["callee"])
            and "u8" in t.get("callee_disp", "u8")]
    fl = for_loops(enc, ex)
    for bi, t in pops:
        inl = [L for L in fl if bi in L["body"] and L["range"]]
        ok = False
        det = "not inside a counted loop"
        if inl and t["callee"].endswith("::pop"):
            L = min(inl, key=lambda l: len(l["body"]))
            end = L["range"][1]
            ok = L["range"][0] == ("const", 0) and contains(end, lambda x: isinstance(x, tuple) and x[0] == "call" and x[1] == fm.key)
            det = "loop bound %s" % fmt(end)
        rep.ob(R, "output bytes are removed only by the backward-extension loop, `len_bck` times as answered by the matcher", ok, detail=det,
               site=site_of(enc, t), key=R + " | pops bounded")
    rep.floor(R, len(pops), 1, "removals from the output buffer")
    # inside the matcher the backward scan is limited by the budget parameter
    exm = Exprs(fm)
    pname = list(fm.arg_names().values())[-1]
    guards = []
    for bi, b in enumerate(fm.blocks):
        tt = b["term"]
        if tt["k"] == "switch" and not b["cleanup"]:
            e = exm.operand(tt["discr"])
            if isinstance(e, tuple) and e[0] == "bin" and e[1] in ("Lt", "Le") and contains(e, lambda x: x == ("param", pname)):
                guards.append(fmt(e))
    rep.ob(R, "the matcher's backward scan is bounded by its budget parameter", bool(guards), detail="guards: %s" % guards[:2],
           site="%s:%d" % (fm.file, fm.line_lo), key=R + " | matcher honours budget")


def empty_rules(F, rep, pid="C09"):
    """An empty encoding means "the target is the reference" to every reader: the encoder may return without having
    emitted anything only under a test that the two have the same length and the same content."""
    R = pid + "-EMPTY" if pid != "C01" else "C01-LZEMPTY"
    enc = F.funcs.get(LZ + "encode")
    if not rep.floor(R, 1 if enc else 0, 1, "LZDiff::encode"):
        return
    ex = Exprs(enc)
    g = cfg_of(enc)
    emit = {bi for bi, t in enc.calls() if not t.get("indirect") and t["callee"].startswith(LZ + "encode_")}
    heads = {h for h, body in g.loops()}
    n = 0
    for bi, b in enumerate(enc.blocks):
        if b["cleanup"] or bi not in g.reach:
            continue
        for s in b["stmts"]:
            if not (s["k"] == "assign" and s["pl"]["l"] == 0 and not s["pl"]["p"]):
                continue
            # can an emitter or a loop have run before this return?
            before = {x for x in g.reach if bi in g.reachable_from(x)}
            if before & emit or before & heads:
                continue
            n += 1
            conds = [(strip_tags(c[0]), cond_bool(c[1], c[2])) for c in dominating_conds(enc, bi, ex)]
            same_len = any(v is True and isinstance(c, tuple) and c[0] == "bin" and c[1] == "Eq" and "len(target)" in fmt(c) and "reference_len" in fmt(c) for c, v in conds)
            same_content = any(v is True and isinstance(c, tuple) and c[0] == "call" and re.search(r"Iterator>?::all$|PartialEq.*::eq$|::eq$|::starts_with$", c[1])
                               and "target" in fmt(c) and "reference" in fmt(c) for c, v in conds)
            slice_eq = any(v is True and isinstance(c, tuple) and c[0] == "call" and re.search(r"PartialEq.*::eq$|::eq$", c[1]) and "target" in fmt(c) and "reference_len" in fmt(c)
                           for c, v in conds)
            rep.ob(R, "encode returns an empty encoding only when the target has the reference's length and content", (same_len and same_content) or slice_eq,
                   detail="guards: %s" % [(fmt(c)[:90], v) for c, v in conds if v is not None][-3:], site=site_of(enc, s), key=R + " | early return")
    rep.floor(R, n, 1, "returns of encode that precede every emitter")


def pred_rules(F, rep, pid="C09"):
    """C09-PRED: encoder and decoder keep the same `predicted reference position`.  Match positions are coded
    relative to it and the '!' literal is decoded by looking it up, so both sides must move it identically:
    +1 per literal, unchanged by an N-run, set to (match position + match length) after a match; the encoder
    takes back one per literal it removes in a backward extension."""
    R = pid + "-PRED"
    from mirutil import local_updates
    enc, dec = F.funcs.get(LZ + "encode"), F.funcs.get(LZ + "decode")
    em, dm = F.funcs.get(LZ + "encode_match"), F.funcs.get(LZ + "decode_match")
    el, en = F.funcs.get(LZ + "encode_literal"), F.funcs.get(LZ + "encode_nrun")
    fm = F.funcs.get(LZ + "find_best_match_lp")
    if not rep.floor(R, sum(1 for x in (enc, dec, em, dm, el, en, fm) if x), 7, "encode, decode and their helpers"):
        return
    # ---------------------------------------------------------------- encoder
    ex = Exprs(enc)
    g = cfg_of(enc)
    msite = [(bi, t) for bi, t in enc.calls() if not t.get("indirect") and t["callee"] == em.key]
    fsite = [(bi, t) for bi, t in enc.calls() if not t.get("indirect") and t["callee"] == fm.key]
    if not rep.floor(R, len(msite), 1, "encode_match call in encode") or not fsite:
        return
    mb, mt = msite[0]
    pidx = [i for i, n in enumerate(em.arg_names().values()) if "pred" in (n or "")] or [3]
    P = strip_tags(ex.operand(mt["args"][pidx[0]]))
    okp = isinstance(P, tuple) and P[0] == "var"
    rep.ob(R, "the encoder's predicted position is a local of encode handed to encode_match", okp, detail=fmt(P), key=R + " | encoder predictor")
    if not okp:
        return
    ups = [(bi, strip_tags(e), er) for nm, bi, e, er in local_updates(enc, ex) if nm == P[1]]
    loops = g.loops()
    main = min([body for h, body in loops if fsite[0][0] in body], key=len, default=set())
    lits = [bi for bi, t in enc.calls() if not t.get("indirect") and t["callee"] == el.key and bi in main]
    nruns = [bi for bi, t in enc.calls() if not t.get("indirect") and t["callee"] == en.key and bi in main]
    incs = [bi for bi, e, er in ups if er == ("bin", "Add", ("const", 1), ("self",))]
    # every literal of the main loop is followed by exactly one +1 in its iteration; no +1 without a literal
    def same_iter_after(a, b):      # b is executed after a in the same iteration
        return g.dominates(a, b) and a in main and b in main
    ok_l = bool(lits) and all(sum(1 for i in incs if same_iter_after(l, i)) == 1 for l in lits) and all(any(same_iter_after(l, i) for l in lits) for i in incs)
    rep.ob(R, "encoder: every literal moves the predicted position by one (and nothing else does)", ok_l,
           detail="%d literal sites in the matching loop, %d increments" % (len(lits), len(incs)), site="%s:%d" % (enc.file, enc.line_lo), key=R + " | encoder literal step")
    ok_n = bool(nruns) and not any(same_iter_after(n, bi) for n in nruns for bi, e, er in ups)
    rep.ob(R, "encoder: an N-run leaves the predicted position unchanged", ok_n, site="%s:%d" % (enc.file, enc.line_lo), key=R + " | encoder nrun")
    # after the match: P = (position handed to encode_match) + (backward + forward length), and the target index moves by the same length
    pos_arg = strip_tags(ex.operand(mt["args"][1]))
    after = [(bi, e) for bi, e, er in ups if g.dominates(mb, bi) and bi in main]
    fmres = lambda x: isinstance(x, tuple) and x[0] == "call" and x[1] == fm.key
    ok_m = len(after) == 1
    det = "updates after encode_match: %s" % [fmt(e)[:80] for _, e in after]
    if ok_m:
        e = after[0][1]
        ok_m = isinstance(e, tuple) and e[0] == "bin" and e[1] == "Add"
        if ok_m:
            parts = _flatten_add(e)
            rest = list(parts)
            pa = _flatten_add(pos_arg) if isinstance(pos_arg, tuple) and pos_arg[0] == "bin" and pos_arg[1] == "Add" else [pos_arg]
            # position argument is (match_pos - len_bck); the new prediction adds len_bck + len_fwd to it
            ok_m = _contains_all(rest, [pos_arg]) and sum(1 for x in rest if contains(x, fmres)) >= 3
    rep.ob(R, "encoder: after a match the predicted position is the coded position plus the whole match length", ok_m, detail=det,
           site=site_of(enc, mt), key=R + " | encoder match step")
    # length elision ("match to the end"): the decoder then copies reference[pos ..] to the end of the reference, so
    # the encoder may drop the length only if the coded position plus the whole match length is the reference length
    from mirutil import linear, lin_sub
    len_arg = mt["args"][2]
    ll = len_arg["pl"]["l"] if len_arg["k"] in ("copy", "move") else None
    for _ in range(6):      # the argument is a copy of the local that holds the Option
        ds = [d for d in ex.defs.get(ll, []) if d[0] != "partial"] if ll is not None else []
        if len(ds) == 1 and ds[0][0] == "rv" and ds[0][3]["k"] == "use" and ds[0][3]["op"]["k"] in ("copy", "move") and not ds[0][3]["op"]["pl"]["p"]:
            ll = ds[0][3]["op"]["pl"]["l"]
        else:
            break
    none_defs, some_vals = [], []
    for d in ex.defs.get(ll, []) if ll is not None else []:
        if d[0] != "rv":
            continue
        v = strip_tags(ex.rvalue(d[3]))
        if isinstance(v, tuple) and v[0] == "agg" and v[1].endswith("Option::None"):
            none_defs.append(d[1])
        elif isinstance(v, tuple) and v[0] == "agg" and v[1].endswith("Option::Some"):
            some_vals.append(dict(v[2]).get("0"))
    ok_e = len(none_defs) == 1 and len(some_vals) == 1
    det = "no single None/Some pair for the length argument"
    if ok_e:
        want = linear(pos_arg)
        for k2, v2 in linear(some_vals[0]).items():
            want[k2] = want.get(k2, 0) + v2
        want = {k2: v2 for k2, v2 in lin_sub(want, linear(("field", ("param", "self"), "reference_len"))).items() if v2}
        found = []
        for c in dominating_conds(enc, none_defs[0], ex):
            ce = strip_tags(c[0])
            if cond_bool(c[1], c[2]) is True and isinstance(ce, tuple) and ce[0] == "bin" and ce[1] == "Eq":
                dlin = {k2: v2 for k2, v2 in lin_sub(linear(ce[2]), linear(ce[3])).items() if v2}
                found.append(dlin)
        neg = {k2: -v2 for k2, v2 in want.items()}
        ok_e = any(dl == want or dl == neg for dl in found)
        det = "%d equality guard(s); none states (coded position + match length == reference length)" % len(found) if not ok_e else "guard states coded position + match length == reference_len"
    rep.ob(R, "encoder: the match length is dropped only when the coded position plus the whole match length is the reference length (what the decoder will copy)", ok_e,
           detail=det, site=site_of(enc, mt), key=R + " | encoder length elision")
    # backward extension: one step back per removed literal
    subs = [(bi, e) for bi, e, er in ups if isinstance(er, tuple) and er[0] == "bin" and er[1] == "Sub" and er[2] == ("self",)]
    pops = [bi for bi, t in enc.calls() if not t.get("indirect") and t["callee"].endswith("Vec::<T, A>::pop")]
    fl = for_loops(enc, ex)
    ok_b = len(subs) == 1 and bool(pops)
    if ok_b:
        L = [x for x in fl if pops[0] in x["body"] and x["range"]]
        ok_b = bool(L) and strip_tags(L[0]["range"][1]) == subs[0][1][3]
    rep.ob(R, "encoder: a backward extension takes the predicted position back by the number of literals it removes", ok_b,
           detail="subtractions: %s" % [fmt(e)[:80] for _, e in subs], key=R + " | encoder backward step")
    other = [fmt(e)[:60] for bi, e, er in ups if er not in (("const", 0), ("bin", "Add", ("const", 1), ("self",))) and (bi, e) not in after and (bi, e) not in subs]
    rep.ob(R, "encoder: no other update of the predicted position", not other, detail=str(other), key=R + " | encoder other updates")
    # ---------------------------------------------------------------- decoder
    exd = Exprs(dec)
    gd = cfg_of(dec)
    dsite = [(bi, t) for bi, t in dec.calls() if not t.get("indirect") and t["callee"] == dm.key]
    if not rep.floor(R, len(dsite), 1, "decode_match call in decode"):
        return
    db, dt = dsite[0]
    Pd = strip_tags(exd.operand(dt["args"][-1]))
    okd = isinstance(Pd, tuple) and Pd[0] == "var"
    rep.ob(R, "the decoder's predicted position is a local of decode handed to decode_match", okd, detail=fmt(Pd), key=R + " | decoder predictor")
    if not okd:
        return
    dups = [(bi, strip_tags(e), er) for nm, bi, e, er in local_updates(dec, exd) if nm == Pd[1]]
    isl = F.funcs.get(LZ + "is_literal")
    dn = F.funcs.get(LZ + "decode_nrun")

    def arm_of(bi):
        cs = [(strip_tags(c[0]), cond_bool(c[1], c[2])) for c in dominating_conds(dec, bi, exd)]
        lit = [v for c, v in cs if isinstance(c, tuple) and c[0] == "call" and isl and c[1] == isl.key]
        if lit and lit[-1] is True:
            return "literal"
        if any(t2["callee"] == dn.key and gd.dominates(b2, bi) for b2, t2 in dec.calls() if not t2.get("indirect")) and dn:
            return "nrun"
        if gd.dominates(db, bi):
            return "match"
        return "other"
    byarm = {}
    for bi, e, er in dups:
        if er == ("const", 0) and not any(bi in body for h, body in gd.loops()):
            continue
        byarm.setdefault(arm_of(bi), []).append((e, er))
    rep.ob(R, "decoder: a literal moves the predicted position by one", [er for e, er in byarm.get("literal", [])] == [("bin", "Add", ("const", 1), ("self",))],
           detail=str([fmt(e) for e, er in byarm.get("literal", [])]), key=R + " | decoder literal step")
    rep.ob(R, "decoder: an N-run leaves the predicted position unchanged", not byarm.get("nrun"), detail=str([fmt(e) for e, er in byarm.get("nrun", [])]),
           key=R + " | decoder nrun")
    # match: P = end of the copied reference range
    ends = []
    for bi, t in dec.calls():
        if not t.get("indirect") and t["callee"].endswith("extend_from_slice") and gd.dominates(db, bi):
            for x in walk(strip_tags(exd.operand(t["args"][1]))):
                if isinstance(x, tuple) and x[0] == "agg" and x[1].startswith("core::ops::range::Range"):
                    d = dict(x[2])
                    if "end" in d:
                        ends.append(d["end"])
    mups = [e for e, er in byarm.get("match", [])]
    rep.ob(R, "decoder: after a match the predicted position is the end of the reference range that was copied", len(mups) == 1 and len(ends) == 1 and mups[0] == ends[0],
           detail="update %s; copied range ends at %s" % ([fmt(e)[:80] for e in mups], [fmt(e)[:80] for e in ends]), site=site_of(dec, dt), key=R + " | decoder match step")
    rep.ob(R, "decoder: no other update of the predicted position", not byarm.get("other"), detail=str([fmt(e)[:60] for e, er in byarm.get("other", [])]),
           key=R + " | decoder other updates")


def _flatten_add(e):
    if isinstance(e, tuple) and e[0] == "bin" and e[1] == "Add":
        return _flatten_add(e[2]) + _flatten_add(e[3])
    return [e]


def _contains_all(parts, needed):
    """every element of `needed` occurs among `parts`, possibly split into its own summands"""
    rest = list(parts)
    for n in needed:
        if n in rest:
            rest.remove(n)
            continue
        return False
    return True


def _reaches_without(g, a, b, avoid):
    seen, st = set(), [s for s in g.succ[a]]
    while st:
        x = st.pop()
        if x in seen or x not in g.reach:
            continue
        seen.add(x)
        if x == b:
            return True
        if x in avoid:
            continue
        st.extend(g.succ[x])
    return False


def alpha_rules(F, rep, pid):
    R = pid + "-ALPHA"
    try:
        S, tab, inf = symbols.symbol_domain(F)
    except Undecidable as e:
        rep.ob(R, "symbol domain can be extracted from the FASTA reader", False, detail="undecidable construct: %s" % e, key=R + " | symbol domain")
        return None
    rep.stat("symbol_domain", S)
    rep.floor(R, len(S), 17, "symbol codes produced by the input table")
    sites = encoder_alphabet(F, S)
    if not rep.floor(R, len(sites or []), 8, "bytes appended by the LZ encoder (push / rewrite sites)"):
        return None
    lit, other, undec = set(), set(), []
    numeric = set()
    for f, where, e, vs in sites:
        if vs is None:
            undec.append((f, where, e))
            continue
        dep = contains(e, lambda x: isinstance(x, tuple) and x[0] == "param" and x[1] != "self")
        # a literal is a byte computed from a *symbol* (a u8 parameter of the emitter); bytes computed from numbers
        # (positions, lengths: wider integer parameters and the locals derived from them) are digits of the number text
        u8params = {n for l, n in f.arg_names().items() if f.locals[l]["ty"] == "u8"}
        from_symbol = contains(e, lambda x: isinstance(x, tuple) and x[0] == "param" and x[1] in u8params)
        if dep and not from_symbol:
            other |= vs
            numeric |= vs
        elif dep and any(isinstance(x, tuple) and x[0] == "bin" and x[1] == "Rem" for x in walk(e)):
            other |= vs
        elif dep:
            lit |= vs
        else:
            other |= vs
    for f, where, e in undec:
        rep.ob(R, "encoder byte %s in %s has a decidable value set" % (fmt(e), f.key.rsplit("::", 1)[-1]), False,
               detail="undecidable construct", site=site_of(f, where), key="%s | %s | undecidable byte %s" % (R, f.key, fmt(e)))
    # the decoder reads numbers as ASCII decimal: every byte computed from a number is a digit (or the sign)
    strange = sorted(v for v in numeric if not (48 <= v <= 57 or v == 45))
    rep.ob(R, "every byte the encoder computes from a number is a decimal digit (or '-')", not strange,
           detail="%d number bytes" % len(numeric) if not strange else "number text can contain %s: the decoder's decimal parser does not read them back" % [chr(v) if 32 <= v < 127 else v for v in strange],
           key=R + " | number bytes are digits")
    rep.stat("encoder_literal_bytes", sorted(lit))
    rep.stat("encoder_other_bytes", sorted(other))
    # u8 parameters of emitters receive symbols of the target only
    el = F.funcs.get(LZ + "encode_literal")
    if el:
        for f in F.funcs.values():
            if not f.key.startswith(LZ):
                continue
            ex = None
            for bi, t in f.calls():
                if not t.get("indirect") and t["callee"] == el.key:
                    ex = ex or Exprs(f)
                    a = ex.operand(t["args"][1])
                    ok = _indexed(a) == ("param", "target")
                    rep.ob(R, "encode_literal is given an element of the target sequence", ok, detail=fmt(a), site=site_of(f, t),
                           key="%s | %s | literal argument" % (R, f.key))
    # decoder classes
    isl = F.funcs.get(LZ + "is_literal")
    dl = F.funcs.get(LZ + "decode_literal")
    dec = F.funcs.get(LZ + "decode")
    if not rep.floor(R, sum(1 for x in (isl, dl, dec) if x), 3, "decoder: is_literal, decode_literal, decode"):
        return None
    try:
        t_is = tabulate(F, isl, prefix_args=[("refval", {})])
        t_dl = tabulate(F, dl, domain=sorted(lit), prefix_args=[("refval", {})])
    except Undecidable as e:
        rep.ob(R, "decoder dispatch can be tabulated", False, detail="undecidable construct: %s" % e, key=R + " | decoder table")
        return None
    litclass = {c for c, v in t_is.items() if v == 1}
    rep.stat("decoder_literal_class", sorted(litclass))
    # N-run starter: the constant compared with encoded[i] in the else-if of decode
    exd = Exprs(dec)
    dec_in = next((n for l, n in dec.arg_names().items() if dec.locals[l]["ty"].replace(" ", "") == "&[u8]"), "encoded")
    starters = set()
    for bi, b in enumerate(dec.blocks):
        t = b["term"]
        if t["k"] == "switch":
            e = exd.operand(t["discr"])
            if isinstance(e, tuple) and e[0] == "bin" and e[1] == "Eq" and any(_indexed(o) == ("param", dec_in) for o in (e[2], e[3])):
                for o in (e[2], e[3]):
                    if o[0] == "const":
                        starters.add(o[1])
    rep.stat("decoder_nrun_starters", sorted(starters))
    ncode = F.consts.get("ragc_core::lz_diff::N_CODE", {}).get("int")
    enc_starter = {c for c in other if c < 32 and c != ncode}
    missing = sorted(lit - litclass)
    rep.ob(R, "every literal byte the encoder can emit is in the decoder's literal class", not missing,
           detail="emitted but not recognised as literal: %s (= 'A' + symbol %s): the decoder parses them as a match" % (
               [chr(c) for c in missing], [c - 65 for c in missing]) if missing else "%d literal bytes" % len(lit),
           site="%s:%d" % (isl.file, isl.line_lo), key=R + " | literal bytes subset of is_literal")
    bad_dl = {c: v for c, v in t_dl.items() if v != c - 65}
    rep.ob(R, "decode_literal returns the symbol for every literal byte", not bad_dl, detail="mismatches: %s" % bad_dl,
           site="%s:%d" % (dl.file, dl.line_lo), key=R + " | decode_literal inverse")
    rep.ob(R, "the '!' marker is a literal for the decoder and is not a symbol literal", 33 in litclass and 33 not in lit and 33 in other,
           key=R + " | bang")
    matchclass = other - {33} - enc_starter - {4}
    rep.ob(R, "match bytes (digits, '-', ',', '.') are outside the literal class and are not N-run starters",
           not (matchclass & litclass) and not (matchclass & starters) and matchclass >= set(b"0123456789-,."),
           detail="match-class bytes: %s" % "".join(chr(c) for c in sorted(matchclass)), key=R + " | match class disjoint")
    rep.ob(R, "the N-run starter emitted by the encoder is the one the decoder tests, and is not a literal",
           enc_starter == starters and not (starters & litclass) and len(starters) == 1,
           detail="encoder %s decoder %s" % (sorted(enc_starter), sorted(starters)), key=R + " | nrun starter")
    allb = lit | other
    rep.ob(R, "the pack separator 0xFF is not in the encoder alphabet", 255 not in allb and all(0 <= c < 255 for c in allb),
           detail="alphabet max %s" % (max(allb) if allb else None), key=R + " | no 0xFF")
    # bang-rewrite scan range
    enc = F.funcs.get(LZ + "encode")
    exe = Exprs(enc)
    lo = hi = None
    for bi, b in enumerate(enc.blocks):
        t = b["term"]
        if t["k"] == "switch":
            e = exe.operand(t["discr"])
            if isinstance(e, tuple) and e[0] == "bin" and e[1] == "Lt":
                a, b2 = e[2], e[3]
                if b2[0] == "const" and _indexed(a) is not None and _is_output(_indexed(a)):
                    lo = b2[1]
                if a[0] == "const" and _indexed(b2) is not None and _is_output(_indexed(b2)):
                    hi = a[1]
    if rep.floor(R, 1 if (lo is not None and hi is not None) else 0, 1, "literal range test of the '!' rewrite scan"):
        inrange = {c for c in other if lo <= c <= hi}
        rep.ob(R, "the '!'-rewrite scan range [%s..%s] contains no non-literal encoder byte" % (chr(lo), chr(hi)), not inrange,
               detail="non-literal bytes in range: %s" % sorted(inrange), key=R + " | bang scan range")
    return S
