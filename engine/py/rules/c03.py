"""C03 — sample and contig catalogue preserved: structural clauses (DESIGN 4/C03)."""
import re

from cfg import cfg_of
from expr import Exprs, fmt, walk, contains, strip_tags
from mirutil import is_call, dominating_conds, cond_bool, for_loops
from framework import site_of, Report
import callgraph as cgmod
import pipeline

EXPLANATION = (
    "(PRED) encoder and decoder of the segment-descriptor table evolve the in-group-id predictor identically: the "
    "guard and the arguments of the predictor update, the four-way selection of the encoded / decoded id and the "
    "predicted value are reconstructed from both bodies over the roles {current id, previous id, group id, "
    "encoded value}; every encoder arm must be the inverse form of the decoder arm in the frozen pairing table "
    "(x->x, 0->0, prev+1->1, zigzag_encode(x,p)+1 -> zigzag_decode(e-1,p)), with the same predictor p, and both "
    "sides clear the predictor table first and predict raw lengths from the same expression; (NAME) the name "
    "codec's constants agree on both sides: same-field marker -127, run cap below 127, field separator space, "
    "terminator 0, negative byte = run, and the plain-vs-delta decision is a field-count comparison on both "
    "sides; (ORDER) names and descriptors travel in Vecs only, a sample's index is the table length at "
    "insertion, no sort/dedup/hash iteration on the path, and the CLI registers the full header; (BATCH) the "
    "writer steps by 50 samples with min(), the reader loads batches 0..n in order (load-once is C08-H2); "
    "(ZZ) the predictive zigzag code is evaluated on a finite domain; (PARAMS) the segment size the lengths are coded against is "
    "read from the params part for the length the writer emits.")
UNDECIDED = "correctness of the run-length logic inside encode_split, UTF-8 handling, zigzag arithmetic for all values"

COL = "ragc_common::collection::CollectionV3::"


def _arms(f, ex, var):
    """definitions of `var` that depend on the predictor lookup, each with its last guards"""
    out = []
    if var is None:
        # the coded id is the local with several definitions, one of which is a zigzag transform of the id
        best = None
        for l, n in f.local_names().items():
            ds = [d for d in ex.defs.get(l, []) if d[0] != "partial"]
            if len(ds) < 3:
                continue
            vs = [fmt(strip_tags(ex.rvalue(d[3]) if d[0] == "rv" else ex.call(d[3]))) for d in ds]
            if any("collection::zigzag_" in v for v in vs) and (best is None or len(ds) > best[0]):
                best = (len(ds), n)
        var = best[1] if best else None
    for l, n in f.local_names().items():
        if n != var:
            continue
        for d in ex.defs.get(l, []):
            if d[0] == "partial":
                continue
            v = ex.rvalue(d[3]) if d[0] == "rv" else ex.call(d[3])
            conds = [(fmt(strip_tags(c[0])), cond_bool(c[1], c[2])) for c in dominating_conds(f, d[1], ex) if cond_bool(c[1], c[2]) is not None]
            conds = [c for c in conds if "get_in_group_id" in c[0] or "in_group_id" in c[0] or re.search(r"\w+\[2\]", c[0])]
            if not conds:
                continue
            out.append((fmt(strip_tags(v)), conds))
    return out


def _single_value(f, ex, name):
    from mirutil import local_updates
    vs = [e for nm, b, e, er in local_updates(f, ex) if nm == name]
    return vs[0] if len(vs) == 1 else None


def run(F, rep):
    _run(F, rep)
    if getattr(F, "cfg", "dev") == "dev":
        vint_rule(F, rep, "C03-VINT")
    zz_rule(F, rep, "C03-ZZ")
    # raw lengths are coded against segment_size + k: the reader has to take the segment size the writer recorded in params
    from rules import c02
    c02.params_len_rule(F, rep, "C03-PARAMS")
    # names are listed as the header line gives them: the record id clause of the reader (C19-G4's evaluation, shared)
    from rules import c19
    sub19 = type(rep)(rep.pid, rep.tier)
    sub19.cfg = getattr(rep, "cfg", "dev")
    c19.run(F, sub19)
    nh = 0
    for o in sub19.obligations:
        if o["rule"] == "C19-G4":
            nh += 1
            rep.ob("C03-HEADER", o["instance"], o["ok"], detail=o["detail"], site=o["site"], how=o["how"], key=o["key"].replace("C19-G4", "C03-HEADER"))
    rep.floor("C03-HEADER", nh, 1, "record id clause shared with C19")


def cursor_rule(F, rep, rule="C03-BATCH"):
    """The lazily loaded batches are placed behind one another: the placement cursor of load_contig_batch (the field that
    gives the first sample index of the next batch) moves by `cursor += number of samples in this batch` and by nothing
    else - it is cumulative, never recomputed from the batch number."""
    lb = F.funcs.get(COL + "load_contig_batch")
    if lb is None:
        return
    ex = Exprs(lb)
    writes = []
    for b in lb.blocks:
        for s_ in b["stmts"]:
            if s_["k"] == "assign" and s_["pl"]["p"]:
                last = s_["pl"]["p"][-1]
                if isinstance(last, dict) and last.get("n") == "samples_loaded":
                    writes.append((s_, strip_tags(ex.rvalue(s_["rv"]))))
    ok = bool(writes)
    why = []
    for s_, e in writes:
        # accept: field + x  (possibly through the .0 of an overflow-checked add)
        txt = fmt(e)
        good = re.search(r"Add\(.*samples_loaded.*\)", txt) is not None and re.search(r"no_samples_in_last_batch|len\(", txt) is not None and "id_batch" not in txt
        why.append(txt[:90])
        ok = ok and good
    rep.ob(rule, "the batch placement cursor advances cumulatively (samples_loaded += samples in this batch)", ok, detail="writes: %s" % why,
           site="%s:%d" % (lb.file, lb.line_lo), key="%s | load_contig_batch | cumulative cursor" % rule)


def _run(F, rep):
    cursor_rule(F, rep)
    rep.explanation = EXPLANATION
    rep.undecided = UNDECIDED
    rep.assumptions = ["Vec preserves insertion order; HashMap<String, usize> is used for lookup only"]
    ser, de = F.funcs.get(COL + "serialize_contig_details"), F.funcs.get(COL + "deserialize_contig_details")
    if not rep.floor("C03-ANCHOR", sum(1 for x in (ser, de) if x), 2, "descriptor table serialiser / deserialiser"):
        return
    exs, exd = Exprs(ser), Exprs(de)
    # ------------------------------------------------------------ PRED: roles
    def set_call(f, ex):
        for bi, t in f.calls():
            if not t.get("indirect") and t["callee"].endswith("CollectionV3::set_in_group_id"):
                args = [fmt(strip_tags(ex.operand(a))) for a in t["args"][1:]]
                conds = [(fmt(strip_tags(c[0])), cond_bool(c[1], c[2])) for c in dominating_conds(f, bi, ex) if cond_bool(c[1], c[2]) is not None][-2:]
                return bi, t, args, conds
        return None
    sw, sr = set_call(ser, exs), set_call(de, exd)
    if not rep.floor("C03-PRED", sum(1 for x in (sw, sr) if x), 2, "predictor update (set_in_group_id) on both sides"):
        return
    # writer roles
    wgroup, wcur = sw[2][0], sw[2][1]
    seg = wcur[:-len(".in_group_id")] if wcur.endswith(".in_group_id") else None
    rgroup, rcur = sr[2][0], sr[2][1]

    def norm_w(s):
        if seg:
            s = s.replace(seg + ".in_group_id", "CUR").replace(seg + ".group_id", "GROUP").replace(seg + ".raw_length", "LEN")
        s = s.replace("CollectionV3::get_in_group_id(self, GROUP)", "PREV")
        return s

    def norm_r(s):
        s = s.replace(rgroup, "GROUP").replace("CollectionV3::get_in_group_id(self, GROUP)", "PREV")
        s = s.replace(rcur, "CUR")
        s = re.sub(r"index\(\w+\[2\], \w+\)", "E", s)
        s = re.sub(r"index\(\w+\[3\], \w+\)", "ELEN", s)
        return s
    wg = sorted((norm_w(c), v) for c, v in sw[3])
    rg = sorted((norm_r(c), v) for c, v in sr[3])
    rep.ob("C03-PRED", "the predictor is updated under the same guard on both sides (only when the id grows and is > 0)",
           wg == rg and wg == [("Lt(0, CUR)", True), ("Lt(PREV, CUR)", True)], detail="writer %s reader %s" % (wg, rg), site=site_of(ser, sw[1]),
           key="C03-PRED | update guard")
    rep.ob("C03-PRED", "the predictor is updated with (group id, current id) on both sides", [norm_w(a) for a in sw[2]] == ["GROUP", "CUR"] and [norm_r(a) for a in sr[2]] == ["GROUP", "CUR"],
           detail="writer %s reader %s" % ([norm_w(a) for a in sw[2]], [norm_r(a) for a in sr[2]]), site=site_of(de, sr[1]), key="C03-PRED | update arguments")
    # four-way selection
    wa = [(norm_w(v), [(norm_w(c), t) for c, t in cs]) for v, cs in _arms(ser, exs, None)]
    ra = [(norm_r(v), [(norm_r(c), t) for c, t in cs]) for v, cs in _arms(de, exd, None)]
    rep.stat("encoder_arms", ["%s  if %s" % (v, cs[-1:]) for v, cs in wa])
    rep.stat("decoder_arms", ["%s  if %s" % (v, cs[-1:]) for v, cs in ra])

    def pick(arms, val_re):
        for v, cs in arms:
            if re.fullmatch(val_re, v):
                return v, cs
        return None, []
    P = r"Add\(PREV, 1\)|Add\(1, PREV\)"
    w1, c1 = pick(wa, r"CUR")
    r1, d1 = pick(ra, r"E")
    w2, c2 = pick(wa, r"0")
    r2, d2 = pick(ra, r"0")
    w3, c3 = pick(wa, r"1")
    r3, d3 = pick(ra, P)
    w4, c4 = pick(wa, r"Add\(collection::zigzag_encode\(CUR, (%s)\), 1\)|Add\(1, collection::zigzag_encode\(CUR, (%s)\)\)" % (P, P))
    r4, d4 = pick(ra, r"collection::zigzag_decode\(Sub\(E, 1\), (%s)\)" % P)

    def last(cs, pat, truth):
        return bool(cs) and re.fullmatch(pat, cs[-1][0]) is not None and cs[-1][1] is truth
    ok1 = w1 and r1 and last(c1, r"Eq\(PREV, -1\)|Eq\(-1, PREV\)", True) and last(d1, r"Eq\(PREV, -1\)|Eq\(-1, PREV\)", True)
    ok2 = w2 and r2 and last(c2, r"Eq\(0, CUR\)|Eq\(CUR, 0\)", True) and last(d2, r"Eq\(E, 0\)|Eq\(0, E\)", True)
    ok3 = w3 and r3 and last(c3, r"Eq\((%s), CUR\)|Eq\(CUR, (%s)\)" % (P, P), True) and last(d3, r"Eq\(E, 1\)|Eq\(1, E\)", True)
    ok4 = w4 and r4 and last(c4, r"Eq\((%s), CUR\)|Eq\(CUR, (%s)\)" % (P, P), False) and last(d4, r"Eq\(E, 1\)|Eq\(1, E\)", False)
    for i, (ok, what) in enumerate(((ok1, "no previous id: value stored verbatim (x -> x)"), (ok2, "id 0 is stored as 0 (0 -> 0)"),
                                    (ok3, "id = previous + 1 is stored as 1 (prev+1 -> 1)"),
                                    (ok4, "otherwise zigzag_encode(id, prev+1) + 1 is inverted by zigzag_decode(e - 1, prev+1)"))):
        rep.ob("C03-PRED", "encoder and decoder arm %d are inverse forms: %s" % (i + 1, what), bool(ok),
               detail="encoder arms %s; decoder arms %s" % ([a[0] for a in wa], [a[0] for a in ra]), site="%s:%d" % (ser.file, ser.line_lo),
               key="C03-PRED | arm %d" % (i + 1))
    rep.ob("C03-PRED", "exactly four arms on each side", len(wa) == 4 and len(ra) == 4, detail="%d / %d" % (len(wa), len(ra)), key="C03-PRED | arm count")
    # clear before use, same raw-length predictor
    for f, ex, side in ((ser, exs, "encoder"), (de, exd, "decoder")):
        g = cfg_of(f)
        clears = [bi for bi, t in f.calls() if not t.get("indirect") and t["callee"].endswith("clear_in_group_ids")]
        gets = [bi for bi, t in f.calls() if not t.get("indirect") and t["callee"].endswith("CollectionV3::get_in_group_id")]
        rep.ob("C03-PRED", "%s clears the predictor table before the first lookup" % side, bool(clears) and all(g.dominates(clears[0], x) for x in gets),
               site="%s:%d" % (f.file, f.line_lo), key="C03-PRED | %s clears" % side)
    pw = [fmt(strip_tags(exs.operand(t["args"][1]))) for _, t in ser.calls() if not t.get("indirect") and t["callee"].endswith("collection::zigzag_encode") and
          "raw_length" in fmt(exs.operand(t["args"][0]))]
    pr = [fmt(strip_tags(exd.operand(t["args"][1]))) for _, t in de.calls() if not t.get("indirect") and t["callee"].endswith("collection::zigzag_decode") and
          re.search(r"\w+\[3\]", fmt(exd.operand(t["args"][0])))]
    rep.ob("C03-PRED", "raw lengths are predicted from the same expression on both sides (segment_size + kmer_length)",
           pw == pr and pw in (["Add(self.segment_size, self.kmer_length)"], ["Add(self.kmer_length, self.segment_size)"]), detail="encoder %s decoder %s" % (pw, pr),
           key="C03-PRED | raw length predictor")

    # ------------------------------------------------------------ NAME
    enc, dec = F.funcs.get(COL + "encode_split"), F.funcs.get(COL + "decode_split_bytes")
    sn, dn = F.funcs.get(COL + "serialize_contig_names"), F.funcs.get(COL + "deserialize_contig_names")
    if rep.floor("C03-NAME", sum(1 for x in (enc, dec, sn, dn) if x), 4, "name codec functions"):
        exe, exdn = Exprs(enc), Exprs(dec)
        pushed = set()
        for bi, t in enc.calls():
            if not t.get("indirect") and re.search(r"Vec::<u8>::push$|Vec::<T, A>::push$", t["callee"]):
                v = exe.operand(t["args"][1])
                if v[0] == "const":
                    pushed.add(v[1])
        conds_e = [exe.operand(b["term"]["discr"]) for b in enc.blocks if b["term"]["k"] == "switch"]
        caps = {o[1] for e in conds_e if isinstance(e, tuple) and e[0] == "bin" and e[1] == "Eq" for o in (e[2], e[3]) if o[0] == "const" and o[1] > 1}
        conds_d = [exdn.operand(b["term"]["discr"]) for b in dec.blocks if b["term"]["k"] == "switch"]
        marker_d = {o[1] for e in conds_d if isinstance(e, tuple) and e[0] == "bin" and e[1] == "Eq" for o in (e[2], e[3]) if o[0] == "const" and o[1] < 0}
        rep.ob("C03-NAME", "same-field marker is -127 on both sides", (129 in pushed or -127 in pushed) and marker_d == {-127}, detail="encoder pushes %s, decoder tests %s" % (sorted(pushed), sorted(marker_d)),
               site="%s:%d" % (enc.file, enc.line_lo), key="C03-NAME | same-field marker")
        rep.ob("C03-NAME", "run counter is capped below 127 (so a run marker can never equal the same-field marker)", bool(caps) and max(caps) < 127,
               detail="cap constants %s" % sorted(caps), key="C03-NAME | run cap")
        rep.ob("C03-NAME", "field separator is a space on both sides", 32 in pushed and any(32 == x[1] for b in dec.blocks for s in b["stmts"] if s["k"] == "assign" for x in [exdn.rvalue(s["rv"])] if x[0] == "const") or
               any(not t.get("indirect") and re.search(r"push$", t["callee"]) and exdn.operand(t["args"][1]) == ("const", 32) for _, t in dec.calls()),
               key="C03-NAME | separator")
        signtest = any(isinstance(e, tuple) and e[0] == "bin" and e[1] in ("Le", "Lt") and ("const", 0) in (e[2], e[3]) for e in conds_d)
        rep.ob("C03-NAME", "decoder treats a negative byte as a run and a non-negative byte as a literal", signtest, key="C03-NAME | sign test")
        # terminator 0 and plain-vs-delta decision
        exsn, exdd = Exprs(sn), Exprs(dn)
        term_w = any(not t.get("indirect") and re.search(r"push$", t["callee"]) and exsn.operand(t["args"][1]) == ("const", 0) for _, t in sn.calls())
        dbs = F.funcs.get(COL + "decode_bytes_string")
        term_r = False
        if dbs:
            for c in F.closures_of(dbs.key):
                exc = Exprs(c)
                for b in c.blocks:
                    for s in b["stmts"]:
                        if s["k"] == "assign" and s["pl"]["l"] == 0 and exc.rvalue(s["rv"])[0] == "bin" and ("const", 0) in exc.rvalue(s["rv"])[2:]:
                            term_r = True
        rep.ob("C03-NAME", "delta-coded names end with a 0 byte that the decoder searches for", term_w and term_r, key="C03-NAME | terminator")
        dw = [fmt(strip_tags(exsn.operand(b["term"]["discr"]))) for b in sn.blocks if b["term"]["k"] == "switch" and not b["term"]["sp"].get("exp")]
        dr = [fmt(strip_tags(exdd.operand(b["term"]["discr"]))) for b in dn.blocks if b["term"]["k"] == "switch" and not b["term"]["sp"].get("exp")]
        PD = r"Ne\(Vec::len\(.*split.*\), Vec::len\(\w+\)\)|Ne\(Vec::len\(\w+\), Vec::len\(.*split.*\)\)|Ne\(Vec::len\(\w+\), Vec::len\(\w+\)\)"
        okw = any(re.fullmatch(PD, x) for x in dw)
        okr = any(re.fullmatch(PD, x) for x in dr)
        rep.ob("C03-NAME", "plain-vs-delta decision is `field count differs from the previous name` on both sides", okw and okr,
               detail="writer tests %s; reader tests %s" % ([x for x in dw if "len" in x][:3], [x for x in dr if "len" in x][:3]), key="C03-NAME | plain vs delta")

    # field splitting: both sides cut names at every single space character and nowhere else
    ss = F.funcs.get(COL + "split_string")
    dnf = F.funcs.get(COL + "deserialize_contig_names")
    if rep.floor("C03-NAME", sum(1 for x in (ss, dnf) if x), 2, "split_string and deserialize_contig_names"):
        exss = Exprs(ss)
        wsplit = [(t["callee"], [exss.operand(a) for a in t["args"][1:]]) for _, t in ss.calls() if not t.get("indirect") and re.search(r"::(r?split\w*|lines|chars|bytes)$", t["callee"])]
        okw = len(wsplit) == 1 and wsplit[0][0].endswith("core::str::<impl str>::split") and wsplit[0][1] == [("const", 32)]
        rsplit = [(t["callee"], t) for _, t in dnf.calls() if not t.get("indirect") and re.search(r"::(r?split\w*)$", t["callee"]) and "decode_split" not in t["callee"]]
        okr = False
        if len(rsplit) == 1 and rsplit[0][0].endswith("slice::<impl [T]>::split"):
            for c in F.closures_of(dnf.key):
                exc2 = Exprs(c)
                for b in c.blocks:
                    for s in b["stmts"]:
                        if s["k"] == "assign" and s["pl"]["l"] == 0 and not s["pl"]["p"]:
                            v = exc2.rvalue(s["rv"])
                            if isinstance(v, tuple) and v[0] == "bin" and v[1] == "Eq" and ("const", 32) in (v[2], v[3]):
                                okr = True
        rep.ob("C03-NAME", "names are cut into fields at every single space on both sides (so empty fields and tabs survive)", okw and okr,
               detail="writer: %s; reader: %s" % ([(c.rsplit("::", 1)[-1], [fmt(a) for a in args]) for c, args in wsplit], [c.rsplit("::", 1)[-1] for c, _ in rsplit]),
               site="%s:%d" % (ss.file, ss.line_lo), key="C03-NAME | field split")

    # ------------------------------------------------------------ RUN: every matching position is counted exactly once
    if enc:
        exe2 = Exprs(enc)
        defs = []
        # the run counter: the local that is incremented by one and also set to small constants
        from mirutil import local_updates
        ups = local_updates(enc, exe2)
        cands = sorted({nm for nm, bi, e, er in ups if er == ("bin", "Add", ("const", 1), ("self",))} &
                       {nm for nm, bi, e, er in ups if er == ("const", 0)})
        cnt = cands[0] if len(cands) == 1 else None
        rep.ob("C03-RUN", "the run-length encoder has one run counter", cnt is not None, detail=str(cands), key="C03-RUN | encode_split | counter")
        CN = re.escape(cnt or "?")
        for l, n in enc.local_names().items():
            if n != cnt:
                continue
            for d in exe2.defs.get(l, []):
                if d[0] != "rv":
                    continue
                v = fmt(strip_tags(exe2.rvalue(d[3])))
                conds = [(fmt(strip_tags(c[0])), cond_bool(c[1], c[2])) for c in dominating_conds(enc, d[1], exe2) if cond_bool(c[1], c[2]) is not None]
                defs.append((v, conds))
        def under(conds, pat, truth):
            return any(re.search(pat, c) and v is truth for c, v in conds)
        EQ = r"^Eq\((?!.*\b%s\b).*\[.*\].*, .*\[.*\].*\)$" % CN      # comparison of two indexed bytes (current vs previous name)
        eq_defs = [(v, cs) for v, cs in defs if under(cs, EQ, True)]
        ne_defs = [(v, cs) for v, cs in defs if under(cs, EQ, False)]
        ok_eq = bool(eq_defs) and all(v in ("Add(1, %s)" % cnt, "Add(%s, 1)" % cnt) or (v == "1" and under(cs, r"^Eq\(\d+, %s\)$|^Eq\(%s, \d+\)$" % (CN, CN), True)) for v, cs in eq_defs) and \
            any(v == "1" for v, _ in eq_defs)
        ok_ne = all(v == "0" for v, _ in ne_defs)
        rep.ob("C03-RUN", "run-length encoder counts every matching position exactly once (cnt += 1, or cnt = 1 right after flushing a full run; cnt = 0 after a mismatch)",
               ok_eq and ok_ne, detail="assignments under match: %s; under mismatch: %s" % ([v for v, _ in eq_defs], [v for v, _ in ne_defs]),
               site="%s:%d" % (enc.file, enc.line_lo), key="C03-RUN | encode_split | counter updates")
        rep.floor("C03-RUN", len(eq_defs), 2, "counter updates on a matching position")

    # ------------------------------------------------------------ ORDER
    cadt = F.adts.get("ragc_common::collection::CollectionV3")
    sadt = F.adts.get("ragc_common::collection::SampleDesc")
    tys = {f["name"]: f["ty"] for f in cadt["variants"][0]["fields"]} if cadt else {}
    rep.ob("C03-ORDER", "samples are kept in a Vec (archive order = registration order)", tys.get("sample_desc", "").startswith("alloc::vec::Vec<"), detail=tys.get("sample_desc"),
           how="trivial", key="C03-ORDER | sample_desc type")
    stys = {f["name"]: f["ty"] for f in sadt["variants"][0]["fields"]} if sadt else {}
    rep.ob("C03-ORDER", "a sample's contigs are kept in a Vec", stys.get("contigs", "").startswith("alloc::vec::Vec<"), how="trivial", key="C03-ORDER | contigs type")
    reg = F.funcs.get(COL + "register_sample_contig")
    REORD = re.compile(r"::(sort\w*|dedup\w*|reverse|retain\w*|swap\w*|insert)$")
    if rep.floor("C03-ORDER", 1 if reg else 0, 1, "register_sample_contig"):
        exr = Exprs(reg)
        calls = [(bi, t) for bi, t in reg.calls() if not t.get("indirect")]
        vec_mut = [t["callee"].rsplit("::", 1)[-1] for _, t in calls if ("alloc::vec::Vec" in t["callee"] or "slice::<impl [T]>" in t["callee"]) and
                   re.search(r"::(push|insert|sort\w*|dedup\w*|retain\w*|remove|swap\w*|truncate|reverse|rotate_\w+)$", t["callee"])]
        rep.ob("C03-ORDER", "registration only appends to the sample / contig vectors", bool(vec_mut) and set(vec_mut) == {"push"}, detail=str(vec_mut), site="%s:%d" % (reg.file, reg.line_lo),
               key="C03-ORDER | register appends")
        idx_ok = False
        for bi, t in calls:
            if re.search(r"HashMap.*::insert$", t["callee"]):
                v = fmt(strip_tags(exr.operand(t["args"][2])))
                # the id is the table length before insertion; the name map and the table grow together in this arm
                g = cfg_of(reg)
                pushes = [b2 for b2, t2 in calls if t2["callee"].endswith("Vec::<T, A>::push") and "sample_desc" in fmt(exr.operand(t2["args"][0]))]
                idx_ok = ("len(self.sample_desc)" in v or "len(self.sample_ids)" in v) and any(g.dominates(bi, p) or g.dominates(p, bi) for p in pushes)
        rep.ob("C03-ORDER", "a new sample's id is the length of the sample table at insertion", idx_ok, key="C03-ORDER | sample id")
    # no reordering in the list / serialise paths
    nlist = 0
    for name in ("get_samples_list", "get_contig_list", "get_sample_desc", "serialize_sample_names", "serialize_contig_names", "serialize_contig_details",
                 "deserialize_sample_names", "deserialize_contig_names", "deserialize_contig_details"):
        f = F.funcs.get(COL + name)
        if not f:
            continue
        nlist += 1
        bad = [t["callee"].rsplit("::", 1)[-1] for _, t in f.calls() if not t.get("indirect") and REORD.search(t["callee"]) and "HashMap" not in t["callee"] and
               not (name == "get_samples_list")]
        hashiter = [t["callee"] for _, t in f.calls() if not t.get("indirect") and re.search(r"hash::map::HashMap.*::(iter|keys|values|into_iter)$", t["callee"])]
        if name == "get_samples_list":
            # sorting is allowed only under the `sorted` flag
            ex = Exprs(f)
            for bi, t in f.calls():
                if not t.get("indirect") and REORD.search(t["callee"]):
                    conds = [(fmt(c[0]), cond_bool(c[1], c[2])) for c in dominating_conds(f, bi, ex)]
                    if not any(c == "sorted" and v is True for c, v in conds):
                        bad.append(t["callee"].rsplit("::", 1)[-1])
        rep.ob("C03-ORDER", "%s keeps table order (no sort/dedup/hash iteration)" % name, not bad and not hashiter, detail="%s %s" % (bad, hashiter),
               site="%s:%d" % (f.file, f.line_lo), key="C03-ORDER | %s" % name)
    rep.floor("C03-ORDER", nlist, 8, "list / (de)serialise functions")
    # full header is what the CLI registers as the contig name
    G = cgmod.CallGraph(F)
    cr = F.funcs.get("ragc::create_archive")
    if cr:
        ex = Exprs(cr)
        n = 0
        for bi, t in cr.calls():
            if not t.get("indirect") and t["callee"].endswith("StreamingQueueCompressor::push"):
                n += 1
                a = fmt(strip_tags(ex.operand(t["args"][2])))
                rep.ob("C03-ORDER", "the CLI passes the iterator's contig name (the full header) to push", "contig_name" in a or ".1" in a or "header" in a, detail=a[:120],
                       site=site_of(cr, t), key="C03-ORDER | create_archive | contig name #%d" % n)
    # iterators return the full header as the second component: field 0 of read_contig_with_sample's tuple,
    # which is the id returned by the record reader
    rws = F.find(r"genome_io::GenomeIO::<R>::read_contig_with_sample$")
    if rep.floor("C03-ORDER", len(rws), 1, "read_contig_with_sample"):
        f = rws[0]
        ex = Exprs(f)
        first = None
        for b in f.blocks:
            for s in b["stmts"]:
                if s["k"] == "assign" and s["pl"]["l"] == 0 and not s["pl"]["p"] and "Option::Some" in repr(ex.rvalue(s["rv"])):
                    e = ex.rvalue(s["rv"])
                    for x in walk(e):
                        if isinstance(x, tuple) and x[0] == "agg" and x[1] == "tuple" and len(x[2]) == 4:
                            first = fmt(strip_tags(dict(x[2])["0"]))
        rep.ob("C03-ORDER", "read_contig_with_sample returns the whole header line as the first tuple component", first is not None and "read_contig_impl" in first and first.endswith(".0"),
               detail=str(first)[:140], key="C03-ORDER | read_contig_with_sample | header first")
    nit = 0
    for f in F.find(r"contig_iterator::\w+ as ragc_core::contig_iterator::ContigIterator>::next_contig$"):
        ex = Exprs(f)
        for b in f.blocks:
            for s in b["stmts"]:
                if s["k"] == "assign" and s["pl"]["l"] == 0 and not s["pl"]["p"] and "Option::Some" in repr(ex.rvalue(s["rv"])):
                    e = ex.rvalue(s["rv"])
                    for x in walk(e):
                        if isinstance(x, tuple) and x[0] == "agg" and x[1] == "tuple" and len(x[2]) == 3:
                            c1 = fmt(strip_tags(dict(x[2])["1"]))
                            if "read_contig_with_sample" not in c1:
                                continue
                            nit += 1
                            rep.ob("C03-ORDER", "%s uses the full header (component 0 of the reader's tuple) as the contig name" % f.key.split("::", 1)[-1],
                                   c1.endswith(".0.0"), detail=c1[-80:], site=site_of(f, s), key="C03-ORDER | %s | full header" % f.key)
    rep.floor("C03-ORDER", nit, 2, "file iterators returning (sample, contig name, sequence)")

    # ------------------------------------------------------------ BATCH
    fin = F.funcs.get(pipeline.SQC + "finalize")
    if fin:
        ex = Exprs(fin)
        ok = False
        for bi, t in fin.calls():
            if not t.get("indirect") and t["callee"].endswith("store_contig_batch"):
                a = fmt(strip_tags(ex.operand(t["args"][3])))
                frm = fmt(strip_tags(ex.operand(t["args"][2])))
                fe = strip_tags(ex.operand(t["args"][2]))
                te = strip_tags(ex.operand(t["args"][3]))
                ok = False
                if isinstance(fe, tuple) and fe[0] == "var":
                    I = fe[1]
                    ok = re.fullmatch(r"(\w+::)*min\(Add\(50, %s\), (\w+|CollectionV3::get_no_samples\(.*\))\)" % re.escape(I), a) is not None
                    # and the loop continues from the end of the batch: i starts at 0 and is only ever set to that end
                    from mirutil import local_updates
                    ups = [e for nm, b2, e, er in local_updates(fin, ex) if nm == I]
                    ends = [e for e in ups if e != ("const", 0) and "next(" not in fmt(e)]     # (a for-loop variable of the same name is another local)
                    ok = ok and ("const", 0) in ups and bool(ends) and all(e == te or (e[0] == "var" and _single_value(fin, ex, e[1]) == te) for e in ends)
        rep.ob("C03-BATCH", "the writer stores metadata in consecutive batches [i, min(i+50, n))", ok, key="C03-BATCH | writer batches")
    nld = 0
    for f in F.funcs.values():
        if not f.key.startswith("ragc_core::decompressor::Decompressor::"):
            continue
        ex = None
        for bi, t in f.calls():
            if not t.get("indirect") and t["callee"].endswith("CollectionV3::load_contig_batch"):
                ex = ex or Exprs(f)
                L = [x for x in for_loops(f, ex) if bi in x["body"]]
                ok = bool(L) and L[-1]["range"] is not None and L[-1]["range"][0] == ("const", 0) and "get_no_contig_batches" in fmt(L[-1]["range"][1])
                nld += 1
                rep.ob("C03-BATCH", "%s loads batches 0..get_no_contig_batches in order" % f.key.rsplit("::", 1)[-1], ok, site=site_of(f, t),
                       key="C03-BATCH | %s | load loop" % f.key)
    rep.floor("C03-BATCH", nld, 6, "load_contig_batch call sites")


# ---------------------------------------------------------------- collection varint (prefix code of the metadata streams)
AGC_THR = [1 << 7, (1 << 7) + (1 << 14), (1 << 7) + (1 << 14) + (1 << 21), (1 << 7) + (1 << 14) + (1 << 21) + (1 << 28)]      # AGC v3 (format rule, not ragc's source)
AGC_PREF = [0x00, 0x80, 0xC0, 0xE0, 0xF0]


def agc_cvarint(x):
    """AGC v3 collection varint of a u32: the oracle (transcribed from the format rule)"""
    if x < AGC_THR[0]:
        return [x]
    for i in (1, 2, 3):
        if x < AGC_THR[i]:
            n = x - AGC_THR[i - 1]
            return [AGC_PREF[i] + (n >> (8 * i))] + [(n >> (8 * j)) & 0xff for j in range(i - 1, -1, -1)]
    n = x - AGC_THR[3]
    return [AGC_PREF[4]] + [(n >> (8 * j)) & 0xff for j in (3, 2, 1, 0)]


def vint_points(thorough=False):
    lo = [0] + AGC_THR
    hi = [t - 1 for t in AGC_THR] + [(1 << 32) - 1]
    pts = set()
    for a, b in zip(lo, hi):
        for d in (0, 1, 2, 127, 128, 255, 256, 257, 65535, 65536, 65537, (1 << 24) - 1, 1 << 24, (1 << 24) + 1):
            for x in (a + d, b - d):
                if a <= x <= b:
                    pts.add(x)
        pts.add((a + b) // 2)
    if thorough:
        pts.update(range(0, 20000))                       # classes 1 and 2 completely, the start of class 3
        for a, b in zip(lo, hi):
            x = a
            while x <= b:                                   # a stride sweep through every class
                pts.add(x)
                x += max(1, (b - a) // 4099)
            for sh in range(0, 32):                         # every power of two and its neighbours
                for d in (-1, 0, 1):
                    v = (1 << sh) + d
                    if a <= v <= b:
                        pts.add(v)
    return sorted(pts)


_VINT = {}


def vint_eval(F):
    vk = (id(F), getattr(F, "tier", "quick"))
    if vk in _VINT:
        return _VINT[vk]
    from vecint import VecInterp
    from absint import Undecidable, Panic
    enc, dec = F.funcs.get(COL.replace("CollectionV3::", "CollectionVarInt::") + "encode"), F.funcs.get(COL.replace("CollectionV3::", "CollectionVarInt::") + "decode")
    res = {"n": 0, "rt": [], "fmt": [], "trunc": [], "undec": None, "enc": enc, "dec": dec}
    if not enc or not dec:
        _VINT[vk] = res
        return res

    def decode(buf):
        it = VecInterp(F)
        env = {1: ("ref", 9000, ()), 9000: ("refval", list(buf))}
        r = it.run(dec, env, 0, None)
        return r, list(it.target(env[9000]))
    try:
        for x in vint_points(getattr(F, "tier", "quick") == "thorough"):
            res["n"] += 1
            out = []
            try:
                VecInterp(F).call(enc, [("refval", out), x])
            except Panic as e:
                res["rt"].append("encode(%d) panics (%s)" % (x, e))
                continue
            if list(out) != agc_cvarint(x):
                res["fmt"].append("%d is written as %s, AGC v3 writes %s" % (x, list(out), agc_cvarint(x)))
            try:
                r, rest = decode(list(out) + [0x5a])
                if not (isinstance(r, dict) and r.get("__var") == "Ok" and r.get("0") == x and rest == [0x5a]):
                    res["rt"].append("%d is written as %s and read back as %s (bytes left: %d)" % (x, list(out), r.get("0") if isinstance(r, dict) else r, len(rest) - 1))
            except Panic as e:
                res["rt"].append("decode panics on the encoding of %d (%s)" % (x, e))
            for cut in range(len(out)):
                try:
                    r, rest = decode(list(out)[:cut])
                    if not (isinstance(r, dict) and r.get("__var") == "Err"):
                        res["trunc"].append("the first %d of %d bytes of the encoding of %d are accepted" % (cut, len(out), x))
                except Panic as e:
                    res["trunc"].append("decode panics on the first %d of %d bytes of the encoding of %d (%s)" % (cut, len(out), x, e))
    except Undecidable as e:
        res["undec"] = str(e)
    _VINT[vk] = res
    return res


def vint_rule(F, rep, rule, want=("rt", "fmt", "trunc")):
    """The prefix code used for every number in the collection streams: CollectionVarInt::encode / decode are
    interpreted (MIR, vectors as values) at both ends of each of the five length classes and at every byte-carry
    point inside them (values +-1, +-255..257, +-65535..65537, +-2^24 around the ends).  Between those points both
    bodies only subtract/add a class constant and split/merge bytes with constant shifts, so a wrong threshold,
    prefix, mask or shift constant on either side shows at one of the probed values."""
    r = vint_eval(F)
    if not rep.floor(rule, (1 if r["enc"] else 0) + (1 if r["dec"] else 0), 2, "CollectionVarInt::encode / decode"):
        return
    site = "%s:%d" % (r["enc"].file, r["enc"].line_lo)
    und = r["undec"]
    for kind, what in (("rt", "decode(encode(x)) = x and exactly the encoding is consumed, at both ends of every length class and every byte-carry point"),
                       ("fmt", "encode(x) is the AGC v3 prefix code (0xxxxxxx | 10.. | 110.. | 1110.. | 11110000 + 4 bytes, class offsets 2^7, +2^14, +2^21, +2^28) on the same points"),
                       ("trunc", "every truncated encoding is refused with an error, not a panic")):
        if kind not in want:
            continue
        bad = r[kind]
        rep.ob(rule, "collection varint: " + what, und is None and not bad,
               detail=("undecidable construct: %s" % und) if und else ("%d values evaluated" % r["n"] if not bad else "%d failures, e.g. %s" % (len(bad), "; ".join(bad[:3]))),
               site=site, key="%s | collection varint %s" % (rule, kind))
    rep.stat("collection_varint_points", r["n"])


def zz_rule(F, rep, rule):
    """zigzag_decode(zigzag_encode(x, p), p) = x, evaluated on the IR of both functions for every pair of a value set that holds
    the small values, the neighbours of p and 2p for realistic predictions (segment lengths, group ids) and the 32-bit extremes.
    In the dev configuration an overflow assert is a panic and is reported; in the release configuration the arithmetic wraps
    and a wrong value is reported."""
    from absint import Interp, Undecidable, Panic
    enc, dec = F.funcs.get("ragc_common::collection::zigzag_encode"), F.funcs.get("ragc_common::collection::zigzag_decode")
    if not rep.floor(rule, sum(1 for x in (enc, dec) if x), 2, "zigzag_encode / zigzag_decode"):
        return
    preds = [0, 1, 2, 3, 7, 8, 50, 60001, 60031, (1 << 31) - 1, 1 << 31, (1 << 32) - 1]
    vals = set()
    for p in preds:
        for v in (0, 1, 2, 3, 4, 5, p - 2, p - 1, p, p + 1, p + 2, 2 * p - 2, 2 * p - 1, 2 * p, 2 * p + 1, 2 * p + 2, 2 * p + 3, 3 * p + 1):
            if 0 <= v < (1 << 33):
                vals.add(v)
    bad, undec, n = [], None, 0
    for p in preds:
        for x in sorted(vals):
            n += 1
            try:
                c = Interp(F).call(enc, [x, p])
                y = Interp(F).call(dec, [c, p])
            except Panic as e:
                bad.append("value %d with prediction %d: panics (%s)" % (x, p, e))
                continue
            except Undecidable as e:
                undec = "value %d, prediction %d: %s" % (x, p, e)
                break
            if y != x:
                bad.append("value %d with prediction %d is written as %d and read back as %d" % (x, p, c, y))
        if undec:
            break
    rep.ob(rule, "zigzag_decode(zigzag_encode(x, p), p) = x for every value/prediction pair of the finite domain (small values, p-2..p+2, 2p-2..2p+3, 32-bit extremes)",
           undec is None and not bad,
           detail=("undecidable construct: %s" % undec) if undec else ("%d pairs evaluated" % n if not bad else "%d of %d pairs fail, e.g. %s" % (len(bad), n, "; ".join(bad[:3]))),
           site="%s:%d" % (dec.file, dec.line_lo), key="%s | zigzag round trip on the finite domain" % rule)
    rep.stat("zigzag_pairs_evaluated", n)
