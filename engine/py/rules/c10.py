"""C10 — segmentation tiles contigs with exact k-base overlaps: structural clauses (DESIGN 4/C10)."""
import re

from cfg import cfg_of
from expr import Exprs, fmt, walk, contains, strip_tags
from mirutil import is_call, dominating_conds, cond_bool, for_loops, local_updates
from framework import site_of

EXPLANATION = (
    "For each body that builds Segments in a loop over bases (both segmenters): (S1) after a split the next "
    "segment starts at (pos + 1) - k with k the function's own parameter; the in-loop segment is "
    "contig[start .. pos+1]; (S2) the k-mer value tested for membership in the splitter set is the value "
    "recorded as the back k-mer of the pushed segment and then carried as the next front k-mer; the first "
    "segment's front and the last segment's back are the missing-k-mer constant; (S3) every in-loop segment is "
    "created only under `window full` and `splitter set contains the k-mer`; (S4) a contig shorter than k and "
    "the no-segment case return exactly one segment holding the whole contig with both k-mers missing, and the "
    "final segment is contig[start..]; (S5) = C20-K3 (window restart on non-ACGT); (S6) both sibling bodies "
    "satisfy the same clauses; (S8) the k-mer window the segmenter slides is exact for every k in 1..=32 (C20-K5/K1 shared); (S7) the scan position is the absolute index into the contig (enumerate directly over the contig).  That concatenation reproduces the contig is arithmetic and is not decided.")
UNDECIDED = "that dropping k bases and concatenating reproduces the contig (position arithmetic over all inputs); segment length bounds"

MISSING = 18446744073709551615


def segmenters(F):
    out = []
    for f in F.funcs.values():
        if not f.key.startswith("ragc_core::segment::") or f.kind != "fn":
            continue
        has_new = any(is_call(t, r"segment::Segment::new$") for _, t in f.calls())
        has_contains = any(is_call(t, r"HashSet<.*>::contains$|HashSet::<T, S, A>::contains$|::contains$") and "HashSet" in t.get("callee_disp", "") for _, t in f.calls())
        if has_new and has_contains:
            out.append(f)
    return out


def run(F, rep):
    rep.explanation = EXPLANATION
    rep.undecided = UNDECIDED
    rep.assumptions = ["AHashSet::contains is set membership; slices index as written"]
    segs = segmenters(F)
    if not rep.floor("C10-ANCHOR", len(segs), 2, "segmenter bodies (build Segments under a splitter-set membership test)"):
        return
    mk = F.consts.get("ragc_core::segment::MISSING_KMER", {}).get("int")
    rep.ob("C10-S2", "the missing-k-mer constant is u64::MAX", mk == MISSING, detail=str(mk), how="trivial", key="C10-S2 | MISSING_KMER")
    # ------------------------------------------------------------ S9: a segmentation is a function of this call's arguments
    # The scanning window, the counters and the output are locals of the call.  State that outlives the call - a thread_local
    # key, a static with interior mutability - makes the segments of one contig depend on which contig the same thread cut
    # before (the window of the previous contig carried into this one breaks the k-base overlap and the recorded k-mers).
    import callgraph as cgmod9
    G9 = cgmod9.CallGraph(F)
    bodies9 = set()
    for f in segs:
        bodies9 |= {k for k in G9.reachable([f.key]) if k in F.funcs and F.funcs[k].crate == "ragc_core" and
                    re.search(r"^ragc_core::(segment|kmer)::", k)}
        bodies9 |= {c.key for c in F.closures_of(f.key)}
    n9 = 0
    for k9 in sorted(bodies9):
        f9 = F.funcs[k9]
        n9 += 1
        uses = []
        for bi, t in f9.calls():
            if not t.get("indirect") and re.search(r"thread::local::LocalKey::<[^>]*(<[^>]*>)?>::\w+$", t["callee"]):
                uses.append("thread_local key via %s" % t["callee"].rsplit("::", 1)[-1])
        for b in f9.blocks:
            js = repr(b["stmts"]) + repr(b["term"])
            for st, info in F.statics.items():
                if st in js and (info.get("mut") or re.search(r"Atomic|Mutex|RwLock|Cell|OnceLock", info.get("ty", ""))):
                    uses.append("static %s" % st.rsplit("::", 1)[-1])
        rep.ob("C10-S9", "%s keeps nothing from one call to the next (no thread_local, no mutable static)" % k9.split("::", 1)[-1], not uses,
               detail="; ".join(sorted(set(uses))), site="%s:%d" % (f9.file, f9.line_lo), key="C10-S9 | %s | no state across calls" % k9)
    rep.floor("C10-S9", n9, 4, "bodies of the segmenters and of the k-mer window they drive")
    summaries = {}
    for f in segs:
        name = f.key.rsplit("::", 1)[-1]
        ex = Exprs(f)
        g = cfg_of(f)
        loops = for_loops(f, ex)
        main = max(loops, key=lambda L: len(L["body"])) if loops else None
        if main is None:
            rep.ob("C10-S1", "%s scans the contig in a loop" % name, False, key="C10-S1 | %s | loop" % f.key)
            continue
        kparam = ("param", "k")
        # S7: the scan position is the absolute index into the contig.  Every slice bound and every next start is computed
        # from it, so the loop has to number the bases of the whole contig from 0: enumerate() applied directly to the
        # contig's own iterator (an adaptor in between - skip, rev, step_by, filter - renumbers or drops positions), or a
        # range loop 0..contig.len().
        src = strip_tags(main["source"]) if main.get("source") is not None else None
        okS7, whyS7 = False, "scan loop iterates %s" % (fmt(src) if src is not None else "?")
        # adaptors applied AFTER enumerate only drop (position, base) pairs; the numbering stays absolute
        while isinstance(src, tuple) and src[0] == "call" and re.search(r"Iterator::(skip|skip_while|filter|peekable|fuse|by_ref)$", src[1]) and src[2]:
            src = strip_tags(src[2][0])
        if isinstance(src, tuple) and src[0] == "call" and src[1].endswith("Iterator::enumerate") and len(src[2]) == 1:
            inner = src[2][0]
            if isinstance(inner, tuple) and inner[0] == "call" and re.search(r"(slice::<impl \[T\]>::iter|IntoIterator>::into_iter|Vec::<T, A>::iter|Deref>::deref)$", inner[1]) \
                    and len(inner[2]) == 1 and _is_contig(f, inner[2][0]):
                okS7 = True
        elif main.get("range"):
            lo, hi = main["range"]
            okS7 = lo == ("const", 0) and isinstance(hi, tuple) and hi[0] == "call" and hi[1].endswith("::len") and _is_contig(f, hi[2][0])
        rep.ob("C10-S7", "%s: the scan position numbers the bases of the whole contig from 0 (enumerate directly over the contig)" % name, okS7, detail=whyS7,
               site=main["site"], key="C10-S7 | %s | absolute position" % f.key)
        news = [(bi, t) for bi, t in f.calls() if is_call(t, r"segment::Segment::new$")]
        inloop = [(bi, t) for bi, t in news if bi in main["body"]]
        after = [(bi, t) for bi, t in news if bi not in main["body"]]
        rep.floor("C10-S3", len(inloop), 1, "in-loop segment constructions in %s" % name)
        pos_plus_1 = None
        tested = None
        for bi, t in f.calls():
            if bi in main["body"] and "HashSet" in t.get("callee_disp", "") and t["callee"].endswith("::contains") and not t["sp"].get("exp"):
                conds = dominating_conds(f, bi, ex)
                tested = strip_tags(ex.operand(t["args"][1]))
        # S1: the segment start and the carried front k-mer are found by the shape of their in-loop updates
        ups = local_updates(f, ex)
        starts = [(bi, None, e) for nm, bi, e, er in ups if bi in main["body"] and re.match(r"(?:num::saturating_sub|Sub)\(Add\(1, ", fmt(e)) and f.locals[names_rev(f)[nm]]["ty"] == "usize"]
        SV = {nm for nm, bi, e, er in ups if bi in main["body"] and re.match(r"(?:num::saturating_sub|Sub)\(Add\(1, ", fmt(e)) and f.locals[names_rev(f)[nm]]["ty"] == "usize"}
        # the start may be computed into a helper local first (`let new_start = ..; segment_start = new_start`)
        SV |= {nm for nm, bi, e, er in ups if bi in main["body"] and isinstance(e, tuple) and e[0] == "var" and e[1] in SV}
        SV = {nm for nm in SV if any(nm == n2 and b2 not in main["body"] for n2, b2, _, _ in ups)} or SV   # the one initialised before the loop
        fronts = [(bi, None, e) for nm, bi, e, er in ups if bi in main["body"] and f.locals[names_rev(f)[nm]]["ty"] == "u64"
                  and tested is not None and (e == tested or _same_value(f, ex, e, tested)) and any(nm == n2 and b2 not in main["body"] for n2, b2, _, _ in ups)]
        CV = {nm for nm, bi, e, er in ups if bi in main["body"] and f.locals[names_rev(f)[nm]]["ty"] == "u64"
              and tested is not None and (e == tested or _same_value(f, ex, e, tested)) and any(nm == n2 and b2 not in main["body"] for n2, b2, _, _ in ups)}
        svar = next(iter(SV)) if len(SV) == 1 else None
        cvar = next(iter(CV)) if len(CV) == 1 else None
        rep.ob("C10-S1", "%s: one running segment start and one carried front k-mer" % name, svar is not None and cvar is not None,
               detail="start %s, carried front %s" % (sorted(SV), sorted(CV)), key="C10-S1 | %s | state variables" % f.key)
        if svar is None or cvar is None:
            continue
        starts = [(bi, None, e) for nm, bi, e, er in ups if bi in main["body"] and nm == svar]
        starts = [(bi, s, _resolve_var(ups, main, e)) for bi, s, e in starts]
        okS1 = False
        why = "no assignment to the segment start inside the loop"
        for bi, s, e in starts:
            fe = fmt(e)
            m = re.fullmatch(r"(?:num::saturating_sub|Sub)\(Add\(1, (.+)\), k\)", fe)
            okS1 = bool(m) and re.search(r"next\(\w+\)", fe) is not None
            why = "segment_start = %s" % fe
            if not okS1:
                # a case split written by hand: each branch is (pos + 1) - k, or 0 under a guard that implies pos + 1 <= k
                okS1, why = _start_by_cases(f, ex, e, kparam)
        rep.ob("C10-S1", "%s: next segment starts k bases before the end of the previous one ((pos + 1) - k)" % name, okS1 and len(starts) == 1, detail=why,
               site="%s:%d" % (f.file, f.line_lo), key="C10-S1 | %s | overlap" % f.key)
        # in-loop segment data = contig[segment_start .. pos+1]
        for bi, t in inloop:
            a = [strip_tags(ex.operand(x)) for x in t["args"]]
            data = fmt(a[0])
            okd = re.fullmatch(r"slice::to_vec\(index\(contig, Range::Range\{start: %s, end: Add\(1, .*next\(\w+\).*\)\}\)\)" % re.escape(svar), data) is not None
            rep.ob("C10-S1", "%s: an in-loop segment is contig[segment_start .. pos+1]" % name, okd, detail=data[:160], site=site_of(f, t), key="C10-S1 | %s | in-loop slice" % f.key)
            # S2: back k-mer == tested value == next front k-mer
            back = a[2]
            okb = tested is not None and (back == tested or _same_value(f, ex, back, tested))
            nf = [e for _, _, e in fronts]
            okf = len(nf) == 1 and (nf[0] == tested or _same_value(f, ex, nf[0], tested))
            rep.ob("C10-S2", "%s: the k-mer tested against the splitter set is recorded as the segment's back k-mer and carried as the next front k-mer" % name,
                   okb and okf, detail="tested %s; back %s; next front %s" % (fmt(tested), fmt(back), [fmt(x) for x in nf]), site=site_of(f, t),
                   key="C10-S2 | %s | boundary bookkeeping" % f.key)
            front = a[1]
            okfront, why = _carried_front(f, ex, front, cvar)
            rep.ob("C10-S2", "%s: the segment's front k-mer is the carried one (missing for the first segment)" % name, okfront, detail=why, site=site_of(f, t),
                   key="C10-S2 | %s | front" % f.key)
            # S3
            conds = [(fmt(strip_tags(c[0])), cond_bool(c[1], c[2])) for c in dominating_conds(f, bi, ex)]
            full = any(c.startswith("Kmer::is_full(") and v is True for c, v in conds)
            member = any("contains(splitters" in c and v is True for c, v in conds)
            rep.ob("C10-S3", "%s: a split happens only when the window is full and the k-mer is a splitter" % name, full and member,
                   detail="guards: %s" % [c for c in conds if c[1] is not None][-4:], site=site_of(f, t), key="C10-S3 | %s | split guard" % f.key)
        # initial front is MISSING
        init = [strip_tags(ex.rvalue(s["rv"])) for bi, b in enumerate(f.blocks) if bi not in main["body"] for s in b["stmts"]
                if s["k"] == "assign" and not s["pl"]["p"] and f.local_names().get(s["pl"]["l"]) == cvar]
        rep.ob("C10-S2", "%s: the carried front k-mer starts as missing" % name, init == [("const", MISSING)], detail=str([fmt(x) for x in init]), key="C10-S2 | %s | initial front" % f.key)
        # S4: fallbacks and final segment
        whole = [(bi, t) for bi, t in after if fmt(strip_tags(ex.operand(t["args"][0]))) == "clone(contig)"]
        okw = len(whole) == 2 and all([strip_tags(ex.operand(x)) for x in t["args"][1:3]] == [("const", MISSING), ("const", MISSING)] for _, t in whole)
        short_ok = empty_ok = False
        for bi, t in whole:
            conds = [(fmt(strip_tags(c[0])), cond_bool(c[1], c[2])) for c in dominating_conds(f, bi, ex)]
            if any(re.fullmatch(r"Lt\((Vec::)?len\(contig\), k\)", c) and v is True for c, v in conds):
                short_ok = True
            if any(re.search(r"Vec::is_empty\((?!contig\b)\w+\)$", c) and v is True for c, v in conds):
                empty_ok = True
        rep.ob("C10-S4", "%s: a contig shorter than k, and the no-split case, give one whole-contig segment with both k-mers missing" % name,
               okw and short_ok and empty_ok, detail="whole-contig constructions: %d; short guard %s; empty guard %s" % (len(whole), short_ok, empty_ok),
               site="%s:%d" % (f.file, f.line_lo), key="C10-S4 | %s | fallbacks" % f.key)
        fin = [(bi, t) for bi, t in after if "RangeFrom" in fmt(strip_tags(ex.operand(t["args"][0])))]
        okfin = len(fin) == 1 and fmt(strip_tags(ex.operand(fin[0][1]["args"][0]))) == "slice::to_vec(index(contig, RangeFrom::RangeFrom{start: %s}))" % svar
        backfin = fin and _back_missing(f, ex, strip_tags(ex.operand(fin[0][1]["args"][2])))
        rep.ob("C10-S4", "%s: the final segment is contig[segment_start..] with a missing back k-mer" % name, okfin and bool(backfin),
               detail=fmt(strip_tags(ex.operand(fin[0][1]["args"][0])))[:120] if fin else "no final segment", site=site_of(f, fin[0][1]) if fin else None,
               key="C10-S4 | %s | final segment" % f.key)
        for bi, t in fin:
            okff, why = _carried_front(f, ex, strip_tags(ex.operand(t["args"][1])), cvar)
            rep.ob("C10-S2", "%s: the final segment's front k-mer is the carried one (the last boundary k-mer, missing only if there was no split)" % name,
                   okff, detail=why, site=site_of(f, t), key="C10-S2 | %s | final front" % f.key)
        # early return for the short contig: exactly one segment
        summaries[name] = (okS1, len(inloop), len(after))
    rep.ob("C10-S6", "both segmenters have the same construction skeleton (in-loop split, final, two whole-contig fallbacks)",
           len({v[1:] for v in summaries.values()}) == 1 and len(summaries) >= 2, detail=str(summaries), key="C10-S6 | skeleton")
    # S5 = C20-K3 restricted to the segment module
    from rules import c20
    sub = type(rep)(rep.pid, rep.tier)
    c20.run(F, sub)
    for o in sub.obligations:
        if o["rule"] == "C20-K3" and "segment::" in o["key"]:
            rep.ob("C10-S5", o["instance"], o["ok"], detail=o["detail"], site=o["site"], key=o["key"].replace("C20-K3", "C10-S5"))
        # S8: the boundary k-mer the segmenter tests and records is the value of the window it slid over the contig: the
        # window arithmetic (C20-K5, every k in 1..=32) and canonical = min (C20-K1) are part of "the shared k bases are a splitter"
        if o["rule"] in ("C20-K5", "C20-K1"):
            rep.ob("C10-S8", o["instance"], o["ok"], detail=o["detail"], site=o["site"], how=o["how"], key=o["key"].replace(o["rule"], "C10-S8/" + o["rule"][4:]))


def _tuple_field_values(f, ex, e):
    """for e = field(var X, i) with X a tuple assigned in several branches: the set of values at position i"""
    if not (isinstance(e, tuple) and e[0] == "field" and isinstance(e[1], tuple) and e[1][0] == "var"):
        return None
    name, idx = e[1][1], e[2]
    loc = None
    if name.startswith("_") and name[1:].isdigit():
        loc = int(name[1:])
    else:
        for l, n in f.local_names().items():
            if n == name:
                loc = l
    if loc is None:
        return None
    out = []
    for d in ex.defs.get(loc, []):
        if d[0] == "rv" and d[3]["k"] == "agg" and d[3]["ak"] == "tuple":
            v = strip_tags(ex.rvalue(d[3]))
            dd = dict(v[2])
            if str(idx) in dd:
                out.append(dd[str(idx)])
            else:
                return None
        else:
            return None
    return out or None


def _same_value(f, ex, a, b):
    """a is a named local whose single definition equals b (e.g. kmer_value = kmer.data())"""
    tv = _tuple_field_values(f, ex, a)
    if tv is not None:
        return all(x == b or _same_value(f, ex, x, b) for x in tv)
    if isinstance(a, tuple) and a[0] == "var":
        for l, n in f.local_names().items():
            if n == a[1]:
                ds = [d for d in ex.defs.get(l, []) if d[0] != "partial"]
                vals = {repr(strip_tags(ex.rvalue(d[3]) if d[0] == "rv" else ex.call(d[3]))) for d in ds}
                if vals == {repr(b)}:
                    return True
    return False


def _start_by_cases(f, ex, e, kparam):
    from mirutil import linear, lin_sub, cond_to_le0, implies_le0
    vd = _value_defs(f, ex, e) if isinstance(e, tuple) and e[0] == "var" else None
    if not vd:
        return False, "segment_start = %s" % fmt(e)
    pos = None
    for v, bi in vd:
        for x in walk(v):
            if isinstance(x, tuple) and x[0] == "field" and "next(iter)" in fmt(x) and fmt(x).endswith(".0.0"):
                pos = x
    if pos is None:
        for v, bi in vd:
            for c in dominating_conds(f, bi, ex):
                for x in walk(strip_tags(c[0])):
                    if isinstance(x, tuple) and x[0] == "field" and "next(iter)" in fmt(x) and fmt(x).endswith(".0.0"):
                        pos = x
    if pos is None:
        return False, "segment_start = %s (no scan position in it)" % fmt(e)
    want = lin_sub(linear(("bin", "Add", ("const", 1), pos)), linear(kparam))       # pos + 1 - k
    for v, bi in vd:
        lv = {k2: c2 for k2, c2 in linear(strip_tags(v)).items() if c2}
        if lv == {k2: c2 for k2, c2 in want.items() if c2}:
            continue
        if v == ("const", 0):
            known = []
            for c in dominating_conds(f, bi, ex):
                tv = cond_bool(c[1], c[2])
                if tv is not None:
                    known += cond_to_le0(strip_tags(c[0]), tv)
            if implies_le0(known, dict(want), unsigned=True):
                continue
            return False, "segment_start = 0 in a branch whose guard does not imply pos + 1 <= k"
        return False, "segment_start = %s in one branch" % fmt(v)
    return True, "case split: (pos + 1) - k, or 0 where pos + 1 <= k"


def _is_contig(f, e):
    """the contig parameter itself (the first slice/Vec<u8> parameter), possibly behind a deref"""
    e = strip_tags(e)
    while isinstance(e, tuple) and e[0] == "call" and e[1].endswith("Deref>::deref") and len(e[2]) == 1:
        e = e[2][0]
    if not (isinstance(e, tuple) and e[0] == "param"):
        return False
    names = f.arg_names()
    for i in range(1, f.d["arg_count"] + 1):
        ty = f.locals[i]["ty"]
        if re.search(r"\[u8\]|Vec<u8>", ty):
            return names.get(i) == e[1]
    return False


def names_rev(f):
    return {n: l for l, n in f.local_names().items()}


def _resolve_var(ups, main, e):
    """a helper local assigned once inside the loop stands for its value"""
    if isinstance(e, tuple) and e[0] == "var":
        ds = [x for nm, bi, x, er in ups if nm == e[1]]
        if len(ds) == 1:
            return ds[0]
    return e


def _value_defs(f, ex, e):
    """[(value, defining block)] for an operand that is a multi-branch local or a field of a multi-branch tuple"""
    if isinstance(e, tuple) and e[0] == "field" and isinstance(e[1], tuple) and e[1][0] == "var":
        name, idx = e[1][1], e[2]
        loc = int(name[1:]) if name.startswith("_") and name[1:].isdigit() else names_rev(f).get(name)
        out = []
        for d in ex.defs.get(loc, []):
            if d[0] == "rv" and d[3]["k"] == "agg" and d[3]["ak"] == "tuple":
                dd = dict(strip_tags(ex.rvalue(d[3]))[2])
                if str(idx) not in dd:
                    return None
                out.append((dd[str(idx)], d[1]))
            else:
                return None
        return out or None
    if isinstance(e, tuple) and e[0] == "var":
        loc = int(e[1][1:]) if e[1].startswith("_") and e[1][1:].isdigit() else names_rev(f).get(e[1])
        out = []
        for d in ex.defs.get(loc, []):
            if d[0] == "rv":
                out.append((strip_tags(ex.rvalue(d[3])), d[1]))
            else:
                return None
        return out or None
    return None


def _carried_front(f, ex, front, cvar):
    """the recorded front k-mer equals the carried variable on every path: either the variable itself, or the
    missing constant in a branch where the variable was just tested to be missing"""
    C = ("var", cvar)
    if front == C:
        return True, "front = %s" % cvar
    vd = _value_defs(f, ex, front)
    if vd is None:
        return False, "front k-mer %s is not the carried k-mer `%s`" % (fmt(front), cvar)
    for v, bi in vd:
        if v == C:
            continue
        if v == ("const", MISSING):
            conds = [(strip_tags(c[0]), cond_bool(c[1], c[2])) for c in dominating_conds(f, bi, ex)]
            eq = [(("bin", "Eq", ("const", MISSING), C), True), (("bin", "Eq", C, ("const", MISSING)), True),
                  (("bin", "Ne", ("const", MISSING), C), False), (("bin", "Ne", C, ("const", MISSING)), False)]
            if any(c in eq for c in conds):
                continue
            return False, "front k-mer is the missing constant in a branch not guarded by `%s == MISSING` (guards: %s)" % (
                cvar, [(fmt(c), v2) for c, v2 in conds if v2 is not None][-2:])
        sub_ok, why = _carried_front(f, ex, v, cvar) if v != front else (False, "")
        if not sub_ok:
            return False, "front k-mer value %s is not the carried k-mer `%s`" % (fmt(v), cvar)
    return True, "front = %s on every branch (missing only where %s == MISSING)" % (cvar, cvar)


def _back_missing(f, ex, back):
    if back == ("const", MISSING):
        return True
    tv = _tuple_field_values(f, ex, back)
    if tv is not None:
        return all(x == ("const", MISSING) for x in tv)
    if isinstance(back, tuple) and back[0] in ("var", "field"):
        # tuple destructuring of (front, MISSING, ..): accept when every definition of the source is MISSING in position 1
        s = fmt(back)
        for b in f.blocks:
            for st in b["stmts"]:
                if st["k"] == "assign" and st["rv"]["k"] == "agg" and st["rv"]["ak"] == "tuple" and len(st["rv"]["ops"]) == 4:
                    e = ex.operand(st["rv"]["ops"][1])
                    if e != ("const", MISSING):
                        # in-loop tuples have the k-mer in position 1: only consider tuples outside loops
                        continue
                    return True
    return False
