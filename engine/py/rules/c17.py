"""C17 — CLI extraction composes, exit codes tell the truth (DESIGN 4/C17, rules R1..R5)."""
import re

from cfg import cfg_of
from expr import Exprs, fmt, walk, contains
from mirutil import is_call, for_loops, result_fate, returns_result, dominating_conds, cond_bool, error_blocks
from framework import site_of
import callgraph as cgmod

EXPLANATION = (
    "Rules over the CLI command bodies (ragc binary) and their callees: (R1) no call inside a per-sample loop may "
    "reach a truncating open (File::create / fs::write / OpenOptions) with a loop-invariant path, so later "
    "samples cannot erase earlier ones; (R2) every path of create to Ok(()) is dominated by a call that reaches the "
    "archive footer writer; (R3) every Result produced in a command body or main is propagated and main returns "
    "a Result; (R4) the list iterated by the extraction loop is the request list or the archive-order prefix "
    "filter, with no sort/dedup/hash container on the way; (R5) the stdout and -o branches use the same "
    "per-sample writer; (R10) the samples of a PanSN file are the header prefixes sample#haplotype (shared with C19-G8).  "
    "The CLI is not run.")
UNDECIDED = "byte equality with concatenated single-sample outputs (follows from R1/R4/R5 plus C01)"

TRUNC = re.compile(r"^std::fs::File::create$|^std::fs::write$|^std::fs::OpenOptions::open$|^std::fs::File::create_new$|^std::fs::File::options$")
REORDER = re.compile(r"::(sort\w*|dedup\w*|reverse|rev|retain\w*)$|HashSet|HashMap|BTreeSet")


def run(F, rep):
    rep.explanation = EXPLANATION
    rep.undecided = UNDECIDED
    rep.assumptions = ["the resolved call graph over-approximates what a command can reach",
                       "process exit status is non-zero iff main returns Err (std Termination)"]
    G = cgmod.CallGraph(F)
    trunc = {k for k, v in G.transitive(lambda k: any(not t.get("indirect") and TRUNC.search(t["callee"]) for _, t in F.funcs[k].calls())).items() if v}
    footer = {k for k, v in G.transitive(lambda k: k == "ragc_common::archive::Archive::serialize").items() if v}
    cmds = [f for f in F.funcs.values() if f.crate == "ragc" and f.kind == "fn" and re.match(r"ragc::\w+$", f.key)]
    rep.floor("C17-ANCHOR", len(cmds), 8, "CLI command functions in the ragc binary")

    # ------------------------------------------------------------ R7: extracting a sample leaves the handle as it was
    # getset writes the requested samples one after the other on ONE reader handle; the output is the concatenation of
    # single-sample outputs only if writing a sample changes nothing a later sample (possibly the same one) depends on.
    # That is C08's effect analysis (queries write only caches; load-once tables only grow; the loader is idempotent).
    from rules import c08
    sub = type(rep)(rep.pid, rep.tier)
    sub.cfg = getattr(rep, "cfg", "dev")
    c08.run(F, sub)
    n7 = 0
    for o in sub.obligations:
        if o["rule"] in ("C08-H8", "C08-H2") or (o["rule"] == "C08-H1" and re.search(r"query (write_sample_to|write_sample_fasta|get_sample|list_samples_with_prefix|get_samples_by_prefix) ", o["instance"])):
            n7 += 1
            rep.ob("C17-R7", o["instance"], o["ok"], detail=o["detail"], site=o["site"], how=o["how"], key=o["key"].replace(o["rule"], "C17-R7/" + o["rule"][4:]))
    rep.floor("C17-R7", n7, 8, "reader-state clauses shared with C08 (sample writers, contig tables, loader)")

    # ------------------------------------------------------------ R9: create stores every input as its own sample
    # `ragc create a.fa b.fa c.fa` exiting 0 must mean three samples: the per-file sample name must not merge inputs whose
    # names differ, nor depend on the compression suffix (C19-G5's evaluation of the name derivation, shared)
    from rules import c19
    sub = type(rep)(rep.pid, rep.tier)
    sub.cfg = getattr(rep, "cfg", "dev")
    c19.g5_rule(F, sub)
    n9 = 0
    for o in sub.obligations:
        if o["rule"] == "C19-G5":
            n9 += 1
            rep.ob("C17-R9", o["instance"], o["ok"], detail=o["detail"], site=o["site"], how=o["how"], key=o["key"].replace("C19-G5", "C17-R9"))
    rep.floor("C17-R9", n9, 2, "sample-name derivation clauses shared with C19")
    # R10: in a PanSN file the sample list is made of the header prefixes sample#haplotype (C19-G8's evaluation, shared)
    c19.g8_rule(F, rep, "C17-R10")
    # R11: a read error on an input is a failure of create - "create exiting 0 implies the archive lists every input sample"
    from rules import c16
    c16.read_fate_rule(F, rep, "C17-R11")

    # ------------------------------------------------------------ R8: buffered output is flushed before success is reported
    # A BufWriter / LineWriter dropped with data still in its buffer writes it in Drop and throws the error away, so
    # the command would exit 0 with a truncated file.  Every local of a command body whose type owns such a buffer must,
    # on every non-error path to the return, pass through a call that (transitively) flushes it and whose Result is
    # propagated.  (Unbuffered File / locked Stdout sinks need nothing; stdout is flushed explicitly - R3.)
    flushers = {k for k, v in G.transitive(lambda k: any(not t.get("indirect") and t.get("decl", "").endswith("io::Write::flush") for _, t in F.funcs[k].calls())).items() if v}
    n8 = 0
    for f in cmds:
        gq = cfg_of(f)
        exq = None
        errb = error_blocks(f)
        for l, loc in enumerate(f.locals):
            ty = loc["ty"]
            if l == 0 or not re.search(r"io::buffered::(bufwriter::BufWriter|linewriter::LineWriter)<", ty) or ty.startswith("&"):
                continue
            if "Stdout" in ty:
                continue
            nm = f.local_names().get(l)
            if nm is None:
                continue          # compiler temporaries: the named owner is what lives to the end of the scope
            n8 += 1
            exq = exq or Exprs(f)
            inits = [bi for bi, b in enumerate(f.blocks) if (b["term"]["k"] == "call" and b["term"]["dest"]["l"] == l and not b["term"]["dest"]["p"]) or
                     any(s_["k"] == "assign" and s_["pl"]["l"] == l and not s_["pl"]["p"] for s_ in b["stmts"])]
            fl = []
            for bi, t in f.calls():
                if t.get("indirect"):
                    continue
                is_flush = t.get("decl", "").endswith("io::Write::flush") or t["callee"] in flushers and (t["callee"].endswith("::flush") or t["callee"].endswith("::finish") or t["callee"].endswith("::into_inner"))
                if not is_flush:
                    continue
                mentions = any(contains(exq.operand(a), lambda x: x == ("var", nm)) for a in t["args"])
                if mentions and result_fate(F, f, bi, t) in ("propagated", "returned"):
                    fl.append(bi)
            ok = bool(inits) and bool(fl)
            if ok:
                # every normal path from the initialisation to a return passes a flush
                for ib in inits:
                    reach = gq.reachable_from(ib, avoid=set(fl))
                    for b2 in reach:
                        if f.blocks[b2]["term"]["k"] == "return" and b2 not in errb and not _only_error_paths(f, gq, ib, b2, errb, set(fl)):
                            ok = False
            rep.ob("C17-R8", "%s: buffered writer `%s` is flushed (result propagated) on every success path before it is dropped" % (f.key.split("::", 1)[-1], nm), ok,
                   detail="type %s; %d propagated flush call(s) on it" % (ty[:90], len(fl)), site="%s:%d" % (f.file, f.line_lo), key="C17-R8 | %s | %s" % (f.key, nm))
    rep.stat("buffered_writer_locals_in_commands", n8)

    # ------------------------------------------------------------ R1
    nloopcalls = 0
    for f in cmds:
        ex = Exprs(f)
        g = cfg_of(f)
        loops = for_loops(f, ex)
        allloops = g.loops()
        for bi, t in f.calls():
            if t.get("indirect"):
                continue
            inl = [(h, body) for h, body in allloops if bi in body]
            if not inl:
                continue
            c = t["callee"]
            is_trunc = c in trunc or TRUNC.search(c)
            if c in F.funcs or TRUNC.search(c):
                nloopcalls += 1
            if not is_trunc:
                continue
            # loop-variant values: anything derived from the loop's next() or assigned in the loop body
            h, body = inl[-1]
            assigned = set()
            for b in body:
                for s in f.blocks[b]["stmts"]:
                    if s["k"] == "assign" and not s["pl"]["p"]:
                        nm = f.local_names().get(s["pl"]["l"])
                        if nm:
                            assigned.add(nm)
            def variant(e):
                return contains(e, lambda x: isinstance(x, tuple) and ((x[0] == "call" and re.search(r"Iterator>?::next$", x[1])) or
                                                                      (x[0] == "var" and x[1] in assigned)))
            pathargs, strargs = [], []
            for a in t["args"]:
                ty = a.get("pl", {}).get("ty", "") if a["k"] != "const" else a.get("ty", "")
                if re.search(r"std::path::Path|PathBuf", ty):
                    pathargs.append(ex.operand(a))
                elif re.search(r"&str|alloc::string::String", ty):
                    strargs.append(ex.operand(a))
            # a path argument that is the same on every iteration is re-created each time; with no
            # path-typed argument fall back to string arguments (all invariant = same file each time)
            if pathargs:
                ok = all(variant(e) for e in pathargs)
            else:
                ok = any(variant(e) for e in strargs)
            pathargs = pathargs + strargs
            rep.ob("C17-R1", "no truncating open of a loop-invariant path inside the loop of %s" % f.key, ok,
                   detail="%s reaches a truncating open (%s); path-like arguments: %s" % (
                       c, _witness(G, F, c, trunc), [fmt(e) for e in pathargs]),
                   site=site_of(f, t), key="C17-R1 | %s | %s in loop" % (f.key, c))
    rep.floor("C17-R1", nloopcalls, 3, "calls inside loops of command bodies examined")

    # ------------------------------------------------------------ R2
    cr = F.funcs.get("ragc::create_archive")
    if rep.floor("C17-R2", 1 if cr else 0, 1, "create_archive"):
        g = cfg_of(cr)
        oks = []
        for bi, b in enumerate(cr.blocks):
            for s in b["stmts"]:
                if s["k"] == "assign" and s["pl"]["l"] == 0 and not s["pl"]["p"] and s["rv"]["k"] == "agg" and \
                        s["rv"].get("adt") == "core::result::Result" and s["rv"]["var"] == "Ok":
                    oks.append((bi, s))
        closers = [bi for bi, t in cr.calls() if not t.get("indirect") and t["callee"] in footer]
        rep.floor("C17-R2", len(oks), 1, "Ok(()) returns of create_archive")
        seen = set()
        for bi, s in oks:
            ok = any(g.dominates(c, bi) for c in closers)
            # describe the path by the conditions that lead here
            from mirutil import dominating_conds, cond_bool
            conds = ["%s=%s" % (fmt(c[0]), cond_bool(c[1], c[2])) for c in dominating_conds(cr, bi, Exprs(cr)) if cond_bool(c[1], c[2]) is not None][-3:]
            key = "C17-R2 | create_archive | Ok without finalised archive [%s]" % ";".join(conds)
            if key in seen:
                continue
            seen.add(key)
            rep.ob("C17-R2", "create returns Ok only after a call that writes the archive footer", ok,
                   detail="Ok(()) reached under %s; footer-writing calls in the body: %d" % (conds or "no condition", len(closers)),
                   site=site_of(cr, s), key=key)

    # ------------------------------------------------------------ R3
    nres = 0
    main = F.funcs.get("ragc::main")
    for f in cmds:
        if not returns_result(f):
            if f.key == "ragc::main":
                rep.ob("C17-R3", "main returns a Result", False, key="C17-R3 | main returns Result")
            continue
        for bi, t in f.calls():
            if t.get("indirect") or not t["dest"]["ty"].startswith("core::result::Result<"):
                continue
            c = t["callee"]
            if t.get("decl") == "core::ops::try_trait::Try::branch" or "FromResidual" in c:
                continue
            if t["sp"].get("exp") and t["sp"].get("mac") in ("bail", "anyhow", "format", "ensure", "eprintln", "println", "write", "writeln") and \
                    not re.search(r"io::Write", c):
                continue
            if not (c.startswith("ragc_core::") or c.startswith("ragc_common::") or c.startswith("std::fs::") or c.startswith("std::io::") or
                    c.startswith("<std::") or c.startswith("ragc::") or "std::io::Write" in c or "std::io::Read" in c):
                continue
            if re.search(r"Result::<T, E>::|anyhow::Context|::map_err|::context|::with_context|::ok_or", c):
                continue
            nres += 1
            fate = result_fate(F, f, bi, t)
            frozen = "rayon_core::ThreadPoolBuilder" in c
            ok = fate in ("propagated", "returned", "handled:panics") or frozen
            rep.ob("C17-R3", "result of %s in %s reaches the exit status" % (_short(c), f.key), ok, detail="fate: %s" % fate,
                   site=site_of(f, t), key="C17-R3 | %s | %s" % (f.key, c))
    rep.floor("C17-R3", nres, 25, "fallible calls in command bodies")
    if main:
        rep.ob("C17-R3", "main returns a Result", returns_result(main), detail=main.d.get("sig", ""), key="C17-R3 | main returns Result")
    # rayon build_global().ok() frozen exception: listed
    for f in cmds:
        for bi, t in f.calls():
            if not t.get("indirect") and "ThreadPoolBuilder" in t["callee"] and t["callee"].endswith("build_global"):
                rep.ob("C17-R3", "rayon build_global result may be ignored (already initialised is not an error)", True, how="table",
                       site=site_of(f, t), key="C17-R3 | %s | build_global" % f.key)
        for bi, t in f.calls():
            if not t.get("indirect") and t["callee"].endswith("std::process::exit"):
                code = Exprs(f).operand(t["args"][0])
                rep.ob("C17-R3", "process::exit in %s uses a non-zero status" % f.key, code[0] == "const" and code != ("const", 0),
                       site=site_of(f, t), key="C17-R3 | %s | exit status" % f.key)

    # ------------------------------------------------------------ R6: an output file is opened empty
    # `-o FILE` must end up holding exactly the requested records: opening an existing file for writing without
    # truncating it (or appending) leaves the tail of an earlier, longer extraction in place.
    nopen = 0
    for f in F.funcs.values():
        if f.crate not in ("ragc", "ragc_core") or f.kind == "promoted" or "::ffi::" in f.key:
            continue
        exf = None
        for bi, t in f.calls():
            if t.get("indirect") or not t["callee"].endswith("fs::OpenOptions::open"):
                continue
            exf = exf or Exprs(f)
            chain = fmt(exf.operand(t["args"][0]))
            nopen += 1
            writes = re.search(r"OpenOptions::(write|create)\(.*?, 1\)", chain) is not None or "OpenOptions::write" in chain
            safe = re.search(r"OpenOptions::(truncate|create_new|append)\(", chain) is not None
            if not writes:
                continue
            rep.ob("C17-R6", "a file opened for writing in %s starts empty (truncate / create_new) or is explicitly appended to" % _short(f.key), safe,
                   detail="builder chain: %s" % chain[:200], site=site_of(f, t), key="C17-R6 | %s | open for writing" % f.key)
    rep.stat("openoptions_sites", nopen)

    # ------------------------------------------------------------ R4 / R5
    gs = F.funcs.get("ragc::getset_command")
    if rep.floor("C17-R4", 1 if gs else 0, 1, "getset_command"):
        ex = Exprs(gs)
        loops = for_loops(gs, ex)
        writers = []
        nl = 0
        for L in loops:
            calls = [(b, gs.blocks[b]["term"]) for b in sorted(L["body"]) if gs.blocks[b]["term"]["k"] == "call" and
                     gs.blocks[b]["term"].get("callee", "").startswith("ragc_core::decompressor::Decompressor::")]
            if not calls:
                continue
            nl += 1
            writers.append(sorted({t["callee"] for _, t in calls}))
            src = L["source"]
            srcs = _all_defs(gs, ex, src)
            ok = True
            why = []
            for s in srcs:
                if s == ("param", "samples"):
                    why.append("request list")
                elif isinstance(s, tuple) and s[0] == "call" and s[1].endswith("Decompressor::list_samples_with_prefix"):
                    why.append("prefix filter")
                else:
                    ok = False
                    why.append("other: " + fmt(s))
                if contains(s, lambda x: isinstance(x, tuple) and x[0] == "call" and REORDER.search(x[1])):
                    ok = False
            rep.ob("C17-R4", "extraction loop iterates the request list / the archive-order prefix filter unchanged", ok,
                   detail="source: %s" % why, site=L["site"], key="C17-R4 | getset | loop source #%d" % nl)
            # per-sample call gets the loop item as sample name
            for b, t in calls:
                a = ex.operand(t["args"][1]) if len(t["args"]) > 1 else None
                rep.ob("C17-R4", "per-sample writer receives the loop item", a is not None and contains(a, lambda x: isinstance(x, tuple) and x[0] == "call" and re.search(r"Iterator>?::next$", x[1])),
                       detail=fmt(a), site=site_of(gs, t), key="C17-R4 | getset | loop item #%d" % nl)
        rep.floor("C17-R4", nl, 2, "extraction loops in getset (file branch, stdout branch)")
        # in-place reordering of a list of names anywhere in the command (sort/dedup/reverse/retain through &mut)
        for bi, t in gs.calls():
            if t.get("indirect") or not re.search(r"::(sort\w*|dedup\w*|reverse|retain\w*|swap\w*|rotate_\w+|truncate|drain|remove|pop)$", t["callee"]):
                continue
            tys = " ".join(a.get("pl", {}).get("ty", "") for a in t["args"][:1])
            if "alloc::string::String" in tys:
                rep.ob("C17-R4", "no in-place reordering/removal on a list of sample names in getset", False,
                       detail="%s on %s" % (t["callee"], tys), site=site_of(gs, t), key="C17-R4 | getset | %s on names" % t["callee"].rsplit("::", 1)[-1])
        rep.ob("C17-R5", "stdout and -o branches call the same per-sample writer", len(writers) >= 2 and all(w == writers[0] for w in writers),
               detail="writers per loop: %s" % writers, key="C17-R5 | getset | same writer")
        # the prefix filter keeps archive order
        for f in F.find(r"Decompressor::list_samples_with_prefix$"):
            bad = [t["callee"] for _, t in f.calls() if not t.get("indirect") and REORDER.search(t["callee"])]
            for c in F.closures_of(f.key):
                bad += [t["callee"] for _, t in c.calls() if not t.get("indirect") and REORDER.search(t["callee"])]
            rep.ob("C17-R4", "list_samples_with_prefix filters without reordering", not bad, detail="reordering calls: %s" % bad,
                   site="%s:%d" % (f.file, f.line_lo), key="C17-R4 | list_samples_with_prefix | no reorder")
            # ... and neither does anything it calls: a reordering call in a callee must sit behind a flag parameter
            # that every call on this path passes as the constant that switches it off
            reach = [k for k in G.reachable([f.key]) if k in F.funcs and F.funcs[k].crate in ("ragc_core", "ragc_common") and F.funcs[k].kind != "promoted"]
            nre = 0
            for k in reach:
                cf = F.funcs[k]
                cex = None
                for bi, t in cf.calls():
                    if t.get("indirect") or not REORDER.search(t["callee"]):
                        continue
                    nre += 1
                    cex = cex or Exprs(cf)
                    flags = [(c[0][1], cond_bool(c[1], c[2])) for c in dominating_conds(cf, bi, cex) if isinstance(c[0], tuple) and c[0][0] == "param" and cond_bool(c[1], c[2]) is not None]
                    ok, why = False, "unconditional %s in %s" % (t["callee"].rsplit("::", 1)[-1], _short(k))
                    if flags and k != f.key:
                        pname, need = flags[0]
                        idx = [i for i, n in enumerate(cf.arg_names().values()) if n == pname]
                        sites = [(F.funcs[c], b2, t2) for c in reach for b2, t2 in F.funcs[c].calls() if not t2.get("indirect") and t2["callee"] == k]
                        vals = []
                        for sf, b2, t2 in sites:
                            v = Exprs(sf).operand(t2["args"][idx[0]]) if idx else None
                            vals.append(v)
                        off = ("const", 0) if need else ("const", 1)
                        ok = bool(sites) and all(v is not None and v[0] == "const" and int(v[1]) == off[1] for v in vals)
                        why = "%s in %s runs when `%s` is %s; calls on this path pass %s" % (t["callee"].rsplit("::", 1)[-1], _short(k), pname, need, [fmt(v) for v in vals])
                    rep.ob("C17-R4", "no callee of list_samples_with_prefix reorders the sample list (sorting is switched off by a constant flag)", ok, detail=why,
                           site=site_of(cf, t), key="C17-R4 | list_samples_with_prefix | callee %s reorder" % k)
            rep.floor("C17-R4", nre, 1, "reordering calls behind a flag below list_samples_with_prefix (get_samples_list(sorted))")


def _short(k):
    return k.split("::", 1)[-1]


def _is_path_expr(e):
    return True


def _pathlike(e):
    return True


def _witness(G, F, c, trunc):
    if TRUNC.search(c):
        return c
    p = G.path(c, lambda k: any(not t.get("indirect") and TRUNC.search(t["callee"]) for _, t in F.funcs[k].calls()))
    if not p:
        return "?"
    last = F.funcs[p[-1]]
    prim = [t["callee"] for _, t in last.calls() if not t.get("indirect") and TRUNC.search(t["callee"])]
    return " -> ".join([_short(x) for x in p] + prim[:1])


def _all_defs(f, ex, e):
    """expand an opaque variable into the expressions of all its definitions"""
    if isinstance(e, tuple) and e[0] == "var":
        names = f.local_names()
        out = []
        for l, n in names.items():
            if n == e[1]:
                for d in ex.defs.get(l, []):
                    if d[0] == "rv":
                        v = ex.rvalue(d[3])
                    elif d[0] == "call":
                        v = ex.call(d[3])
                    else:
                        continue
                    out.extend(_all_defs(f, ex, v) if v != e else [v])
        return out or [e]
    return [e]


def _only_error_paths(f, g, src, dst, errb, avoid):
    """True if every path src -> dst that avoids the flush blocks runs through an error block"""
    seen = set()
    st = [src]
    while st:
        b = st.pop()
        if b in seen or b in avoid or b in errb:
            continue
        seen.add(b)
        if b == dst:
            return False
        st.extend(g.succ[b])
    return True
