"""C02 — AGC v3 conformance: format facts against a frozen table (DESIGN 4/C02)."""
import json
import os
import re

from cfg import cfg_of
from expr import Exprs, fmt, walk, contains, strip_tags
from mirutil import is_call, dominating_conds, cond_bool, for_loops
from framework import site_of, VERIF
import callgraph as cgmod
import pipeline

EXPLANATION = (
    "Every format-relevant constant and layout decision of writer *and* reader is extracted from the MIR and the "
    "evaluated constants and compared with a frozen AGC v3 table (engine/tables/agc_v3.json, transcribed from "
    "the format rules, not from ragc): pack separator, pack cardinality (flush thresholds, reader div/mod, "
    "metadata batch, params word), raw groups 0..15, raw placeholder only under the not-yet-written guard, LZ and "
    "raw id-to-pack mapping, one reference part per LZ group (typestate on ref_written), metadata convention "
    "(0 for stored-raw, uncompressed size otherwise), marker bytes, stream names (base64 digits, pieces, low "
    "digit first), metadata stream names and registration order, params layout, file version; part framing, "
    "integer codec and footer are the C13 rules, run here as well.  A change applied consistently to both sides "
    "keeps ragc's own round trip green but differs from the table.  "
    "(NAME) the contig-name delta code of the collection-contigs stream: the C03-NAME clauses, run here as well.")
UNDECIDED = ("that ZSTD frames, LZ-diff text and tuple bytes are what a C++ reader expects beyond these constants; "
             "that each descriptor's raw_length equals the decoded length (runtime)")

AC = "ragc_core::agc_compressor::"


def load_table():
    with open(os.path.join(VERIF, "engine", "tables", "agc_v3.json")) as fh:
        return json.load(fh)


def fmt_pieces(bs):
    """literal pieces of a core::fmt template: n<128 -> n literal bytes follow; >=128 placeholder; 0 end"""
    out = []
    i = 0
    while i < len(bs):
        n = bs[i]
        if n == 0:
            break
        if n >= 128:
            out.append(None)
            i += 1
            # placeholder options may follow for complex specs; simple `{}` has none
            continue
        out.append(bytes(bs[i + 1:i + 1 + n]).decode("latin1"))
        i += 1 + n
    return out


def templates(f):
    """format templates used in a body: list of (block, pieces)"""
    out = []
    for bi, b in enumerate(f.blocks):
        for s in b["stmts"]:
            if s["k"] == "assign" and s["rv"]["k"] == "use" and s["rv"]["op"]["k"] == "const" and "bytes" in s["rv"]["op"] and s["sp"].get("exp"):
                out.append((bi, fmt_pieces(s["rv"]["op"]["bytes"])))
    return out


def byte_pushes(f):
    """(block, term, value) for Vec<u8>::push of a constant"""
    ex = Exprs(f)
    for bi, t in f.calls():
        if t.get("indirect") or not re.search(r"Vec::<u8>::push$|Vec::<T, A>::push$", t["callee"]):
            continue
        if "u8" not in t.get("callee_disp", "") or t["sp"].get("exp"):
            continue
        v = ex.operand(t["args"][1])
        if isinstance(v, tuple) and v[0] == "const":
            yield bi, t, v[1], t["args"][1].get("item")


def _is_version_word(ex, rv):
    """major * 1000 + minor (possibly folded by the expression layer)"""
    e = ex.rvalue(rv)
    s = fmt(e)
    return re.fullmatch(r"Add\(Mul\(1000, [^()]+\), [^()]+\)|Add\([^()]+, Mul\(1000, [^()]+\)\)|Add\(Mul\([^()]+, 1000\), [^()]+\)", s) is not None


def run(F, rep):
    rep.explanation = EXPLANATION
    rep.undecided = UNDECIDED
    rep.assumptions = ["engine/tables/agc_v3.json is a faithful transcription of the AGC v3 format rules"]
    T = load_table()
    G = cgmod.CallGraph(F)
    live = pipeline.live_scope(F, G)
    comp = [f for f in F.funcs.values() if f.key in live and f.key.startswith(AC)]

    # ------------------------------------------------------------ constants
    def const_is(key, want, what):
        c = F.consts.get(key)
        rep.ob("C02-CONST", "%s = %s" % (what, want), c is not None and c.get("int") == want, detail="%s = %s" % (key, c and c.get("int")),
               site="%s:%s" % (c["file"], c["line"]) if c else None, key="C02-CONST | %s" % key)
    const_is("ragc_common::types::CONTIG_SEPARATOR", T["separator"], "pack separator")
    const_is("ragc_common::types::AGC_FILE_MAJOR", T["file_version_major"], "file version major")
    const_is("ragc_common::types::AGC_FILE_MINOR", T["file_version_minor"], "file version minor")
    npc = nrg = 0
    for k, c in F.consts.items():
        if not k.startswith("ragc_core::") or "legacy" in k or "int" not in c:
            continue
        if k.endswith("::PACK_CARDINALITY"):
            npc += 1
            rep.ob("C02-CARD", "pack cardinality constant %s = %d" % (k, T["pack_cardinality"]), c["int"] == T["pack_cardinality"], detail=str(c["int"]),
                   site="%s:%s" % (c["file"], c["line"]), key="C02-CARD | const %s" % k)
        if k.endswith("::NO_RAW_GROUPS"):
            nrg += 1
            rep.ob("C02-RAW", "raw group count constant %s = %d" % (k, T["raw_groups"]), c["int"] == T["raw_groups"], detail=str(c["int"]),
                   site="%s:%s" % (c["file"], c["line"]), key="C02-RAW | const %s" % k)
    rep.floor("C02-CARD", npc, 3, "PACK_CARDINALITY constants (compressor, finalize batch, reader)")
    rep.floor("C02-RAW", nrg, 2, "NO_RAW_GROUPS constants (compressor, reader)")

    # ------------------------------------------------------------ separator / placeholder pushes in pack builders
    nsep = nph = 0
    for f in comp:
        ex = None
        for bi, t, v, item in byte_pushes(f):
            if v == T["separator"] or (item or "").endswith("CONTIG_SEPARATOR"):
                nsep += 1
                rep.ob("C02-SEP", "separator pushed in %s is 0x%02X" % (f.key.split("::", 1)[-1], T["separator"]), v == T["separator"], site=site_of(f, t),
                       key="C02-SEP | %s | separator push" % f.key)
            elif v == T["raw_placeholder"]:
                nph += 1
                ex = ex or Exprs(f)
                conds = [(fmt(c[0]), cond_bool(c[1], c[2])) for c in dominating_conds(f, bi, ex) if cond_bool(c[1], c[2]) is not None]
                guarded = any(("placeholder" in c or "raw_placeholder_written" in c) for c, v2 in conds)
                # must be immediately followed by a separator push
                # on every path the next byte written after the placeholder is the separator
                pushes = {b2: v2 for b2, t2, v2, item2 in byte_pushes(f)}
                g2 = cfg_of(f)
                foll = t["t"] is not None
                seen2, st = set(), [t["t"]] if t["t"] is not None else []
                while st and foll:
                    b2 = st.pop()
                    if b2 in seen2:
                        continue
                    seen2.add(b2)
                    if b2 in pushes:
                        if pushes[b2] != T["separator"]:
                            foll = False
                        continue
                    if f.blocks[b2]["term"]["k"] == "return" or b2 == bi:
                        foll = False
                    st.extend(s2 for s2 in g2.succ[b2] if not f.blocks[s2]["cleanup"])
                rep.ob("C02-PLACEHOLDER", "raw placeholder 0x7f in %s is written only under the not-yet-written guard and followed by a separator" % f.key.split("::", 1)[-1],
                       guarded and foll, detail="guards: %s; followed by separator: %s" % (conds[-3:], foll), site=site_of(f, t), key="C02-PLACEHOLDER | %s" % f.key)
    rep.floor("C02-SEP", nsep, 6, "separator pushes in pack builders (3 builders x placeholder+delta)")
    # the two copies of the pack compressor (writing and compress-only variant) build and describe a pack the same way
    from mirutil import effect_profile, profile_diff
    ca, cb = F.funcs.get(AC + "flush_pack::{closure#0}"), F.funcs.get(AC + "flush_pack_compress_only::{closure#0}")
    if rep.floor("C02-SIB", sum(1 for x in (ca, cb) if x), 2, "pack compressor closures (flush_pack, flush_pack_compress_only)"):
        pa, pb = effect_profile(ca), effect_profile(cb)
        dd = profile_diff(pa, pb)
        rep.ob("C02-SIB", "both copies of the pack compressor perform the same buffer updates under the same guards (placeholder, separators, marker byte, metadata)",
               not dd and sum(pa.values()) >= 6, detail=str(dd[:3]) if dd else "%d updates each" % sum(pa.values()), site="%s:%d" % (cb.file, cb.line_lo), key="C02-SIB | pack compressor copies")
    rep.floor("C02-PLACEHOLDER", nph, 3, "raw placeholder pushes")
    dec = F.funcs.get("ragc_core::decompressor::Decompressor::unpack_contig")
    if rep.floor("C02-SEP", 1 if dec else 0, 1, "reader's pack splitter"):
        ex = Exprs(dec)
        vals = set()
        for b in dec.blocks:
            t = b["term"]
            if t["k"] == "switch":
                e = ex.operand(t["discr"])
                if isinstance(e, tuple) and e[0] == "bin" and e[1] == "Eq":
                    for o in (e[2], e[3]):
                        if o[0] == "const":
                            vals.add(o[1])
        rep.ob("C02-SEP", "reader splits packs at 0x%02X" % T["separator"], T["separator"] in vals, detail="comparison constants: %s" % sorted(vals),
               site="%s:%d" % (dec.file, dec.line_lo), key="C02-SEP | reader comparison")

    # ------------------------------------------------------------ flush thresholds (writer) and id->pack mapping (reader)
    nthr = 0
    for f in comp:
        ex = Exprs(f)
        for bi, b in enumerate(f.blocks):
            t = b["term"]
            if t["k"] != "switch":
                continue
            e = ex.operand(t["discr"])
            if isinstance(e, tuple) and e[0] == "bin" and e[1] == "Eq" and "pending_deltas" in fmt(e) and "len" in fmt(e):
                other = [o for o in (e[2], e[3]) if "pending_deltas" not in fmt(o)]
                defs = _all_values(f, ex, other[0]) if other else []
                vals = sorted(v for v in defs if v is not None)
                nthr += 1
                rep.ob("C02-CARD", "pack flush threshold in %s is cardinality (and cardinality-1 for the placeholder pack)" % f.key.split("::", 1)[-1],
                       vals == [T["pack_cardinality"] - 1, T["pack_cardinality"]], detail="threshold values: %s" % vals, site=site_of(f, t),
                       key="C02-CARD | %s | flush threshold" % f.key)
    rep.floor("C02-CARD", nthr, 2, "pack flush threshold comparisons")
    gs = F.funcs.get("ragc_core::decompressor::Decompressor::get_segment")
    if rep.floor("C02-IDMAP", 1 if gs else 0, 1, "reader get_segment"):
        ex = Exprs(gs)
        found = {}
        for bi, b in enumerate(gs.blocks):
            for s in b["stmts"]:
                if s["k"] == "assign" and not s["pl"]["p"]:
                    nm = gs.local_names().get(s["pl"]["l"])
                    rvs = strip_tags(ex.rvalue(s["rv"]))
                    # roles by shape: the pack index is a quotient, the position in the pack a remainder, of the in-group id
                    if nm and isinstance(rvs, tuple) and rvs[0] == "bin" and rvs[1] in ("Div", "Rem") and "in_group_id" in fmt(rvs):
                        nm = "pack_id" if rvs[1] == "Div" else "position_in_pack"
                        conds = [(fmt(c[0]), cond_bool(c[1], c[2])) for c in dominating_conds(gs, bi, ex)]
                        lz = any("group_id" in c and v is False for c, v in conds if c.startswith("Lt(")) or any("group_id" in c and v is True for c, v in conds if c.startswith("Le("))
                        arm = "lz" if _in_lz_arm(gs, ex, bi, T["raw_groups"]) else "raw"
                        found[(arm, nm)] = fmt(strip_tags(ex.rvalue(s["rv"])))
        C = T["pack_cardinality"]
        want = {("lz", "pack_id"): "Div(Sub(desc.in_group_id, 1), %d)" % C, ("lz", "position_in_pack"): "Rem(Sub(desc.in_group_id, 1), %d)" % C,
                ("raw", "pack_id"): "Div(desc.in_group_id, %d)" % C, ("raw", "position_in_pack"): "Rem(desc.in_group_id, %d)" % C}
        for k, w in want.items():
            rep.ob("C02-IDMAP", "reader %s group: %s = %s" % (k[0].upper(), k[1], w), found.get(k) == w, detail="found %s" % found.get(k),
                   site="%s:%d" % (gs.file, gs.line_lo), key="C02-IDMAP | reader %s %s" % k)
        # raw vs lz selection constant
        sel = [c for b in gs.blocks if b["term"]["k"] == "switch" for c in [ex.operand(b["term"]["discr"])]
               if isinstance(c, tuple) and c[0] == "bin" and c[1] in ("Lt", "Le") and "group_id" in fmt(c)]
        rep.ob("C02-RAW", "reader selects LZ decoding for group_id >= %d" % T["raw_groups"], any(fmt(c) in ("Le(%d, desc.group_id)" % T["raw_groups"], "Lt(desc.group_id, %d)" % T["raw_groups"]) for c in sel),
               detail=[fmt(c) for c in sel], key="C02-RAW | reader selection")
    nsel = 0
    for f in comp:
        ex = Exprs(f)
        for bi, b in enumerate(f.blocks):
            for s in b["stmts"]:
                if s["k"] == "assign" and not s["pl"]["p"] and f.local_names().get(s["pl"]["l"]) and f.locals[s["pl"]["l"]]["ty"] == "bool" and \
                        re.fullmatch(r"(Le|Lt)\((\d+, .*group_id|.*group_id, \d+)\)", fmt(ex.rvalue(s["rv"]))):
                    nsel += 1
                    e = fmt(ex.rvalue(s["rv"]))
                    rep.ob("C02-RAW", "writer %s selects LZ encoding for group_id >= %d" % (f.key.split("::", 1)[-1], T["raw_groups"]),
                           e in ("Le(%d, buffer.group_id)" % T["raw_groups"], "Le(%d, (*buffer).group_id)" % T["raw_groups"]) or re.fullmatch(r"Le\(%d, .*group_id\)" % T["raw_groups"], e) is not None,
                           detail=e, site=site_of(f, s), key="C02-RAW | %s | writer selection" % f.key)
    rep.floor("C02-RAW", nsel, 3, "writer raw/LZ selections")

    # ------------------------------------------------------------ one reference part per LZ group
    nref = 0
    for f in comp:
        ex = Exprs(f)
        g = cfg_of(f)
        sets = [(bi, s) for bi, b in enumerate(f.blocks) for s in b["stmts"] if s["k"] == "assign" and s["pl"]["p"] and isinstance(s["pl"]["p"][-1], dict)
                and s["pl"]["p"][-1].get("n") == "ref_written" and ex.rvalue(s["rv"]) == ("const", 1)]
        if not sets:
            continue
        # reference writes: PreCompressedPart / add_part_buffered with ref_stream_id
        writes = []
        for bi, b in enumerate(f.blocks):
            for s in b["stmts"]:
                if s["k"] == "assign" and s["rv"]["k"] == "agg" and s["rv"].get("adt", "").endswith("PreCompressedPart"):
                    d = dict(zip(s["rv"]["fields"], [ex.operand(o) for o in s["rv"]["ops"]]))
                    if "ref_stream_id" in fmt(d.get("stream_id")):
                        writes.append((bi, s))
            t = b["term"]
            if t["k"] == "call" and not t.get("indirect") and t["callee"].endswith("Archive::add_part_buffered") and "ref_stream_id" in fmt(ex.operand(t["args"][1])):
                writes.append((bi, t))
        for bi, w in writes:
            nref += 1
            conds = [(fmt(c[0]), cond_bool(c[1], c[2])) for c in dominating_conds(f, bi, ex)]
            guarded = any(c.endswith("ref_written") and v is False for c, v in conds)
            if not guarded:
                # caller-side guard: every call site of this function is under !ref_written
                sites = [(cf, cb) for cf in F.funcs.values() for cb, ct in cf.calls() if not ct.get("indirect") and ct["callee"] == f.key]
                sets_ref = any(s["k"] == "assign" and s["pl"]["p"] and isinstance(s["pl"]["p"][-1], dict) and s["pl"]["p"][-1].get("n") == "reference_segment"
                               for b in f.blocks for s in b["stmts"])

                def site_guard(cf, cb):
                    for c in dominating_conds(cf, cb, Exprs(cf)):
                        s = fmt(c[0])
                        if s.endswith("ref_written") and cond_bool(c[1], c[2]) is False:
                            return True
                        # equivalent typestate: `reference_segment.is_none()` when the callee records the reference there
                        if sets_ref and "is_none" in s and s.rstrip(")").endswith("reference_segment") and cond_bool(c[1], c[2]) is True:
                            return True
                    return False
                guarded = bool(sites) and all(site_guard(cf, cb) for cf, cb in sites)
            followed = any(g.dominates(bi, sb) or sb in g.reachable_from(bi) for sb, _ in sets) and not _can_exit_without(g, bi, {sb for sb, _ in sets}, f)
            rep.ob("C02-REFONCE", "reference part in %s is written only when !ref_written and ref_written is set afterwards on every success path" % f.key.split("::", 1)[-1],
                   guarded and followed, detail="guarded: %s; set on all paths: %s" % (guarded, followed), site=site_of(f, w), key="C02-REFONCE | %s" % f.key)
    rep.floor("C02-REFONCE", nref, 4, "reference part writes (2 per builder: compressed / stored raw)")

    # ------------------------------------------------------------ metadata convention + marker for packs
    nmeta = 0
    for f in comp:
        ex = Exprs(f)
        parts = []
        for bi, b in enumerate(f.blocks):
            for s in b["stmts"]:
                if s["k"] == "assign" and s["rv"]["k"] == "agg" and s["rv"].get("adt", "").endswith("PreCompressedPart"):
                    d = dict(zip(s["rv"]["fields"], [ex.operand(o) for o in s["rv"]["ops"]]))
                    parts.append((bi, s, d))
        for bi, s, d in parts:
            nmeta += 1
            md, data = d.get("metadata"), d.get("data")
            if md == ("const", 0):
                ok = not contains(data, lambda x: isinstance(x, tuple) and x[0] == "call" and re.search(r"compress_(reference_segment|segment_configured|segment)", x[1]))
                why = "metadata 0 with data %s" % fmt(data)[:120]
            else:
                # metadata must be the length of the vector that was handed to the compressor (the unpacked size)
                srcs = [fmt(strip_tags(ex.operand(t2["args"][0]))) for _, t2 in f.calls() if not t2.get("indirect") and
                        re.search(r"segment_compression::compress_(reference_segment|segment_configured|segment)$", t2["callee"])]
                m = fmt(strip_tags(md))
                ok = any(m in ("len(%s)" % s, "Vec::len(%s)" % s, "slice::len(%s)" % s) for s in srcs)
                why = "metadata %s; compressor inputs %s" % (m[:100], srcs)
            rep.ob("C02-META", "part metadata in %s: 0 for stored-raw data, uncompressed length otherwise" % f.key.split("::", 1)[-1], ok, detail=why,
                   site=site_of(f, s), key="C02-META | %s | %s" % (f.key, "raw" if md == ("const", 0) else "packed"))
    rep.floor("C02-META", nmeta, 8, "PreCompressedPart constructions")
    # pack marker 0 pushed after compress_segment_configured
    nmk = 0
    for f in comp:
        g = cfg_of(f)
        cs = [bi for bi, t in f.calls() if not t.get("indirect") and t["callee"].endswith("segment_compression::compress_segment_configured")]
        if not cs:
            continue
        zero = [bi for bi, t, v, item in byte_pushes(f) if v == T["marker_plain"]]
        for c in cs:
            nmk += 1
            ok = any(g.dominates(c, z) for z in zero)
            rep.ob("C02-MARK", "pack compressed in %s gets the plain-ZSTD marker byte 0 appended" % f.key.split("::", 1)[-1], ok, site=site_of(f, f.blocks[c]["term"]),
                   key="C02-MARK | %s | pack marker" % f.key)
    rep.floor("C02-MARK", nmk, 3, "pack compression sites")

    # ------------------------------------------------------------ stream names
    i2b = F.funcs.get("ragc_common::stream_naming::int_to_base64")
    if rep.floor("C02-NAMES", 1 if i2b else 0, 1, "int_to_base64"):
        digs = [c for k, c in F.consts.items() if k.startswith("ragc_common::stream_naming::int_to_base64::") and "bytes" in c]
        ok = any(bytes(c["bytes"]).decode("latin1") == T["base64_digits"] for c in digs)
        rep.ob("C02-NAMES", "base64 digit alphabet is 0-9A-Za-z_#", ok, detail=[bytes(c["bytes"]).decode("latin1") for c in digs], key="C02-NAMES | digits")
        ex = Exprs(i2b)
        s = " ".join(fmt(ex.rvalue(st["rv"])) for b in i2b.blocks for st in b["stmts"] if st["k"] == "assign")
        calls = [t["callee"] for _, t in i2b.calls()]
        rep.ob("C02-NAMES", "digit = n & 0x3f, then n /= 64, low digit first (no reversal)", "BitAnd(63, n)" in s and "Div(n, 64)" in s and
               not any(re.search(r"::(rev|reverse|insert)$", c) for c in calls), detail="calls: %s" % [c.rsplit("::", 1)[-1] for c in calls], key="C02-NAMES | digit order")
    for fn, key in (("stream_ref_name", "ref_stream_pieces"), ("stream_delta_name", "delta_stream_pieces")):
        f = F.funcs.get("ragc_common::stream_naming::" + fn)
        if not rep.floor("C02-NAMES", 1 if f else 0, 1, fn):
            continue
        ex = Exprs(f)
        v3 = None
        for bi, pieces in templates(f):
            conds = [(fmt(c[0]), cond_bool(c[1], c[2])) for c in dominating_conds(f, bi, ex)]
            if ("Lt(archive_version, 3000)", False) in conds:
                v3 = [p for p in pieces if p is not None]
                uses_b64 = any(not t.get("indirect") and t["callee"].endswith("int_to_base64") for _, t in f.calls())
        rep.ob("C02-NAMES", "%s (v3) = %s<base64 id>%s" % (fn, T[key][0], T[key][1]), v3 == T[key] and uses_b64, detail="pieces %s" % v3,
               site="%s:%d" % (f.file, f.line_lo), key="C02-NAMES | %s" % fn)
    # archive_version = major*1000 + minor on both sides
    nav = 0
    for f in F.funcs.values():
        if f.key not in live:
            continue
        ex = None
        for bi, b in enumerate(f.blocks):
            for s in b["stmts"]:
                if s["k"] == "assign" and not s["pl"]["p"] and f.local_names().get(s["pl"]["l"]) and f.locals[s["pl"]["l"]]["ty"] == "u32" and \
                        s["rv"]["k"] in ("bin", "binop", "checked", "use") and _is_version_word(ex or Exprs(f), s["rv"]):
                    ex = ex or Exprs(f)
                    e = ex.rvalue(s["rv"])
                    nav += 1
                    rep.ob("C02-NAMES", "archive_version in %s = major*1000 + minor" % f.key.split("::", 1)[-1],
                           e == ("bin", "Add", ("bin", "Mul", ("const", 1000), ("const", T["file_version_major"])), ("const", T["file_version_minor"])) or
                           e == ("bin", "Add", ("const", T["file_version_minor"]), ("bin", "Mul", ("const", 1000), ("const", T["file_version_major"]))) or
                           _const_value(e) == T["file_version_major"] * 1000 + T["file_version_minor"], detail=fmt(e), site=site_of(f, s),
                           key="C02-NAMES | %s | archive_version" % f.key)
    rep.floor("C02-NAMES", nav, 3, "archive_version computations")

    # ------------------------------------------------------------ metadata streams and order, params layout
    regs = []
    ctor = F.funcs.get(AC + "StreamingQueueCompressor::with_splitters_internal")
    strs = set()
    for f in F.funcs.values():
        if f.key not in live:
            continue
        ex = None
        for bi, t in f.calls():
            if not t.get("indirect") and re.search(r"Archive::(register_stream|get_stream_id)$", t["callee"]):
                ex = ex or Exprs(f)
                a = ex.operand(t["args"][1])
                if a[0] == "str":
                    strs.add(a[1])
    missing = [s for s in T["metadata_streams"] if s not in strs]
    rep.ob("C02-STREAMS", "metadata stream names are exactly the AGC v3 names", not missing, detail="missing: %s; seen: %s" % (missing, sorted(strs)), key="C02-STREAMS | names")
    if rep.floor("C02-STREAMS", 1 if ctor else 0, 1, "compressor constructor"):
        g = cfg_of(ctor)
        ex = Exprs(ctor)
        prep = [bi for bi, t in ctor.calls() if not t.get("indirect") and t["callee"].endswith("CollectionV3::prepare_for_compression")]
        others = [bi for bi, t in ctor.calls() if not t.get("indirect") and t["callee"].endswith("Archive::register_stream")]
        rep.ob("C02-STREAMS", "collection streams are registered before every other stream", bool(prep) and all(g.dominates(prep[0], o) for o in others),
               detail="%d later registrations" % len(others), key="C02-STREAMS | collection first")
        pfc = F.funcs.get("ragc_common::collection::CollectionV3::prepare_for_compression")
        if pfc:
            exp = Exprs(pfc)
            order = [exp.operand(t["args"][1])[1] for _, t in sorted(pfc.calls()) if not t.get("indirect") and t["callee"].endswith("Archive::register_stream")]
            rep.ob("C02-STREAMS", "collection streams are registered in the order samples, contigs, details", order == T["collection_streams_first"], detail=str(order),
                   key="C02-STREAMS | collection order")
        # params layout: order of to_le_bytes pushes into the params vector
        words = []
        for bi, t in sorted(ctor.calls()):
            if not t.get("indirect") and t["callee"].endswith("extend_from_slice"):
                a = ex.operand(t["args"][1])
                if isinstance(a, tuple) and a[0] == "call" and a[1].endswith("to_le_bytes"):
                    words.append((fmt(a[2][0]), t["callee_disp"]))
        names = []
        for w, _ in words:
            if w.endswith("config.k"):
                names.append("k")
            elif w.endswith("min_match_len"):
                names.append("min_match_len")
            elif w == str(T["pack_cardinality"]):
                names.append("pack_cardinality")
            elif w.endswith("segment_size"):
                names.append("segment_size")
            else:
                names.append("?" + w)
        rep.ob("C02-PARAMS", "params stream = LE u32 k, min_match_len, pack cardinality (%d), segment size" % T["pack_cardinality"], names == T["params_layout"],
               detail=str(names), key="C02-PARAMS | writer layout")
    lp = F.funcs.get("ragc_core::decompressor::Decompressor::load_params")
    if rep.floor("C02-PARAMS", 1 if lp else 0, 1, "load_params"):
        ex = Exprs(lp)
        offs = {}
        defs = []
        for bi, b in enumerate(lp.blocks):
            for s in b["stmts"]:
                if s["k"] == "assign" and not s["pl"]["p"]:
                    defs.append((lp.local_names().get(s["pl"]["l"]), ex.rvalue(s["rv"])))
            t = b["term"]
            if t["k"] == "call" and not t["dest"]["p"]:
                defs.append((lp.local_names().get(t["dest"]["l"]), ex.call(t)))
        # roles come from where the values end up: position in the returned tuple -> field of the reader that stores it
        by_name = {}
        for nm, e in defs:
            if nm and "from_le_bytes" in repr(e):
                idx = sorted(_index_const(x) for x in walk(e) if _index_const(x) is not None)
                if idx:
                    by_name.setdefault(nm, []).extend(idx)
        pos_offs = {}
        for bi, b in enumerate(lp.blocks):
            for s in b["stmts"]:
                if s["k"] == "assign" and s["pl"]["l"] == 0 and not s["pl"]["p"]:
                    e = ex.rvalue(s["rv"])
                    if isinstance(e, tuple) and e[0] == "agg" and e[1].endswith("Result::Ok"):
                        tup = dict(e[2]).get("0")
                        if isinstance(tup, tuple) and tup[0] == "agg" and tup[1] == "tuple":
                            for pos, comp in tup[2]:
                                idx = sorted(_index_const(x) for x in walk(comp) if _index_const(x) is not None)
                                if not idx and isinstance(comp, tuple) and comp[0] == "var":
                                    idx = sorted(set(by_name.get(comp[1], [])))
                                pos_offs[int(pos)] = idx
        for cf in F.funcs.values():
            if not any(not ct.get("indirect") and ct["callee"] == lp.key for _, ct in cf.calls()):
                continue
            cex = Exprs(cf)
            for cb in cf.blocks:
                for s in cb["stmts"]:
                    if s["k"] == "assign" and s["rv"]["k"] == "agg" and s["rv"].get("adt", "").endswith("decompressor::Decompressor"):
                        for fn, o in zip(s["rv"]["fields"], s["rv"]["ops"]):
                            v = fmt(cex.operand(o))
                            m = re.search(r"load_params\(.*\) as Continue\)\.0\.(\d+)$", v)
                            if m:
                                offs[fn.lstrip("_")] = pos_offs.get(int(m.group(1)))
        want = {"kmer_length": [0, 1, 2, 3], "min_match_len": [4, 5, 6, 7], "segment_size": [12, 13, 14, 15]}
        rep.ob("C02-PARAMS", "reader takes k, min_match_len and segment size from bytes 0-3, 4-7, 12-15 of the params part (bytes 8-11 hold the cardinality)", offs == want, detail=str(offs),
               site="%s:%d" % (lp.file, lp.line_lo), key="C02-PARAMS | reader layout")
    params_len_rule(F, rep, "C02-PARAMS", 4 * len(T["params_layout"]))
    # metadata batch of 50 samples in finalize
    fin = F.funcs.get(AC + "StreamingQueueCompressor::finalize")
    if fin:
        ex = Exprs(fin)
        ok = False
        for bi, t in fin.calls():
            if not t.get("indirect") and t["callee"].endswith("store_contig_batch"):
                a = ex.operand(t["args"][3])
                frm = ex.operand(t["args"][2])
                ok = isinstance(frm, tuple) and frm[0] == "var" and ("Add(%d, %s)" % (T["pack_cardinality"], frm[1])) in fmt(a)
        rep.ob("C02-CARD", "metadata is written in batches of %d samples" % T["pack_cardinality"], ok, key="C02-CARD | metadata batch")

    # ------------------------------------------------------------ container framing (C13 rules run here too)
    from rules import c13
    c13._footer(F, rep, F.funcs.get(c13.ARCH + "serialize"), F.funcs.get(c13.ARCH + "deserialize"))
    c13._varint(F, rep)
    # descriptor-table predictor (the C++-matching update rule): the C03-PRED rules, run here under C02
    from rules import c03
    sub = type(rep)(rep.pid, rep.tier)
    c03.run(F, sub)
    for o in sub.obligations:
        if o["rule"] == "C03-PRED":
            rep.ob("C02-PRED", o["instance"], o["ok"], detail=o["detail"], site=o["site"], key=o["key"].replace("C03-PRED", "C02-PRED"))
    # (NAME) the collection-contigs stream holds names in the AGC delta code (fields cut at single spaces, run / same-field
    # markers, 0 terminator): a reader built from the format rules recovers other names when either side departs from it
    n = 0
    for o in sub.obligations:
        if o["rule"] in ("C03-NAME", "C03-RUN"):
            n += 1
            rep.ob("C02-NAME", o["instance"], o["ok"], detail=o["detail"], site=o["site"], how=o["how"], key=o["key"].replace(o["rule"], "C02-NAME"))
    rep.floor("C02-NAME", n, 7, "contig-name codec clauses shared with C03")
    # LZ-diff text: the predicted reference position moves as the format says (+1 per literal, unchanged by an N-run, coded
    # position + length after a match).  A change made consistently on both sides still round-trips in ragc but is not AGC.
    from rules import c09
    c09.pred_rules(F, rep, "C02-LZ")
    # tuple packing of reference segments is part of the format: pack(x) must be the AGC v3 packing (a change made
    # consistently in packer and unpacker still round-trips in ragc)
    if getattr(F, "cfg", "dev") == "dev":
        from rules import c12
        if F.funcs.get(c12.TP + "bytes_to_tuples") and F.funcs.get(c12.TP + "tuples_to_bytes"):
            c12.tp4_rule(F, rep, "C02-TUPLE", want=("fmt",))
    # (MML) the match-length bias of the LZ text is the min_match_len recorded in the params stream: the coder's field is a
    # plain copy of its constructor argument (no clamp, no arithmetic), so that a reader applying the recorded value decodes
    # what was written
    lzn = F.funcs.get("ragc_core::lz_diff::LZDiff::new")
    if rep.floor("C02-MML", 1 if lzn else 0, 1, "LZDiff::new"):
        exn = Exprs(lzn)
        stored = None
        for b in lzn.blocks:
            for s_ in b["stmts"]:
                if s_["k"] == "assign" and s_["rv"]["k"] == "agg" and s_["rv"].get("adt", "").endswith("lz_diff::LZDiff"):
                    d = dict(zip(s_["rv"]["fields"], [strip_tags(exn.operand(o)) for o in s_["rv"]["ops"]]))
                    stored = d.get("min_match_len")
        pn = [nm for l, nm in sorted(lzn.arg_names().items())]
        ok = isinstance(stored, tuple) and stored[0] == "param" and stored[1] in pn
        rep.ob("C02-MML", "LZDiff keeps the minimum match length it is given (the value the params stream records) as the bias of every match length", ok,
               detail="field min_match_len = %s" % fmt(stored), site="%s:%d" % (lzn.file, lzn.line_lo), key="C02-MML | LZDiff::new | bias is the parameter")
    # the collection varint as it is computed (not only its constants): AGC v3 prefix code at every class end and byte-carry point
    if getattr(F, "cfg", "dev") == "dev":
        from rules import c03 as c03v
        c03v.vint_rule(F, rep, "C02-VINT", want=("fmt", "rt"))
    # collection varint thresholds
    cv = {k.rsplit("::", 1)[-1]: c.get("int") for k, c in F.consts.items() if k.startswith("ragc_common::collection::CollectionVarInt::")}
    rep.stat("collection_varint_consts", cv)
    th = sorted(v for k, v in cv.items() if k.startswith("THR_") and isinstance(v, int))
    rep.ob("C02-CVARINT", "collection varint prefix thresholds are 2^7, +2^14, +2^21, +2^28 (cumulative)", _cum_ok(th, T["varint_prefix_thresholds"]),
           detail=str(cv), key="C02-CVARINT | thresholds")


def _index_const(x):
    if isinstance(x, tuple) and x[0] == "index" and isinstance(x[2], tuple) and x[2][0] == "const":
        return x[2][1]
    if isinstance(x, tuple) and x[0] == "call" and re.search(r"Index(<[^>]*>)?>::index$", x[1]) and len(x[2]) == 2 and x[2][1][0] == "const":
        return x[2][1][1]
    return None


def _cum_ok(found, base):
    cum = []
    s = 0
    for b in base:
        s += b
        cum.append(s)
    return found[:4] == cum[:len(found[:4])] and len(found) >= 4


def _const_value(e):
    from audit import interval
    iv = interval(e)
    return iv[0] if iv and iv[0] == iv[1] else None


def _straight_line(f, b):
    """blocks reached from b through single-successor edges (same basic region)"""
    g = cfg_of(f)
    out = [b]
    cur = b
    for _ in range(6):
        ss = g.succ[cur]
        if len(ss) != 1:
            break
        cur = ss[0]
        out.append(cur)
    return out


def _all_values(f, ex, e):
    """constant values an opaque variable can take (all its definitions), else [None]"""
    from audit import interval
    iv = interval(e)
    if iv and iv[0] == iv[1]:
        return [iv[0]]
    if isinstance(e, tuple) and e[0] == "var":
        out = []
        for l, n in f.local_names().items():
            if n == e[1]:
                for d in ex.defs.get(l, []):
                    if d[0] == "rv":
                        v = interval(ex.rvalue(d[3]))
                        out.append(v[0] if v and v[0] == v[1] else None)
        return out or [None]
    return [None]


def _in_lz_arm(f, ex, bi, raw_groups):
    for e, how, vals, sb in dominating_conds(f, bi, ex):
        s = fmt(e)
        t = cond_bool(how, vals)
        if s == "Le(%d, desc.group_id)" % raw_groups:
            return t is True
        if s == "Lt(desc.group_id, %d)" % raw_groups:
            return t is False
    return False


def _can_exit_without(g, start, must, f):
    """is a normal return reachable from `start` without passing one of `must` and without an error edge?"""
    from mirutil import error_blocks
    errb = error_blocks(f)
    seen = set()
    st = [start]
    while st:
        x = st.pop()
        if x in seen or x in must or x in errb:
            continue
        seen.add(x)
        if f.blocks[x]["term"]["k"] == "return":
            return True
        st.extend(g.succ[x])
    return False


def params_len_rule(F, rep, rule, width=16):
    """The params part ragc writes is exactly `width` bytes (4 LE u32).  Every read of a byte of it in load_params must be
    reachable for a part of that length: the conditions on the part's length that dominate the read are evaluated with
    len = width (`len >= 16` holds, `len > 16` does not - and the reader would fall back to a default the writer did not use)."""
    from mirutil import dominating_conds
    lp = F.funcs.get("ragc_core::decompressor::Decompressor::load_params")
    if not rep.floor(rule, 1 if lp else 0, 1, "load_params"):
        return
    ex = Exprs(lp)

    def ev(e):
        if not isinstance(e, tuple):
            return None
        if e[0] == "const" and isinstance(e[1], int):
            return e[1]
        if e[0] == "call" and re.search(r"(Vec::<T(, A)?>|slice::<impl \[T\]>)::len$", e[1]):
            return width
        if e[0] == "bin":
            a, b = ev(e[2]), ev(e[3])
            if a is None or b is None:
                return None
            return {"Le": int(a <= b), "Lt": int(a < b), "Ge": int(a >= b), "Gt": int(a > b), "Eq": int(a == b), "Ne": int(a != b),
                    "Add": a + b, "Sub": a - b}.get(e[1])
        return None
    n = 0
    for bi, t in lp.calls():
        if t.get("indirect") or not t["callee"].endswith("from_le_bytes"):
            continue
        idx = sorted(_index_const(x) for x in walk(ex.call(t)) if _index_const(x) is not None)
        if not idx or idx[-1] >= width:
            continue
        n += 1
        blocked = []
        for c in dominating_conds(lp, bi, ex):
            e, how, vals = c[0], c[1], c[2]
            v = ev(e)
            if v is None:
                continue
            holds = (v in vals) if how == "is" else (v not in vals)
            if not holds:
                blocked.append("%s is %s for a part of %d bytes" % (fmt(e)[:60].replace(fmt(e)[fmt(e).find("Vec::len("):], "len") if "Vec::len(" in fmt(e) else fmt(e)[:60], bool(v), width))
        rep.ob(rule, "bytes %d..%d of the params part are read from the %d-byte part the writer emits" % (idx[0], idx[-1], width), not blocked,
               detail="; ".join(blocked) if blocked else "every length condition on the way holds for len = %d" % width, site=site_of(lp, t),
               key="%s | load_params | bytes %d-%d read for the written length" % (rule, idx[0], idx[-1]))
    rep.floor(rule, n, 4, "little-endian words read from the params part")
