"""C16 — every created archive is extractable for any FASTA text: three clauses (DESIGN 4/C16)."""
import re

from absint import Undecidable, tabulate
from cfg import cfg_of
from expr import Exprs, fmt, walk, contains
from mirutil import is_call, dominating_conds, cond_bool, for_loops
from framework import site_of
import callgraph as cgmod
import pipeline
import symbols
from rules import c09

EXPLANATION = (
    "Three shape-level necessary conditions: (ALPHA) the LZ literal alphabet derived from the input table over "
    "*every* byte the FASTA reader keeps is recognised by the decoder (same tables as C09-ALPHA); (EOF) in the raw "
    "record reader every `return Ok(None)` - which all callers treat as end of input - is control-dependent on "
    "the underlying read having returned 0 bytes (directly, or through a flag that is only set there) or on the "
    "reader being absent, so an empty record cannot end the file early; callers stop only on None; (OUT) the "
    "output mapping is the documented normalisation, as a table check: for every kept input byte c, either its "
    "code is < 16 and CNV_NUM[code] == upper(c), or its code is >= 16 and both output sites map it to 'N'; (NAME) the "
    "contig-name delta codec clauses of C03 (run-length counting, cap, token split/join), since a record whose "
    "name reads back differently does not equal the input; (LINE) the record reader appends every sequence line it "
    "reads and tests a line's raw length only against zero (shared with C19-G3), so no base is lost to the way "
    "lines are wrapped or terminated; (LOAD) every accessor loads every metadata batch, in order (shared with C08/C03), so "
    "a listed sample cannot come back without its records.")
UNDECIDED = "the full claim 'extracts without error' (depends on the data behaviour of C01/C09)"


def run(F, rep):
    rep.explanation = EXPLANATION
    rep.undecided = UNDECIDED
    rep.assumptions = ["finite-domain evaluation of the extracted IR is exact; unsupported constructs fail closed",
                       "BufRead::read_until returns 0 only at end of input (std contract)"]
    S = c09.alpha_rules(F, rep, "C16")
    eof_rules(F, rep)
    read_fate_rule(F, rep)
    out_rules(F, rep)
    # (NAME) contig names are part of "equals the input": the name codec clauses of C03 are necessary here too
    from rules import c03
    sub = type(rep)(rep.pid, rep.tier)
    c03.run(F, sub)
    n = 0
    for o in sub.obligations:
        if o["rule"] in ("C03-NAME", "C03-RUN"):
            n += 1
            rep.ob("C16-NAME", o["instance"], o["ok"], detail=o["detail"], site=o["site"], how=o["how"], key=o["key"].replace(o["rule"], "C16-NAME"))
    rep.floor("C16-NAME", n, 7, "contig-name codec clauses shared with C03")
    c09.empty_rules(F, rep, "C16")     # a segment that is a prefix of its reference must not be stored as "same as the reference"
    # (LINE) no sequence line is dropped by the record reader (shared with C19-G3)
    from rules import c19
    sub = type(rep)(rep.pid, rep.tier)
    c19.run(F, sub)
    n = 0
    for o in sub.obligations:
        if o["key"] in ("C19-G3 | raw line length test", "C19-G3 | no skipped line", "C19-G3 | append lines"):
            n += 1
            rep.ob("C16-LINE", o["instance"], o["ok"], detail=o["detail"], site=o["site"], how=o["how"], key=o["key"].replace("C19-G3", "C16-LINE"))
    rep.floor("C16-LINE", n, 4, "line-handling clauses of the record reader shared with C19")
    # (RC) segments stored in reverse orientation pass through a per-base complement map: it has to keep every code the FASTA
    # letters can produce (IUPAC ambiguity codes, the code of unknown letters), on the writer and on the reader (shared with C01)
    from rules import c01
    sub = type(rep)(rep.pid, rep.tier)
    sub.cfg = getattr(rep, "cfg", "dev")
    c01.rc_rule(F, sub)
    n = 0
    for o in sub.obligations:
        if o["rule"] == "C01-RC":
            n += 1
            rep.ob("C16-RC", o["instance"], o["ok"], detail=o["detail"], site=o["site"], how=o["how"], key=o["key"].replace("C01-RC", "C16-RC"))
    rep.floor("C16-RC", n, 3, "per-base orientation maps shared with C01")
    # (PACK) reference segments go through the tuple packer whatever letters the FASTA text contains: an alphabet-dependent
    # arm that packs a symbol its base cannot hold makes create succeed and extraction return other bases (shared with C12)
    from rules import c12
    sub = type(rep)(rep.pid, rep.tier)
    sub.cfg = getattr(rep, "cfg", "dev")
    c12.run(F, sub)
    n = 0
    for o in sub.obligations:
        if o["rule"] in ("C12-TP1", "C12-TP2", "C12-TP3", "C12-TP4", "C12-MK", "C12-ZBUF", "C12-IO"):
            n += 1
            rep.ob("C16-PACK", o["instance"], o["ok"], detail=o["detail"], site=o["site"], how=o["how"], key=o["key"].replace(o["rule"], "C16-PACK/" + o["rule"][4:]))
    rep.floor("C16-PACK", n, 10, "tuple-packing clauses shared with C12")
    # (LOAD) a sample's records come from the lazily loaded contig-name batches: every accessor loads every batch, in
    # order, into a loader that places a batch at a cumulative cursor - a reader that loads only "its" batch returns a listed
    # sample with no records and exit 0 (shared with C08-H2/H6 and C03-BATCH)
    from rules import c08
    sub = type(rep)(rep.pid, rep.tier)
    sub.cfg = getattr(rep, "cfg", "dev")
    c08.run(F, sub)
    c03.cursor_rule(F, sub, "C03-BATCH")
    n = 0
    for o in sub.obligations:
        if o["rule"] in ("C08-H2", "C08-H6", "C03-BATCH"):
            n += 1
            rep.ob("C16-LOAD", o["instance"], o["ok"], detail=o["detail"], site=o["site"], how=o["how"], key=o["key"].replace(o["rule"], "C16-LOAD/" + o["rule"][4:]))
    rep.floor("C16-LOAD", n, 9, "lazy metadata loading clauses shared with C08 and C03")


def read_fate_rule(F, rep, rule="C16-READ"):
    """A failing read of an input file is a failure of create, not the end of the input: every result of a std read primitive
    in the FASTA reader (and in helpers it calls) is handed on with `?` or returned - no arm turns an error into a count."""
    from mirutil import result_fate
    READ = re.compile(r"io::(BufRead|Read)::(read_until|read_line|read_exact|read_to_end|read_to_string|read|fill_buf)$")
    n = 0
    for f in F.funcs.values():
        if f.crate != "ragc_core" or f.d.get("test") or not re.search(r"^ragc_core::(genome_io|contig_iterator)::", f.key):
            continue
        for bi, t in f.calls():
            if t.get("indirect") or not (READ.search(t.get("decl", "")) or READ.search(t["callee"])):
                continue
            if not t["dest"]["ty"].startswith("core::result::Result<"):
                continue
            n += 1
            fate = result_fate(F, f, bi, t)
            rep.ob(rule, "result of %s in %s is propagated (a read error is not an end of input)" % (t.get("decl", t["callee"]).rsplit("::", 1)[-1], f.key.split("::", 1)[-1]),
                   fate in ("propagated", "returned"), detail="fate: %s" % fate, site=site_of(f, t),
                   key="%s | %s | %s" % (rule, f.key, t.get("decl", t["callee"]).rsplit("::", 1)[-1]))
    rep.floor(rule, n, 1, "std read calls in the FASTA reader")


_LINE_READERS = set()


def eof_rules(F, rep):
    R = "C16-EOF"
    # a local helper that returns what read_until returned (io::Result<usize>) stands for read_until (that it hands the
    # result on unchanged is C16-READ's clause)
    global _LINE_READERS
    _LINE_READERS = {f.key for f in F.funcs.values() if f.crate == "ragc_core" and re.search(r"^ragc_core::genome_io::", f.key) and
                     any(is_call(t, r"BufRead>?::read_until$") for _, t in f.calls()) and
                     re.search(r"-> (std::io::(error::)?Result<usize>|core::result::Result<usize, std::io::(error::)?Error>)", f.d.get("sig", ""))}
    readers = [f for f in F.funcs.values() if f.crate == "ragc_core" and f.kind == "assocfn" and
               any(is_call(t, r"BufRead>?::read_until$") or (not t.get("indirect") and t["callee"] in _LINE_READERS) for _, t in f.calls()) and
               "core::option::Option<(alloc::string::String, alloc::vec::Vec<u8>)>" in f.d.get("sig", "")]
    if not rep.floor(R, len(readers), 1, "raw record reader (calls read_until, returns Option<(String, Contig)>)"):
        return
    for f in readers:
        ex = Exprs(f)
        g = cfg_of(f)
        nnone = 0
        for bi, b in enumerate(f.blocks):
            if b["cleanup"]:
                continue
            for s in b["stmts"]:
                if not (s["k"] == "assign" and s["pl"]["l"] == 0 and not s["pl"]["p"]):
                    continue
                e = ex.rvalue(s["rv"])
                if not (isinstance(e, tuple) and e[0] == "agg" and e[1].endswith("Result::Ok") and
                        dict(e[2]).get("0", ("x",))[0] == "agg" and dict(e[2])["0"][1].endswith("Option::None")):
                    continue
                nnone += 1
                conds = dominating_conds(f, bi, ex)
                why = None
                for c in conds:
                    w = _is_eof_cond(f, ex, c, 0)
                    if w:
                        why = w
                rep.ob(R, "`return Ok(None)` in the record reader happens only at end of input", why is not None,
                       detail=why or ("this None is reached under %s: an empty record or blank line is reported as end of input and every "
                                      "later record is silently dropped" % [("%s=%s" % (fmt(c[0]), cond_bool(c[1], c[2]))) for c in conds
                                                                             if cond_bool(c[1], c[2]) is not None][-3:]),
                       site=site_of(f, s), key="%s | %s | None #%d" % (R, f.key, nnone))
        rep.floor(R, nnone, 2, "Ok(None) returns in the record reader")
    # companion: the iterators/CLI treat None as end of file and Some as a record (no early stop on Some)
    G = cgmod.CallGraph(F)
    n = 0
    for f in F.funcs.values():
        if f.crate not in ("ragc_core", "ragc"):
            continue
        for bi, t in f.calls():
            if not t.get("indirect") and t["callee"] in [r.key for r in readers] and f.key not in [r.key for r in readers]:
                n += 1
    rep.stat("callers_of_record_reader", n)


def _is_eof_cond(f, ex, c, depth):
    e, how, vals, sb = c
    t = cond_bool(how, vals)
    # bytes_read == 0
    if isinstance(e, tuple) and e[0] == "bin" and e[1] == "Eq" and ("const", 0) in (e[2], e[3]) and t is True:
        other = e[3] if e[2] == ("const", 0) else e[2]
        if contains(other, lambda x: isinstance(x, tuple) and x[0] == "call" and (re.search(r"read_until$", x[1]) or x[1] in _LINE_READERS)):
            return "dominated by `read_until(..) == 0`"
    # reader absent: discriminant of self.reader is None
    if isinstance(e, tuple) and e[0] == "discr" and isinstance(e[1], tuple) and e[1][0] == "field" and e[1][2] == "reader":
        if how == "is" and vals == (0,):
            return "reader is absent (None)"
    # a flag that is only set under an EOF condition
    if isinstance(e, tuple) and e[0] == "var" and t is True and depth == 0:
        name = e[1]
        sets = []
        for bi, b in enumerate(f.blocks):
            for s in b["stmts"]:
                if s["k"] == "assign" and not s["pl"]["p"] and f.local_names().get(s["pl"]["l"]) == name:
                    v = ex.rvalue(s["rv"])
                    if v == ("const", 1):
                        sets.append(bi)
                    elif v != ("const", 0):
                        return None
        if sets and all(any(_is_eof_cond(f, ex, c2, 1) for c2 in dominating_conds(f, b2, ex)) for b2 in sets):
            return "dominated by flag `%s`, which is set only after `read_until(..) == 0`" % name
    return None


def out_rules(F, rep):
    R = "C16-OUT"
    cnv = symbols.cnv_num(F)
    if not rep.floor(R, 1 if cnv else 0, 1, "CNV_NUM table constant"):
        return
    try:
        S, tab, inf = symbols.symbol_domain(F)
    except Undecidable as e:
        rep.ob(R, "input filter can be tabulated", False, detail=str(e), key=R + " | input table")
        return
    kept = {c: v for c, v in tab.items() if v is not None}
    dropped = sorted(c for c, v in tab.items() if v is None)
    rep.stat("kept_bytes", len(kept))
    rep.ob(R, "bytes <= 64 and >= 128 are dropped by the reader, all others kept", set(dropped) == set(range(0, 65)) | set(range(128, 256)),
           detail="dropped: %d bytes, kept: %d" % (len(dropped), len(kept)), site="%s:%d" % (inf.file, inf.line_lo), key=R + " | filter")
    rep.ob(R, "the code pushed for a kept byte is CNV_NUM[byte]", all(cnv[c] == v for c, v in kept.items()),
           key=R + " | pushed code is table entry")
    # output sites: loops/closures that turn a code into a letter: `if b < 16 { CNV_NUM[b] } else { b'N' }`
    outs = []
    G = cgmod.CallGraph(F)
    live = pipeline.live_scope(F, G)
    for f in F.funcs.values():
        if f.key not in live or f.crate not in ("ragc_core", "ragc"):
            continue
        uses_cnv = any(_mentions_const(b, symbols.CNV) for b in f.blocks) or \
            any(_mentions_const(b, symbols.CNV) for k2, f2 in F.funcs.items() if k2.startswith(f.key + "::{promoted#") for b in f2.blocks)
        if not uses_cnv or f.key.endswith("read_contig_impl"):
            continue
        if f.kind == "closure" and f.locals[0]["ty"] == "u8":
            byref = f.locals[2]["ty"].startswith("&")
            try:
                t = tabulate(F, f, prefix_args=[{}], by_ref=byref)
            except Undecidable as e:
                t = {"error": str(e)}
            outs.append((f, t))
        elif f.kind != "closure":
            ex = Exprs(f)
            proms = [int(k2.rsplit("#", 1)[1].rstrip("}")) for k2, f2 in F.funcs.items() if k2.startswith(f.key + "::{promoted#") and
                     any(_mentions_const(b, symbols.CNV) for b in f2.blocks)]

            def mentions(b):
                r = repr(b["stmts"]) + repr(b["term"])
                return symbols.CNV in r or any(("'promoted': %d" % n) in r for n in proms)
            cands = [L for L in for_loops(f, ex) if any(mentions(f.blocks[b]) for b in L["body"])]
            cands.sort(key=lambda L: len(L["body"]))
            for L in cands[:1]:        # the innermost loop that consults the table
                try:
                    t = symbols.loop_item_table(F, f, L, range(256), r"Vec::<u8>::push$|Vec::<T, A>::push$")
                except Undecidable as e:
                    t = {"error": str(e)}
                outs.append((f, t))
    rep.floor(R, len(outs), 2, "output sites that map codes to letters (sample writer, getrange)")
    want = {c: (cnv[c] if c < 16 else ord("N")) for c in range(256)}
    for f, t in outs:
        ok = t == want
        diff = {k: (t.get(k), want[k]) for k in want if t.get(k) != want[k]} if "error" not in t else t
        rep.ob(R, "output site %s maps code<16 to its letter and every other code to N" % f.key.split("::", 1)[-1], ok,
               detail="differences (code: (found, wanted)): %s" % dict(list(diff.items())[:6]), site="%s:%d" % (f.file, f.line_lo),
               key="%s | %s | output map" % (R, f.key))
    # documented normalisation on the input side
    bad = []
    for c, code in kept.items():
        if code < 16:
            if cnv[code] != ord(chr(c).upper()):
                bad.append((chr(c), code, chr(cnv[code])))
    rep.ob(R, "for every kept byte with code < 16 the letter written back is the upper-cased input letter", not bad,
           detail="mismatches: %s" % bad[:8], key=R + " | round trip of IUPAC letters")
    iupac = set(b"ACGTNRYSWKMBDHVU")
    non = sorted(c for c, code in kept.items() if code < 16 and ord(chr(c).upper()) not in iupac)
    rep.ob(R, "only IUPAC letters (either case) get a code < 16; all other kept bytes read back as N", not non,
           detail="non-IUPAC bytes with a code < 16: %s" % [chr(c) for c in non], key=R + " | non-IUPAC to N")


def _mentions_const(b, key):
    s = repr(b["stmts"]) + repr(b["term"])
    return key in s
