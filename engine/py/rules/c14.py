"""C14 — a partially written archive is rejected cleanly: panic/allocation audit of the open path."""
import json
import os
import re

from cfg import cfg_of
from expr import Exprs, fmt, walk, contains
from mirutil import (is_call, error_blocks, try_sites, result_fate, returns_result, known_le0, linear, lin_sub, implies_le0,
                     for_loops, dominating_conds)
from audit import Auditor, interval
from framework import site_of, VERIF
import callgraph as cgmod

EXPLANATION = (
    "Audit of the footer-location and directory-parsing code (Archive::open in reader mode and everything it "
    "calls in ragc-common) under the over-approximation that the tail of a truncated file is arbitrary bytes: "
    "every overflow/bounds/division assert, every allocation whose size comes from the file, every "
    "unwrap/expect and every loop whose trip count comes from the file is enumerated from the MIR and must be "
    "discharged by a dominating guard (linear inequality implied by branch conditions), by interval arithmetic, "
    "or by a table entry with a reason (C14-AUDIT); every (offset,size) stored into the part directory must be "
    "dominated by a comparison against the end of the data region (C14-VALID); every fallible read is "
    "propagated and open()/Decompressor::open propagate the failure (C14-ERR); a tail that parses as a tiny or empty directory cannot "
    "name the metadata streams, so Decompressor::open up to the propagated failure of its first metadata lookup, and that lookup "
    "function outside its success arm, must contain no panic-capable site (C14-MISS); close() writes the directory once (C14-ONCE); every File::open of the archive module is followed by the footer "
    "parser on every path to an Ok return (C14-OPEN).  No file is opened or parsed.")
UNDECIDED = ("that no truncation offset yields a directory that names the metadata streams by chance "
             "(sites behind a successful lookup are listed as notes); panics inside std/zstd")

ALLOC = re.compile(r"alloc::vec::from_elem|alloc::vec::Vec::<T>::with_capacity$|alloc::vec::Vec::<T, A>::(reserve|reserve_exact|resize|with_capacity_in)$|"
                   r"alloc::string::String::(with_capacity|reserve)$|alloc::raw_vec")
PANICKY = re.compile(r"core::(option::Option|result::Result)::<.*>::(unwrap|expect)$|core::panicking::|core::slice::index::|core::str::.*::index")
READS = re.compile(r"std::io::Read>::read_exact$|std::io::Read::read_exact$|ragc_common::varint::read_varint$|std::io::Read>::read$|"
                   r"std::io::BufRead>::read_until$|std::io::Read>::read_to_end$|std::io::impls::.*Read.*::read_exact$|std::io::cursor::.*Read.*::read_exact$")


def load_table():
    p = os.path.join(VERIF, "engine", "tables", "c14_sites.json")
    with open(p) as fh:
        return {(e["function"], e["site"]): e["reason"] for e in json.load(fh)["sites"]}


def run(F, rep):
    rep.explanation = EXPLANATION
    rep.undecided = UNDECIDED
    rep.assumptions = ["std::io read/seek calls return Err (not panic) on short or out-of-range input",
                       "the tail of a truncated archive is arbitrary bytes (over-approximation)"]
    table = load_table()
    G = cgmod.CallGraph(F)
    # anchor: the body in ragc_common that opens a file for reading and parses the directory
    opens = [f for f in F.funcs.values() if f.crate == "ragc_common" and f.kind == "assocfn" and
             any(is_call(t, r"std::fs::File::open") for _, t in f.calls())]
    opens = [f for f in opens if f.key.startswith("ragc_common::archive::")]
    if not rep.floor("C14-ANCHOR", len(opens), 1, "archive open function (calls File::open)"):
        return
    # the root is the opener that parses the directory (a second opener must not take its place, see C14-OPEN)
    opens.sort(key=lambda f: (0 if any(any(is_call(t, r"from_le_bytes$") for _, t in F.funcs[k].calls()) for k in G.reachable([f.key]) if k in F.funcs) else 1, f.key))
    root = opens[0]
    scope = sorted(k for k in G.reachable([root.key]) if F.funcs[k].crate == "ragc_common")
    for o in opens[1:]:
        scope = sorted(set(scope) | {k for k in G.reachable([o.key]) if F.funcs[k].crate == "ragc_common"})
    # writer-only callees are not reachable from open(); sanity: the deserialiser must be there
    deser = [k for k in scope if any(is_call(t, r"from_le_bytes$") for _, t in F.funcs[k].calls())]
    rep.floor("C14-ANCHOR", len(deser), 1, "footer deserialiser (reads the 8-byte LE length)")
    rep.stat("scope", scope)
    # ------------------------------------------------------------ OPEN: no read handle without parsing this file's footer
    # Every function of the archive module that opens a file for reading returns Ok only after the directory was parsed from
    # THAT file: no path from File::open to an Ok return avoids the footer parser (a handle built from a copied directory
    # accepts a file that was truncated in the meantime).
    parsers = {k for k in deser if any(is_call(t, r"::seek$") for _, t in F.funcs[k].calls())} or set(deser)
    reaches_parser = {k for k, v in G.transitive(lambda k: k in parsers).items() if v} | parsers
    no = 0
    for f in opens:
        g = cfg_of(f)
        oks = set(_ok_returns(f))
        for bi, t in f.calls():
            if not is_call(t, r"std::fs::File::open$"):
                continue
            no += 1
            parsing = {b2 for b2, t2 in f.calls() if not t2.get("indirect") and t2["callee"] in reaches_parser}
            seen, st, hit = set(), [t["t"]] if t["t"] is not None else [], None
            while st:
                b = st.pop()
                if b in seen or b in parsing or f.blocks[b]["cleanup"]:
                    continue
                seen.add(b)
                if b in oks:
                    hit = b
                    break
                st.extend(g.succ[b])
            rep.ob("C14-OPEN", "%s returns Ok only after the directory was parsed from the file it opened" % f.key.split("::", 1)[-1], hit is None,
                   detail="an Ok return is reachable from File::open without a call that reaches the footer parser" if hit is not None else "every success path passes %s" % sorted(x.rsplit("::", 1)[-1] for x in parsers),
                   site=site_of(f, t), key="C14-OPEN | %s | parse before Ok" % f.key)
    rep.floor("C14-OPEN", no, 1, "File::open calls in the archive module")

    n_sites = 0
    used_table = set()
    for k in scope:
        f = F.funcs[k]
        aud = Auditor(f)
        ex = aud.ex
        g = cfg_of(f)
        # file-size-only expressions: results of metadata().len()
        size_atoms = _size_only_atoms(f, ex)
        for bi, b in enumerate(f.blocks):
            if b["cleanup"] or bi not in g.reach:
                continue
            t = b["term"]
            if t["k"] == "assert":
                n_sites += 1
                ok, why = aud.discharge(bi, t)
                desc = aud.describe(t)
                dn = aud.describe_norm(t)
                how = "auto"
                if not ok and (k, dn) in table:
                    ok, why, how = True, "table: " + table[(k, dn)], "table"
                    used_table.add((k, dn))
                rep.ob("C14-AUDIT", "%s in %s" % (desc, _short(k)), ok, detail=why, site=site_of(f, t), how=how,
                       key="C14-AUDIT | %s | %s" % (k, desc))
            elif t["k"] == "call" and not t.get("indirect"):
                c = t["callee"]
                if ALLOC.search(c):
                    n_sites += 1
                    sz = t["args"][-1] if "from_elem" in c else (t["args"][-1] if t["args"] else None)
                    e = ex.operand(sz) if sz is not None else None
                    iv = interval(aud.exk.operand(sz)) if sz is not None else None
                    ok, why = False, "allocation size %s comes from the file and is not bounded by a dominating guard" % fmt(e)
                    if iv and iv[1] <= (1 << 20):
                        ok, why = True, "size interval %s" % (iv,)
                    elif e is not None:
                        ok2, why2 = _bounded_by_size(aud.known(bi), e, size_atoms)
                        if ok2:
                            ok, why = True, why2
                    desc = "alloc %s(%s)" % (c.rsplit("::", 1)[-1], fmt(e))
                    how = "auto"
                    if not ok and (k, desc) in table:
                        ok, why, how = True, "table: " + table[(k, desc)], "table"
                        used_table.add((k, desc))
                    rep.ob("C14-AUDIT", "%s in %s" % (desc, _short(k)), ok, detail=why, site=site_of(f, t), how=how,
                           key="C14-AUDIT | %s | %s" % (k, desc))
                elif PANICKY.search(c):
                    n_sites += 1
                    desc = "panic-capable call %s" % c.rsplit("::", 2)[-2] + "::" + c.rsplit("::", 1)[-1]
                    ok, why, how = False, "unwrap/expect/index panics on a value derived from the file", "auto"
                    if (k, desc) in table:
                        ok, why, how = True, "table: " + table[(k, desc)], "table"
                        used_table.add((k, desc))
                    rep.ob("C14-AUDIT", "%s in %s" % (desc, _short(k)), ok, detail=why, site=site_of(f, t), how=how,
                           key="C14-AUDIT | %s | %s" % (k, desc))
        # loops: every loop must pass a propagated fallible read on each iteration, or have a constant bound
        for h, body in g.loops():
            n_sites += 1
            tails = [x for x in body if h in g.succ[x]]
            reads = []
            for x in sorted(body):
                t = f.blocks[x]["term"]
                if t["k"] == "call" and not t.get("indirect") and READS.search(t["callee"]):
                    if result_fate(F, f, x, t) == "propagated":
                        reads.append(x)
            ok = bool(reads) and all(any(g.dominates(r, tl) for r in reads) for tl in tails)
            why = "each iteration passes a propagated read (bb%s): the loop ends with Err when the data runs out" % reads
            if not ok:
                L = [l for l in for_loops(f, ex) if l["head"] == h]
                if L and L[0]["range"] and interval(L[0]["range"][1]) is not None:
                    ok, why = True, "constant trip count"
                else:
                    why = "trip count comes from the file and no propagated read bounds the loop"
            rep.ob("C14-AUDIT", "loop at bb%d in %s is bounded by the data" % (h, _short(k)), ok, detail=why,
                   site=site_of(f, f.blocks[h]["term"]), key="C14-AUDIT | %s | loop#%d bounded" % (k, sorted(dict(g.loops())).index(h)))
        # C14-ERR: every fallible call is propagated
        if returns_result(f):
            for bi, t in f.calls():
                if t.get("indirect") or not t["dest"]["ty"].startswith("core::result::Result<"):
                    continue
                if t.get("decl") == "core::ops::try_trait::Try::branch" or "FromResidual" in t["callee"]:
                    continue
                if t["sp"].get("exp") and t["sp"].get("mac") in ("bail", "anyhow", "format", "ensure"):
                    continue
                fate = result_fate(F, f, bi, t)
                rep.ob("C14-ERR", "result of %s in %s is propagated" % (t["callee"].rsplit("::", 1)[-1], _short(k)),
                       fate in ("propagated", "returned"), detail="fate: %s" % fate, site=site_of(f, t),
                       key="C14-ERR | %s | %s" % (k, t["callee"]))
    # without overflow checks (release configuration) the arithmetic sites carry no assertion in MIR
    rep.floor("C14-AUDIT", n_sites, 12 if getattr(F, "cfg", "dev") != "rel" else 6, "panic-capable / allocating / looping sites in the open path")
    for key in table:
        if key not in used_table and key[0] in scope:
            rep.note("table entry no longer needed: %s | %s" % key)

    # ------------------------------------------------------------ C14-VALID
    nparts = 0
    for k in deser:
        f = F.funcs[k]
        ex = Exprs(f)
        size_atoms = _size_only_atoms(f, ex)
        for bi, b in enumerate(f.blocks):
            if b["cleanup"]:
                continue
            sites = []
            t = b["term"]
            if t["k"] == "call" and not t.get("indirect") and re.search(r"archive::Part::new$", t["callee"]):
                sites.append((ex.operand(t["args"][0]), ex.operand(t["args"][1]), t))
            for s in b["stmts"]:
                if s["k"] == "assign" and s["rv"]["k"] == "agg" and s["rv"].get("adt", "").endswith("archive::Part"):
                    ops = [ex.operand(o) for o in s["rv"]["ops"]]
                    d = dict(zip(s["rv"]["fields"], ops))
                    sites.append((d.get("offset"), d.get("size"), s))
            for off, size, where in sites:
                nparts += 1
                known = known_le0(f, bi, ex)
                ok, why = _part_in_region(known, off, size, size_atoms)
                rep.ob("C14-VALID", "part (offset,size) read from the directory is checked against the data region",
                       ok, detail=why, site=site_of(f, where), key="C14-VALID | %s | part range check" % k)
    rep.floor("C14-VALID", nparts, 1, "Part constructions in the deserialiser")
    valid_ok = all(o["ok"] for o in rep.obligations if o["rule"] == "C14-VALID")
    # the later allocation in the part reader is bounded by the validated size
    for f in F.funcs.values():
        if f.crate == "ragc_common" and f.key.startswith("ragc_common::archive::") and f.key not in scope:
            ex = Exprs(f)
            for bi, t in f.calls():
                if not t.get("indirect") and ALLOC.search(t["callee"]) and "from_elem" in t["callee"]:
                    e = ex.operand(t["args"][-1])
                    if contains(e, lambda x: isinstance(x, tuple) and x[0] == "field" and x[2] == "size"):
                        rep.ob("C14-AUDIT", "alloc of part.size bytes in %s is bounded by the validated directory" % _short(f.key),
                               valid_ok, detail="discharged through C14-VALID (sizes were checked against the data region at open)",
                               site=site_of(f, t), how="table", key="C14-AUDIT | %s | alloc part.size" % f.key)

    # ------------------------------------------------------------ C14-ERR callers
    for caller_pat, callee_pat, floor in ((r"^ragc_core::decompressor::Decompressor::open$", r"archive::Archive::open", 1),):
        n = 0
        for f in F.find(caller_pat):
            for bi, t in f.calls():
                if not t.get("indirect") and re.search(callee_pat, t["callee"]):
                    n += 1
                    fate = result_fate(F, f, bi, t)
                    rep.ob("C14-ERR", "%s propagates a failed Archive::open" % _short(f.key), fate in ("propagated", "returned"),
                           detail="fate: %s" % fate, site=site_of(f, t), key="C14-ERR | %s | propagates open" % f.key)
        rep.floor("C14-ERR", n, floor, "Archive::open call in Decompressor::open")

    # ------------------------------------------------------------ C14-ONCE: one directory per file
    # The file is data followed by exactly one directory and its length.  If a second directory could be appended
    # (close() run twice - it is also called by Drop), the state in between is a proper prefix that is itself a
    # complete archive.  Typestate: only close() calls the footer writer, and on the way from that call to a
    # successful return it gives up the writer, so a second close() finds nothing to write with.
    ser = F.funcs.get("ragc_common::archive::Archive::serialize")
    clo = F.funcs.get("ragc_common::archive::Archive::close")
    if rep.floor("C14-ONCE", sum(1 for x in (ser, clo) if x), 2, "Archive::serialize and Archive::close"):
        callers = sorted({f.key for f in F.funcs.values() for _, t in f.calls() if not t.get("indirect") and t["callee"] == ser.key})
        rep.ob("C14-ONCE", "the footer writer is called from close() only", callers == [clo.key], detail=str(callers), key="C14-ONCE | who calls serialize")
        g = cfg_of(clo)
        exc = Exprs(clo)
        sites = [bi for bi, t in clo.calls() if not t.get("indirect") and t["callee"] == ser.key]
        clears = set()
        for bi, b in enumerate(clo.blocks):
            for s in b["stmts"]:
                if s["k"] == "assign" and s["pl"]["p"] and isinstance(s["pl"]["p"][-1], dict) and s["pl"]["p"][-1].get("n") == "writer":
                    v = exc.rvalue(s["rv"])
                    if isinstance(v, tuple) and v[0] == "agg" and v[1].endswith("Option::None"):
                        clears.add(bi)
            tt = b["term"]
            if tt["k"] == "call" and not tt.get("indirect") and re.search(r"Option::<T>::take$|mem::(take|replace)$", tt["callee"]) and "writer" in fmt(exc.operand(tt["args"][0])):
                clears.add(bi)
        errs = error_blocks(clo)
        ok = bool(sites)
        for sb in sites:
            seen, st = set(), [clo.blocks[sb]["term"].get("t")]
            while st:
                b = st.pop()
                if b is None or b in seen or b in errs or clo.blocks[b]["cleanup"]:
                    continue
                seen.add(b)
                if b in clears:
                    continue
                if clo.blocks[b]["term"]["k"] == "return":
                    ok = False
                st.extend(g.succ[b])
        rep.ob("C14-ONCE", "close() gives up the writer after writing the directory (a second close, e.g. from Drop, cannot append another one)", ok,
               detail="writer cleared in blocks %s" % sorted(clears), site="%s:%d" % (clo.file, clo.line_lo), key="C14-ONCE | close releases the writer")
        # and the footer writer refuses to run without a writer
        exs2 = Exprs(ser)
        needs = any(not t.get("indirect") and re.search(r"Option::<T>::(as_mut|as_ref|take|ok_or\w*)$|context$", t["callee"]) and "writer" in fmt(exs2.operand(t["args"][0]))
                    for _, t in ser.calls())
        rep.ob("C14-ONCE", "the footer writer needs an open writer (fails otherwise)", needs, site="%s:%d" % (ser.file, ser.line_lo), key="C14-ONCE | serialize needs writer")
    # open() itself must not return Ok on a path where the deserialiser failed: covered by the fate rule above.
    # ------------------------------------------------------------ C14-MISS: a directory that parses but lacks the metadata streams
    # A truncation can leave a tail that passes the footer checks as a tiny or empty directory (e.g. `.. 00 | 01 00*7`
    # after a short raw contig = "0 streams"); what it cannot do is name the metadata streams.  So the reader's code up
    # to and including the first failed stream lookup is reachable with arbitrary directory contents and must be free of
    # panics; code behind a successful lookup is not (notes).
    miss_rule(F, rep, G)
    rep.note("sites behind a successful lookup of a metadata stream (params payload, CollectionVarInt::decode, batch parsing) are audited under C18; "
             "a prefix of a create-produced archive cannot name the metadata streams (DESIGN 4/C14)")


DEC_OPEN = "ragc_core::decompressor::Decompressor::open"
LOOKUP = r"ragc_common::archive::Archive::get_stream_id$"


def _lookup_success_entries(f):
    """entry blocks of the arms taken when a get_stream_id lookup succeeded (match Some / `?` after ok_or_else)"""
    out = set()
    ts = {x["block"]: x for x in try_sites(f)}
    for bi, t in f.calls():
        if t.get("indirect") or not re.search(LOOKUP, t["callee"]):
            continue
        # follow the Option through ok_or / ok_or_else / context to a `?`, or to a discriminant switch
        cur = t["dest"]["l"]
        b = t["t"]
        hops = 0
        while b is not None and hops < 8:
            hops += 1
            blk = f.blocks[b]
            sw = blk["term"]
            disc = [s_ for s_ in blk["stmts"] if s_["k"] == "assign" and s_["rv"]["k"] == "discr" and s_["rv"]["pl"]["l"] == cur]
            if disc and sw["k"] == "switch":
                for v, tb in sw["targets"]:
                    if v == 1:
                        out.add(tb)
                break
            if sw["k"] == "call" and not sw.get("indirect") and any(a.get("pl", {}).get("l") == cur for a in sw["args"] if a["k"] in ("move", "copy")):
                if sw.get("decl") == "core::ops::try_trait::Try::branch":
                    x = ts.get(b)
                    if x and x["ok"] is not None:
                        out.add(x["ok"])
                    break
                cur = sw["dest"]["l"]
                b = sw["t"]
                continue
            if sw["k"] in ("goto", "drop") or (sw["k"] == "call" and sw.get("t") is not None):
                b = sw.get("t")
                continue
            break
    return out


def miss_rule(F, rep, G):
    opn = F.funcs.get(DEC_OPEN)
    if not rep.floor("C14-MISS", 1 if opn else 0, 1, "Decompressor::open"):
        return
    g = cfg_of(opn)
    # the gate: the first callee of open (outside the archive module) that looks a stream up; its `?` must dominate the rest
    gate = None
    for bi, t in sorted(opn.calls()):
        c = t["callee"]
        if t.get("indirect") or c not in F.funcs or c.startswith("ragc_common::archive::"):
            continue
        if any(not t2.get("indirect") and re.search(LOOKUP, t2["callee"]) for _, t2 in F.funcs[c].calls()):
            if gate is None or g.dominates(bi, gate[0]):
                gate = (bi, t)
    if not rep.floor("C14-MISS", 1 if gate else 0, 1, "first metadata lookup reached from Decompressor::open (load_params)"):
        return
    gb, gt = gate
    fate = result_fate(F, opn, gb, gt)
    rep.ob("C14-MISS", "Decompressor::open propagates the failure of its first metadata lookup (%s)" % gt["callee"].rsplit("::", 1)[-1], fate in ("propagated", "returned"),
           detail="fate: %s" % fate, site=site_of(opn, gt), key="C14-MISS | open | gate propagated")
    ok_blocks = {x["ok"] for x in try_sites(opn) if x["ok"] is not None}
    # blocks of open() that run before the gate succeeded
    after = set()
    for x in try_sites(opn):
        src_is_gate = x["ok"] is not None and g.dominates(gb, x["block"]) and x["block"] in g.reachable_from(gb) and \
            not any(t2["k"] == "call" and not t2.get("indirect") and t2["callee"] in F.funcs and t2 is not gt and g.dominates(gb, b2) and g.dominates(b2, x["block"])
                    for b2, t2 in opn.calls() if b2 != gb and b2 != x["block"] and t2.get("decl") != "core::ops::try_trait::Try::branch" and not re.search(r"context|map_err", t2["callee"]))
        if src_is_gate:
            after |= {b for b in g.reach if g.dominates(x["ok"], b)}
            break
    n = 0
    bodies = [(opn, lambda b: b not in after and not opn.blocks[b]["cleanup"])]
    gf = F.funcs[gt["callee"]]
    gg = cfg_of(gf)
    succ_entries = _lookup_success_entries(gf)
    behind = {b for b in gg.reach for e in succ_entries if gg.dominates(e, b)}
    rep.ob("C14-MISS", "%s has a success arm for its stream lookup (what lies behind it needs a named stream)" % gf.key.rsplit("::", 1)[-1], bool(succ_entries),
           site="%s:%d" % (gf.file, gf.line_lo), key="C14-MISS | %s | success arm found" % gf.key)
    bodies.append((gf, lambda b: b not in behind and not gf.blocks[b]["cleanup"]))
    # closures of open() (error-context builders run when the archive module has just refused the file) and the local helpers
    # they and the pre-gate part of open() call: everything in them runs on a file that is not a readable archive
    extra, work = [], []
    for cl in F.closures_of(opn.key):
        work.append(cl)
    for bi, t in opn.calls():
        if bi not in after and not t.get("indirect") and t["callee"] in F.funcs and t is not gt and F.funcs[t["callee"]].crate == "ragc_core" and \
                t["callee"].startswith("ragc_core::decompressor::"):
            work.append(F.funcs[t["callee"]])
    seenx = {opn.key, gf.key}
    while work:
        x = work.pop()
        if x.key in seenx:
            continue
        seenx.add(x.key)
        extra.append(x)
        for cl in F.closures_of(x.key):
            work.append(cl)
        for _, t in x.calls():
            if not t.get("indirect") and t["callee"] in F.funcs and t["callee"].startswith("ragc_core::decompressor::") and len(seenx) < 12:
                work.append(F.funcs[t["callee"]])
    for x in extra:
        bodies.append((x, (lambda xx: (lambda b: not xx.blocks[b]["cleanup"]))(x)))
    for f, armed in bodies:
        aud = Auditor(f)
        for bi, b in enumerate(f.blocks):
            if not armed(bi) or bi not in cfg_of(f).reach:
                continue
            t = b["term"]
            if t["k"] == "assert":
                n += 1
                ok, why = aud.discharge(bi, t)
                rep.ob("C14-MISS", "%s in %s (reachable with a directory that lacks the metadata streams)" % (aud.describe(t), _short(f.key)), ok, detail=why,
                       site=site_of(f, t), key="C14-MISS | %s | %s" % (f.key, aud.describe(t)))
            elif t["k"] == "call" and not t.get("indirect") and not t["sp"].get("exp"):
                c = t["callee"]
                if PANICKY.search(c) or re.search(r"ops::index::Index(Mut)?<.*>>::index(_mut)?$|ops::index::Index(Mut)?>::index(_mut)?$|::swap_remove$|Vec::<T, A>::remove$", c):
                    n += 1
                    rep.ob("C14-MISS", "panic-capable call %s in %s (reachable with a directory that lacks the metadata streams)" % (c.rsplit("::", 2)[-2] + "::" + c.rsplit("::", 1)[-1], _short(f.key)),
                           False, detail="unwrap/expect/index on data derived from a directory whose contents are arbitrary", site=site_of(f, t),
                           key="C14-MISS | %s | %s" % (f.key, c))
    rep.ob("C14-MISS", "no panic-capable site before the first successful metadata lookup (%d sites examined in open and %s)" % (n, gf.key.rsplit("::", 1)[-1]), True, how="trivial",
           key="C14-MISS | summary")


def _short(k):
    return k.split("::", 1)[-1]


def _size_only_atoms(f, ex):
    """reprs of expressions that depend on the file size only (metadata().len())"""
    out = set()
    for bi, t in f.calls():
        if not t.get("indirect") and re.search(r"std::fs::Metadata::len$", t["callee"]):
            out.add(repr(ex.call(t)))
    return out


def _atoms_size_only(lin, size_atoms, skip):
    for k in lin:
        if k == "1" or k == skip:
            continue
        if k not in size_atoms and not _derived_from_size(k, size_atoms):
            return False
    return True


def _derived_from_size(atom_repr, size_atoms):
    return any(a in atom_repr for a in size_atoms)


def _bounded_by_size(known, e, size_atoms):
    """is there a known inequality n + rest <= 0 with rest depending on the file size (and constants) only?"""
    n = repr(e)
    ln = linear(e)
    if len([k for k in ln if k != "1"]) != 1:
        return False, ""
    atom = [k for k in ln if k != "1"][0]
    for k in [x for x in known if isinstance(x, dict)]:
        if k.get(atom, 0) > 0 and _atoms_size_only(k, size_atoms, atom) and len(k) > 1:
            others = [x for x in k if x not in ("1", atom)]
            if others and all(k[x] < 0 for x in others):
                return True, "dominating guard bounds the size by the file size"
    return False, ""


def _part_in_region(known, off, size, size_atoms):
    """known inequalities imply off + size <= D with D file-size-derived (or footer start)"""
    lo, ls = linear(off), linear(size)
    tgt = dict(lo)
    for k, v in ls.items():
        tgt[k] = tgt.get(k, 0) + v
    oa = [k for k in lo if k != "1"]
    sa = [k for k in ls if k != "1"]
    if len(oa) != 1 or len(sa) != 1:
        return False, "offset/size are not plain values"
    oa, sa = oa[0], sa[0]
    for k in [x for x in known if isinstance(x, dict)]:
        # off + size - D <= 0 where D is bounded by the file size: some file-size-derived atom
        # enters D positively (D = file_size - 8 - footer_size in today's tree)
        if k.get(oa, 0) == 1 and k.get(sa, 0) == 1:
            rest = [x for x in k if x not in ("1", oa, sa)]
            if any(k[x] < 0 and (x in size_atoms or _derived_from_size(x, size_atoms)) for x in rest):
                return True, "guard: offset + size <= end of the data region (derived from the file size)"
    return False, ("no dominating comparison of offset+size against the end of the data region: a directory "
                   "parsed from garbage yields parts outside the file and later garbage-sized allocations")


def _ok_returns(f):
    out = []
    for bi, b in enumerate(f.blocks):
        if b["cleanup"]:
            continue
        for s_ in b["stmts"]:
            if s_["k"] == "assign" and s_["pl"]["l"] == 0 and not s_["pl"]["p"] and s_["rv"]["k"] == "agg" and \
                    s_["rv"].get("adt") == "core::result::Result" and s_["rv"]["var"] == "Ok":
                out.append(bi)
    return out
