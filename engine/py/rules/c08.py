"""C08 — reader answers independent of query history and of other readers (DESIGN 4/C08, H1..H5)."""
import re

from cfg import cfg_of
from expr import Exprs, fmt, walk, contains
from mirutil import is_call, for_loops, dominating_conds, cond_bool, result_fate, error_blocks, try_sites
from framework import site_of
import callgraph as cgmod

EXPLANATION = (
    "Effect analysis of the reader: (H1) for every public query method of Decompressor the transitive set of "
    "fields written (assignments and mutable borrows of field paths of Decompressor, CollectionV3 and Archive) "
    "must lie inside a frozen allow-list of caches and loader bookkeeping; in particular no query may reach the "
    "cursor-advancing Archive::get_part; (H2) the lazy metadata loader is idempotent: it returns early when the "
    "batch id is below a persistent counter that only the success path advances (or every call site is guarded "
    "by a never-cleared flag); (H3) the reference cache has exactly one filling function, so what is cached "
    "cannot depend on which query came first; (H4) lookups keyed by caller-supplied names end in Err/Option "
    "propagation, never in unwrap/expect/indexing; (H6) every loop that loads contig batches on demand runs over all batches with no exit other than exhaustion or error, so a query cannot leave the tables half loaded; (H5) clone_for_thread re-opens the file and no reader state is "
    "shared: no Arc/Rc/raw pointer/Cell in the handle's types and no mutable static read by reader code.  (H8) load-once contig tables only grow outside the loader-private call graph; (H3) evictions are harmless because every look-up is backed by the filler, and no error exit is reachable after a write into the cache.")
UNDECIDED = "that each individual answer is right (C01/C03/C07); OS-level sharing of the file between handles"

DEC = "ragc_core::decompressor::Decompressor"
COL = "ragc_common::collection::CollectionV3"
ARC = "ragc_common::archive::Archive"
ADTS = (DEC, COL, ARC, "ragc_common::collection::SampleDesc", "ragc_common::archive::Stream", "ragc_common::collection::ContigDesc")

ALLOW = {
    (DEC, ("segment_cache",)): "per-handle reference cache (H3: single filler)",
    (DEC, ("archive",)): "container: its own fields are checked below",
    (DEC, ("collection",)): "container: its own fields are checked below",
    (COL, ("sample_desc", "contigs")): "lazily loaded contig tables (H2: loaded once)",
    (COL, ("samples_loaded",)): "loader cursor (H2)",
    (COL, ("no_samples_in_last_batch",)): "loader bookkeeping (H2)",
    (COL, ("contig_batches_loaded",)): "loader idempotence counter (H2)",
    (COL, ("in_group_ids",)): "decoder scratch table, cleared at the start of every batch decode",
    (ARC, ("reader",)): "file position of the read handle: every read seeks to an absolute offset first",
}


def field_path(pl):
    """(root adt, (field names...)) of the first ADT-rooted field chain in a place, or None"""
    names = []
    root = None
    for pr in pl["p"]:
        if isinstance(pr, dict) and "f" in pr and pr.get("adt"):
            if root is None:
                if pr["adt"] not in ADTS:
                    continue
                root = pr["adt"]
            names.append(pr.get("n", str(pr["f"])))
        elif isinstance(pr, dict) and "f" in pr and root is not None:
            names.append(pr.get("n", str(pr["f"])))
    if root is None:
        return None
    return root, tuple(names)


def _switch_after(f, nb):
    """block holding the switch on the Option returned by the next() call in block nb"""
    b = f.blocks[nb]["term"].get("t")
    hops = 0
    while b is not None and f.blocks[b]["term"]["k"] != "switch" and hops < 4:
        b = f.blocks[b]["term"].get("t")
        hops += 1
    return b


def local_writes(f):
    """field paths assigned or mutably borrowed in this body"""
    out = []
    for bi, b in enumerate(f.blocks):
        if b["cleanup"]:
            continue
        for s in b["stmts"]:
            if s["k"] != "assign":
                continue
            fp = field_path(s["pl"])
            if fp:
                out.append((fp, "assign", s))
            rv = s["rv"]
            if rv["k"] in ("ref", "rawptr") and rv["mut"]:
                fp = field_path(rv["pl"])
                if fp and not s["pl"]["p"]:
                    sink = _borrow_sink(f, s["pl"]["l"], 0)
                    if sink is not None and ELEMENT_ACCESS.search(sink):
                        continue   # element access: writes through it show up under the element's own type
                    out.append((fp, "borrow_mut->%s" % (sink.rsplit("::", 1)[-1] if sink else "?"), s))
                elif fp:
                    out.append((fp, "borrow_mut", s))
        t = b["term"]
        if t["k"] == "call":
            fp = field_path(t["dest"])
            if fp:
                out.append((fp, "assign", t))
    return out


ELEMENT_ACCESS = re.compile(r"::(index_mut|iter_mut|get_mut|as_mut_slice|deref_mut|last_mut|first_mut|as_mut|values_mut|get|iter|len|is_empty|contains_key)$")


def _borrow_sink(f, l, depth):
    """callee that finally receives the mutable borrow held in local l (following reborrows)"""
    if depth > 6:
        return None
    for b in f.blocks:
        if b["cleanup"]:
            continue
        for s in b["stmts"]:
            if s["k"] == "assign" and s["rv"]["k"] in ("ref", "rawptr") and s["rv"]["pl"]["l"] == l and s["rv"]["pl"]["p"] == ["deref"] and not s["pl"]["p"]:
                r = _borrow_sink(f, s["pl"]["l"], depth + 1)
                if r:
                    return r
            if s["k"] == "assign" and s["rv"]["k"] == "use" and s["rv"]["op"]["k"] == "move" and s["rv"]["op"]["pl"]["l"] == l \
                    and not s["rv"]["op"]["pl"]["p"] and not s["pl"]["p"]:
                r = _borrow_sink(f, s["pl"]["l"], depth + 1)
                if r:
                    return r
        t = b["term"]
        if t["k"] == "call" and not t.get("indirect"):
            for a in t["args"]:
                if a["k"] in ("move", "copy") and a["pl"]["l"] == l and not a["pl"]["p"]:
                    return t["callee"]
    return None


def allowed(fp):
    root, names = fp
    if root in ("ragc_common::collection::SampleDesc",):
        return names[:1] == ("contigs",), "SampleDesc.contigs"
    if root == "ragc_common::archive::Stream":
        return False, None
    if root == "ragc_common::collection::ContigDesc":
        return True, "element of the lazily loaded contig tables (H8: written by the loader only)"
    for (r, prefix), why in ALLOW.items():
        if r == root and names[:len(prefix)] == prefix:
            return True, why
    return False, None


def run(F, rep):
    rep.explanation = EXPLANATION
    rep.undecided = UNDECIDED
    rep.assumptions = ["a mutable borrow of a field path is counted as a write (over-approximation)",
                       "HashMap/Vec library calls mutate only the receiver they are given"]
    G = cgmod.CallGraph(F)
    queries = [f for f in F.funcs.values() if f.d.get("container") == DEC and f.kind == "assocfn" and f.is_pub() and
               f.key.rsplit("::", 1)[-1] not in ("open", "close", "clone_for_thread")]
    rep.floor("C08-H1", len(queries), 14, "public query methods of Decompressor")
    rep.stat("queries", sorted(q.key.rsplit("::", 1)[-1] for q in queries))
    # ------------------------------------------------------------ H1
    writes_cache = {}
    for q in queries:
        reach = G.reachable([q.key])
        bad = []
        n = 0
        for k in sorted(reach):
            f = F.funcs[k]
            if f.crate not in ("ragc_core", "ragc_common"):
                continue
            if k not in writes_cache:
                writes_cache[k] = local_writes(f)
            for fp, how, where in writes_cache[k]:
                # a &mut self method of Archive/Collection reached from a query; constructors excluded
                n += 1
                ok, why = allowed(fp)
                if not ok:
                    bad.append((fp, how, k, site_of(f, where)))
        uniq = {}
        for fp, how, k, site in bad:
            uniq.setdefault((fp, k), (how, site))
        for (fp, k), (how, site) in sorted(uniq.items()):
            rep.ob("C08-H1", "query %s writes only caches" % q.key.rsplit("::", 1)[-1], False,
                   detail="%s of %s.%s in %s (call path: %s)" % (how, fp[0].rsplit("::", 1)[-1], ".".join(fp[1]), k,
                                                                  " -> ".join(x.rsplit("::", 1)[-1] for x in (G.path(q.key, lambda z: z == k) or []))),
                   site=site, key="C08-H1 | %s | writes %s.%s in %s" % (q.key, fp[0].rsplit("::", 1)[-1], ".".join(fp[1]), k))
        if not uniq:
            rep.ob("C08-H1", "query %s writes only caches" % q.key.rsplit("::", 1)[-1], True,
                   detail="%d field writes/borrows in %d reachable bodies, all inside the allow-list" % (n, len(reach)),
                   key="C08-H1 | %s | effect set" % q.key)
        # cursor-advancing get_part must be unreachable
        gp = ARC + "::get_part"
        rep.ob("C08-H1", "query %s cannot reach the cursor-advancing Archive::get_part" % q.key.rsplit("::", 1)[-1],
               gp not in reach, detail="path: %s" % (G.path(q.key, lambda z: z == gp) if gp in reach else ""),
               key="C08-H1 | %s | no get_part" % q.key)

    # ------------------------------------------------------------ H2
    loader = F.funcs.get(COL + "::load_contig_batch")
    if rep.floor("C08-H2", 1 if loader else 0, 1, "CollectionV3::load_contig_batch"):
        ex = Exprs(loader)
        g = cfg_of(loader)
        callee_guard = None
        for bi, b in enumerate(loader.blocks):
            t = b["term"]
            if t["k"] != "switch":
                continue
            e = ex.operand(t["discr"])
            if not (isinstance(e, tuple) and e[0] == "bin" and e[1] in ("Lt", "Le")):
                continue
            ops = (e[2], e[3])
            par = [o for o in ops if o == ("param", "id_batch")]
            fld = [o for o in ops if isinstance(o, tuple) and o[0] == "field" and o[1] == ("param", "self")]
            if not (par and fld):
                continue
            # one arm returns Ok without calls or writes
            for v, tb in t["targets"] + [[None, t["otherwise"]]]:
                r = g.reachable_from(tb)
                def harmless(tt):
                    # logging or a value-only helper: no mutable borrow goes in, and it is not code of the reader itself
                    return tt["k"] == "call" and not tt.get("indirect") and not tt["callee"].startswith(("ragc_common::", "ragc_core::")) and \
                        not any(a["k"] in ("copy", "move") and loader.locals[a["pl"]["l"]]["ty"].startswith("&mut") for a in tt["args"])
                pure = all(loader.blocks[x]["term"]["k"] in ("goto", "return", "switch", "drop") or harmless(loader.blocks[x]["term"]) for x in r) and \
                    not any(field_path(s["pl"]) for x in r for s in loader.blocks[x]["stmts"] if s["k"] == "assign")
                if pure and any(loader.blocks[x]["term"]["k"] == "return" for x in r):
                    callee_guard = (bi, fld[0][2], e)
        adv = False
        if callee_guard:
            fname = callee_guard[1]
            # the success path advances that field using id_batch, after the deserialise calls
            des = [bi for bi, t in loader.calls() if re.search(r"deserialize_contig_(names|details)$", t["callee"])]
            for bi, b in enumerate(loader.blocks):
                for s in b["stmts"]:
                    if s["k"] == "assign" and s["pl"]["p"] and isinstance(s["pl"]["p"][-1], dict) and s["pl"]["p"][-1].get("n") == fname:
                        e = ex.rvalue(s["rv"])
                        if contains(e, lambda x: x == ("param", "id_batch")) and all(g.dominates(d, bi) for d in des) and des:
                            adv = True
            # nothing else writes the field
            writers = set()
            for f in F.funcs.values():
                if f.crate != "ragc_common":
                    continue
                for fp, how, where in local_writes(f):
                    if fp == (COL, (fname,)):
                        writers.add(f.key)
            only = writers <= {loader.key}
            rep.ob("C08-H2", "load_contig_batch returns early for a batch below the persistent counter `%s`, which only its success path advances" % fname,
                   adv and only, detail="guard %s; advanced after deserialisation: %s; other writers: %s" % (fmt(callee_guard[2]), adv, sorted(writers - {loader.key})),
                   site=site_of(loader, loader.blocks[callee_guard[0]]["term"]), key="C08-H2 | load_contig_batch | callee guard")
        else:
            # caller-guard idiom: every call site dominated by a test of a flag field set after the loop
            sites = [(f, bi, t) for f in F.funcs.values() for bi, t in f.calls() if not t.get("indirect") and t["callee"] == loader.key
                     and f.crate in ("ragc_core", "ragc")]
            okall = bool(sites)
            for f, bi, t in sites:
                exf = Exprs(f)
                conds = dominating_conds(f, bi, exf)
                flag = [c for c in conds if isinstance(c[0], tuple) and c[0][0] == "field" and c[0][1] == ("param", "self") and cond_bool(c[1], c[2]) is False]
                ok = bool(flag)
                okall = okall and ok
                rep.ob("C08-H2", "call of load_contig_batch in %s is guarded by a per-handle 'already loaded' test that stays true" % f.key.rsplit("::", 1)[-1],
                       ok, detail="the guard in use is a lookup of the requested name, which stays 'not loaded' for unknown names: batches are appended again "
                                  "and the loader's cursor runs past the sample table", site=site_of(f, t),
                       key="C08-H2 | %s | unguarded reload" % f.key)
            rep.floor("C08-H2", len(sites), 1, "load_contig_batch call sites")

    # ------------------------------------------------------------ H6: lazy loading is all-or-nothing
    # A query that loads contig metadata on demand must load every batch: an early exit leaves the handle in a
    # state where the answer (empty vs. real list) depends on which queries ran before.
    if loader:
        nl = 0
        for f in F.funcs.values():
            if f.crate not in ("ragc_core", "ragc") or f.kind == "promoted":
                continue
            lsites = [bi for bi, t in f.calls() if not t.get("indirect") and t["callee"] == loader.key]
            if not lsites:
                continue
            exf = Exprs(f)
            g = cfg_of(f)
            errs = error_blocks(f)
            loops = for_loops(f, exf)
            for bi in lsites:
                inl = [L for L in loops if bi in L["body"]]
                if not inl:
                    continue        # a single direct load (by explicit batch id) is not a lazy-load loop
                L = min(inl, key=lambda l: len(l["body"]))
                nl += 1
                rng = L["range"]
                full = bool(rng) and rng[0] == ("const", 0) and "get_no_contig_batches" in fmt(rng[1])
                exits = set()
                for b in L["body"]:
                    for s in g.succ[b]:
                        if s not in L["body"] and s not in errs and not f.blocks[s]["cleanup"]:
                            exits.add((b, s))
                # the only regular exit is the iterator's None arm, taken from the block that switches on next()
                nb = L["next_block"]
                swb = _switch_after(f, nb)
                bad = [(b, s) for b, s in exits if b != swb]
                rep.ob("C08-H6", "lazy metadata load loop in %s covers every batch (0..number of batches) and has no early exit" % f.key.rsplit("::", 1)[-1],
                       full and not bad, detail="range %s; exits other than exhaustion/error: %s" % (rng and (fmt(rng[0]), fmt(rng[1])), ["bb%d->bb%d" % e for e in bad]),
                       site=L["site"], key="C08-H6 | %s | load loop" % f.key)
        rep.floor("C08-H6", nl, 6, "lazy-load loops over contig batches")

    # ------------------------------------------------------------ H8: load-once tables only grow
    # The allow-list lets queries touch the contig tables because they are filled once by the idempotent loader (H2) and
    # what is in them afterwards never changes.  That is true only while nothing a query can reach takes entries out
    # again (or replaces them) - the loader would not bring them back, its counters say "loaded": every write that is
    # not an insertion must sit in code reachable only through the loader, i.e. unreachable from the queries once
    # load_contig_batch is removed from the call graph.
    GROW = re.compile(r"^borrow_mut->(push|push_back|insert|extend|extend_from_slice|reserve|reserve_exact|entry|or_insert\w*|append)$")
    # (the reference cache is not in this list: its readers call the filler first and the filler reloads on a miss, so evicting from it is harmless)
    CACHES = {(COL, ("sample_desc", "contigs")), ("ragc_common::collection::SampleDesc", ("contigs",)),
              ("ragc_common::collection::ContigDesc", ("segments",)), ("ragc_common::collection::ContigDesc", ("name",))}
    if loader:
        qkeys = [q.key for q in queries]
        reach_all = G.reachable(qkeys)
        reach_wo = G.reachable(qkeys, stop=lambda x: x == loader.key)
        n8 = 0
        for k in sorted(reach_all):
            f = F.funcs[k]
            if f.crate not in ("ragc_core", "ragc_common"):
                continue
            if k not in writes_cache:
                writes_cache[k] = local_writes(f)
            for fp, how, where in writes_cache[k]:
                root, names = fp
                hit = [c for c in CACHES if c[0] == root and names[:len(c[1])] == c[1]]
                if not hit:
                    continue
                n8 += 1
                grows = bool(GROW.match(how))
                private = k not in reach_wo
                rep.ob("C08-H8", "%s.%s is only added to by queries (%s in %s)" % (root.rsplit("::", 1)[-1], ".".join(names), how, k.split("::", 1)[-1]),
                       grows or private,
                       detail=("insertion" if grows else "inside the load-once loader (reachable only through load_contig_batch)") if (grows or private) else
                       "%s of a cache in code a query reaches outside the loader: entries taken out or replaced here make later answers depend on the query history (path: %s)" % (
                           how, " -> ".join(x.rsplit("::", 1)[-1] for x in (_path_without(G, qkeys, loader.key, k) or []))),
                       site=site_of(f, where), key="C08-H8 | %s | %s.%s | %s" % (k, root.rsplit("::", 1)[-1], ".".join(names), how))
        rep.floor("C08-H8", n8, 4, "writes to the lazily loaded contig tables")

    # ------------------------------------------------------------ H7: the belief behind the `reader` entry of the allow-list
    # "every read seeks to an absolute offset first": in each function that reads part bytes, the read is dominated by a
    # seek to SeekFrom::Start(<offset of the part>) on the same reader, on every path (no remembered position).
    nrd = 0
    for k, f in F.funcs.items():
        if not k.startswith("ragc_common::archive::Archive::") or f.kind == "promoted":
            continue
        reads = [(bi, t) for bi, t in f.calls() if not t.get("indirect") and (re.search(r"Read>?::read_exact$|Read>?::read$|Read>?::read_to_end$", t["callee"]) or t["callee"].endswith("varint::read_varint"))]
        if not reads:
            continue
        exf = Exprs(f)
        gf = cfg_of(f)
        seeks = [(bi, t) for bi, t in f.calls() if not t.get("indirect") and re.search(r"Seek>?::seek$", t["callee"])]
        starts = [bi for bi, t in seeks if re.search(r"SeekFrom::(Start|End)", fmt(exf.operand(t["args"][1])))]
        for bi, t in reads:
            src = fmt(exf.operand(t["args"][0]))
            if "cursor" in src.lower() or "Cursor" in f.locals[t["args"][0]["pl"]["l"]]["ty"]:
                continue        # parsing an in-memory buffer
            nrd += 1
            ok = any(gf.dominates(s, bi) for s in starts)
            rep.ob("C08-H7", "read in %s is preceded on every path by an absolute seek (the reader keeps no position between queries)" % k.rsplit("::", 1)[-1], ok,
                   detail="%d absolute seeks in the function" % len(starts), site=site_of(f, t), key="C08-H7 | %s | absolute seek before %s" % (k, t["callee"].rsplit("::", 1)[-1]))
    rep.floor("C08-H7", nrd, 3, "file reads in the archive reader")

    # ------------------------------------------------------------ H3
    fillers = {}
    readers = {}
    evictors = {}
    for f in F.funcs.values():
        if f.crate != "ragc_core":
            continue
        ex = None
        for bi, t in f.calls():
            if t.get("indirect") or "HashMap" not in t["callee"]:
                continue
            ex = ex or Exprs(f)
            recv = ex.operand(t["args"][0]) if t["args"] else None
            if not (isinstance(recv, tuple) and recv[0] == "field" and recv[2] == "segment_cache"):
                continue
            if re.search(r"::(insert|entry|extend|get_or_insert\w*|try_insert)$", t["callee"]):
                fillers.setdefault(f.key, []).append(site_of(f, t))
            elif re.search(r"::(remove|remove_entry|clear|retain|drain|shrink_to_fit|shrink_to)$", t["callee"]):
                evictors.setdefault(f.key, []).append((bi, site_of(f, t)))
            else:
                readers.setdefault(f.key, []).append((bi, site_of(f, t)))
    rep.floor("C08-H3", len(fillers), 1, "functions that fill the reference cache")
    rep.ob("C08-H3", "the reference cache is filled by exactly one function", len(fillers) == 1,
           detail="fillers: %s" % {k: v for k, v in fillers.items()}, site=(list(fillers.values())[0][0] if fillers else None),
           key="C08-H3 | segment_cache | single filler")
    # hit or miss must not matter: every other function that looks into the cache calls the filler first, or calls it on
    # the path that follows the look-up (the miss path).  With that, evicting entries is harmless (the filler reloads).
    if len(fillers) == 1:
        fk = list(fillers)[0]
        for k, sites in sorted(readers.items()):
            if k == fk:
                continue
            f = F.funcs[k]
            gk = cfg_of(f)
            fcalls = [bi for bi, t in f.calls() if not t.get("indirect") and t["callee"] == fk]
            for bi, site in sites:
                ok = any(gk.dominates(c, bi) for c in fcalls) or any(c in gk.reachable_from(bi) for c in fcalls)
                rep.ob("C08-H3", "look-up of the reference cache in %s is backed by the filler (a miss is reloaded, so hit or miss gives the same answer)" % k.rsplit("::", 1)[-1], ok,
                       detail="calls of %s in this body: %d" % (fk.rsplit("::", 1)[-1], len(fcalls)), site=site, key="C08-H3 | %s | look-up backed by the filler" % k)
        ff = F.funcs[fk]
        miss = any(not t.get("indirect") and re.search(r"HashMap.*::(contains_key|get)$", t["callee"]) for _, t in ff.calls())
        for k, sites in sorted(evictors.items()):
            for bi, site in sites:
                rep.ob("C08-H3", "eviction from the reference cache in %s is harmless: the filler tests for a miss and reloads" % k.rsplit("::", 1)[-1], miss,
                       site=site, key="C08-H3 | %s | eviction" % k)
    # a failed query leaves no trace: in the filler, the cache is touched only when the value is complete - no error exit is
    # reachable after a write (insert / entry / or_default ...) into the cache, otherwise a failed load leaves a placeholder
    # that later queries take for a loaded entry
    for fk in sorted(fillers):
        ff = F.funcs[fk]
        gf = cfg_of(ff)
        exf = Exprs(ff)
        errb = {x["err"] for x in try_sites(ff) if x["err"] is not None}
        for bi2, b2 in enumerate(ff.blocks):
            for s_ in b2["stmts"]:
                if s_["k"] == "assign" and s_["pl"]["l"] == 0 and not s_["pl"]["p"] and s_["rv"]["k"] == "agg" and s_["rv"].get("var") == "Err":
                    errb.add(bi2)
        for bi, t in ff.calls():
            if t.get("indirect") or "HashMap" not in t["callee"] or not re.search(r"::(insert|entry|or_default|or_insert\w*|get_or_insert\w*|try_insert)$", t["callee"]):
                continue
            recv = exf.operand(t["args"][0]) if t["args"] else None
            if not (isinstance(recv, tuple) and recv[0] == "field" and recv[2] == "segment_cache"):
                continue
            reach = gf.reachable_from(bi)
            late = sorted(b for b in errb if b in reach and b != bi)
            rep.ob("C08-H3", "%s touches the reference cache only with a complete value (no error exit after the cache write)" % fk.rsplit("::", 1)[-1], not late,
                   detail="error exits reachable after the %s: %s" % (t["callee"].rsplit("::", 1)[-1], [site_of(ff, ff.blocks[b]["term"]) for b in late[:3]]) if late else "the write is the last fallible-free step",
                   site=site_of(ff, t), key="C08-H3 | %s | no error after cache write" % fk)
    rep.stat("cache_readers", sorted(readers))
    rep.stat("cache_evictors", sorted(evictors))

    # ------------------------------------------------------------ H4
    npan = 0
    PANIC = re.compile(r"core::option::Option::<T>::(unwrap|expect)$|core::result::Result::<T, E>::(unwrap|expect)$|core::ops::index::Index>::index$|core::ops::index::Index::index$")
    for q in queries:
        reach = [k for k in G.reachable([q.key]) if F.funcs[k].crate in ("ragc_core", "ragc_common")]
        for k in sorted(reach):
            f = F.funcs[k]
            names = [n for l, n in f.arg_names().items() if re.search(r"&str|alloc::string::String", f.locals[l]["ty"])]
            if not names:
                continue
            ex = Exprs(f)
            for bi, t in f.calls():
                if t.get("indirect") or not PANIC.search(t["callee"]):
                    continue
                e = ex.operand(t["args"][0]) if t["args"] else None
                dep = contains(e, lambda x: isinstance(x, tuple) and x[0] == "param" and x[1] in names)
                if "Index" in t["callee"] and len(t["args"]) > 1:
                    dep = dep or contains(ex.operand(t["args"][1]), lambda x: isinstance(x, tuple) and x[0] == "param" and x[1] in names)
                if not dep:
                    continue
                npan += 1
                # acceptable when dominated by a check that the lookup succeeded (is_some / contains_key) — rare; report otherwise
                rep.ob("C08-H4", "lookup by caller-supplied name in %s does not panic" % k.rsplit("::", 1)[-1], False,
                       detail="%s on %s" % (t["callee"].rsplit("::", 1)[-1], fmt(e)), site=site_of(f, t),
                       key="C08-H4 | %s | %s on name lookup" % (k, t["callee"].rsplit("::", 1)[-1]))
    rep.ob("C08-H4", "no unwrap/expect/index on a value looked up by a caller-supplied name (in %d query closures)" % len(queries), npan == 0,
           key="C08-H4 | summary")
    # the name lookups return Option and queries convert None to Err
    nlook = 0
    for q in queries:
        ex = Exprs(q)
        pnames = [n for l, n in q.arg_names().items() if re.search(r"&str|alloc::string::String", q.locals[l]["ty"])]
        for bi, t in q.calls():
            if not t.get("indirect") and re.search(r"CollectionV3::(get_sample_desc|get_contig_desc|get_contig_list)$", t["callee"]):
                argn = [ex.operand(a) for a in t["args"][1:]]
                if not any(contains(a, lambda x: isinstance(x, tuple) and x[0] == "param" and x[1] in pnames) for a in argn):
                    continue     # name comes from the archive's own tables, not from the caller
                nlook += 1
                me = ex.call(t)
                conv = False
                for b2, t2 in q.calls():
                    if not t2.get("indirect") and re.search(r"Option::<T>::(ok_or_else|ok_or)$", t2["callee"]) and \
                            contains(ex.operand(t2["args"][0]), lambda x: x == me):
                        conv = result_fate(F, q, b2, t2) in ("propagated", "returned")
                    if not t2.get("indirect") and re.search(r"Option::<T>::(unwrap|expect)$", t2["callee"]) and \
                            contains(ex.operand(t2["args"][0]), lambda x: x == me):
                        conv = False
                rep.ob("C08-H4", "%s: a failed name lookup becomes Err" % q.key.rsplit("::", 1)[-1], conv,
                       site=site_of(q, t), key="C08-H4 | %s | %s to Err" % (q.key, t["callee"].rsplit("::", 1)[-1]))
    rep.floor("C08-H4", nlook, 5, "caller-named lookups in query methods")

    # ------------------------------------------------------------ H5
    cl = F.funcs.get(DEC + "::clone_for_thread")
    if rep.floor("C08-H5", 1 if cl else 0, 1, "clone_for_thread"):
        ex = Exprs(cl)
        calls = [(bi, t) for bi, t in cl.calls() if not t.get("indirect") and t["callee"].startswith("ragc_")]
        # (a) nothing of the old handle but its path and configuration flows into the new one
        srcs = []
        for bi, t in calls:
            for a in t["args"]:
                e = ex.operand(a)
                srcs += [x[2] for x in walk(e) if isinstance(x, tuple) and x[0] == "field" and x[1] == ("param", "self")]
        for blk in cl.blocks:
            for s in blk["stmts"]:
                if s["k"] == "assign" and s["rv"]["k"] == "agg" and s["rv"].get("adt") == DEC:
                    for o in s["rv"]["ops"]:
                        srcs += [x[2] for x in walk(ex.operand(o)) if isinstance(x, tuple) and x[0] == "field" and x[1] == ("param", "self")]
        ok = bool(calls) and set(srcs) <= {"archive_path", "config"} and "archive_path" in srcs
        rep.ob("C08-H5", "clone_for_thread builds the new handle from the path and the configuration only", ok,
               detail="self fields flowing into the new handle: %s" % sorted(set(srcs)), site="%s:%d" % (cl.file, cl.line_lo), key="C08-H5 | clone_for_thread | reopen")
        # (b) the new handle gets a descriptor of its own: the code it runs opens the file, and reader code never duplicates a descriptor
        #     (a dup'ed descriptor shares its file offset with the original)
        reach5 = [k for k in G.reachable([cl.key]) if k in F.funcs]
        opens = [k for k in reach5 for _, t in F.funcs[k].calls() if not t.get("indirect") and re.search(r"std::fs::File::open$|OpenOptions::open$", t["callee"])]
        rep.ob("C08-H5", "the code run by clone_for_thread opens the archive file itself", bool(opens), detail="File::open reached in: %s" % sorted(set(opens))[:3],
               key="C08-H5 | clone_for_thread | opens file")
    DUP = re.compile(r"fs::File::try_clone$|AsRawFd|FromRawFd|IntoRawFd|AsFd|OwnedFd|BorrowedFd|::dup\d?$")
    ndup = 0
    for k, f in F.funcs.items():
        if not (k.startswith("ragc_common::archive::") or k.startswith("ragc_core::decompressor::")):
            continue
        exf = None
        for bi, t in f.calls():
            if not t.get("indirect") and DUP.search(t["callee"]):
                exf = exf or Exprs(f)
                recv = exf.operand(t["args"][0]) if t["args"] else None
                fresh = recv is not None and contains(recv, lambda x: isinstance(x, tuple) and x[0] == "call" and re.search(r"std::fs::File::(open|create)$|OpenOptions::open$", x[1])) \
                    and not contains(recv, lambda x: x == ("param", "self"))
                if fresh:
                    continue        # second descriptor for a file this very call has just opened: both belong to the one new handle
                ndup += 1
                rep.ob("C08-H5", "reader code does not duplicate a file descriptor (%s in %s)" % (t["callee"].rsplit("::", 1)[-1], k.split("::", 1)[-1]), False,
                       detail="a duplicated descriptor shares its offset: concurrent handles would seek under each other", site=site_of(f, t),
                       key="C08-H5 | %s | descriptor duplication" % k)
    rep.stat("descriptor_duplications_in_reader_code", ndup)
    # no shared-state types inside the handle
    SHARED = re.compile(r"alloc::sync::Arc<|alloc::rc::Rc<|\*mut |\*const |core::cell::|&'static mut|std::sync::(poison::)?(mutex|rwlock)")
    seen = set()
    stack = [DEC]
    nf = 0
    while stack:
        a = stack.pop()
        if a in seen or a not in F.adts:
            continue
        seen.add(a)
        for v in F.adts[a]["variants"]:
            for fld in v["fields"]:
                nf += 1
                ty = fld["ty"]
                rep.ob("C08-H5", "%s.%s holds no shareable state" % (a.rsplit("::", 1)[-1], fld["name"]), not SHARED.search(ty), detail=ty, how="trivial",
                       key="C08-H5 | %s.%s | type" % (a, fld["name"]))
                for m in re.findall(r"(ragc_\w+(?:::\w+)+)", ty):
                    stack.append(m)
    rep.floor("C08-H5", nf, 20, "fields of the handle's types examined")
    # Decompressor is not Clone
    cloned = [im for im in F.impls if im.get("adt") == DEC and im.get("trait") == "core::clone::Clone"]
    rep.ob("C08-H5", "Decompressor is not Clone (handles are made by re-opening)", not cloned, key="C08-H5 | Decompressor | not Clone")
    # statics in reader-reachable code
    reach = set()
    for q in queries + ([cl] if cl else []):
        reach |= G.reachable([q.key])
    import json
    nstat = 0
    for k in sorted(reach):
        f = F.funcs[k]
        if f.crate not in ("ragc_core", "ragc_common"):
            continue
        used = _statics_used(f)
        for st in sorted(used):
            nstat += 1
            info = F.statics.get(st, {})
            ty = info.get("ty", "?")
            if info.get("mut"):
                rep.ob("C08-H5", "reader code touches no `static mut` (%s in %s)" % (st, k), False, key="C08-H5 | %s | static mut %s" % (k, st))
            elif ty.startswith("std::sync::once_lock::OnceLock<"):
                rep.ob("C08-H5", "static %s read by reader code is a write-once memo" % st.rsplit("::", 1)[-1], True, how="trivial",
                       detail="OnceLock: the same value for every handle and every query", key="C08-H5 | static %s" % st)
            elif re.search(r"Atomic|Mutex|RwLock|Cell", ty) or info.get("thread_local"):
                # allowed only if every use is a fetch_add/store whose value is not read back
                bad = _static_value_read(f, st)
                rep.ob("C08-H5", "interior-mutable static %s is not read into results by %s" % (st.rsplit("::", 1)[-1], k.rsplit("::", 1)[-1]),
                       not bad, detail="uses: %s" % bad, key="C08-H5 | %s | static %s" % (k, st))
            else:
                rep.ob("C08-H5", "static %s is immutable data" % st.rsplit("::", 1)[-1], True, how="trivial", key="C08-H5 | static %s" % st)
    rep.stat("statics_in_reader_code", nstat)


def _statics_used(f):
    out = set()

    def visit(o):
        if isinstance(o, dict):
            if o.get("k") == "const" and "static" in o:
                out.add(o["static"])
            if o.get("k") == "tls":
                out.add(o["item"])
            for v in o.values():
                visit(v)
        elif isinstance(o, list):
            for v in o:
                visit(v)
    for b in f.blocks:
        if not b["cleanup"]:
            visit(b["stmts"])
            visit(b["term"])
    return out


def _static_value_read(f, st):
    """call sites that read the static's value (load / get / with) rather than only bump it"""
    bad = []
    ex = Exprs(f)
    for bi, t in f.calls():
        if t.get("indirect") or not t["args"]:
            continue
        e = ex.operand(t["args"][0])
        if contains(e, lambda x: isinstance(x, tuple) and x[0] in ("constty",) ) and False:
            pass
        s = repr(t["args"])
        if st in s or (t["args"][0].get("pl") and _local_is_static(f, t["args"][0]["pl"]["l"], st)):
            c = t["callee"].rsplit("::", 1)[-1]
            if c in ("fetch_add", "fetch_sub", "store"):
                # result must be unused
                continue
            bad.append(t["callee"])
    return bad


def _local_is_static(f, l, st):
    for b in f.blocks:
        for s in b["stmts"]:
            if s["k"] == "assign" and s["pl"]["l"] == l and not s["pl"]["p"]:
                if st in repr(s["rv"]):
                    return True
    return False


def _path_without(G, roots, removed, target):
    prev = {}
    todo = [r for r in roots if r != removed]
    for r in todo:
        prev[r] = None
    i = 0
    while i < len(todo):
        k = todo[i]
        i += 1
        if k == target:
            out = []
            while k is not None:
                out.append(k)
                k = prev[k]
            return out[::-1]
        for c in sorted(G.out.get(k, ())):
            if c not in prev and c != removed:
                prev[c] = k
                todo.append(c)
    return None
