"""C13 — archive container returns what was stored: structural clauses (DESIGN 4/C13)."""
import re

from cfg import cfg_of
from expr import Exprs, fmt, walk, contains, strip_tags
from mirutil import is_call, for_loops, try_sites, error_blocks, dominating_conds, cond_bool, local_updates, erase_vars
from paths import enumerate_paths, path_events
from framework import site_of
import callgraph as cgmod

EXPLANATION = (
    "Structural clauses of the container contract decided on MIR: (A-ORD) the write buffer is an ordered map of "
    "append-only vectors, flush_buffers replays it once in map order through the immediate add_part, add_part "
    "appends to the stream's part list, register_stream returns the stored id or the pre-push length; (A-OFF) in "
    "add_part the recorded offset is read before any write, every write_all(x) is followed on all paths by "
    "f_offset += x.len(), the recorded size is data.len(), and only add_part/serialize write to the file; "
    "(A-FOOT) the role sequence written by the footer serialiser (count; per stream name, NUL, #parts, raw size; "
    "per part offset, size; 8-byte LE length) equals the sequence consumed by the deserialiser, with the same "
    "loop nesting; (A-VAR) the length-prefixed big-endian integer codec is interpreted in an 8-bit slot domain over the nine classes "
    "`exactly m significant bytes` that partition u64: writer output = length byte + value bytes most significant first, reader returns the same "
    "value and length, malformed length bytes and truncated encodings are errors (shape clauses only as fallback); "
    "(A-EMPTY) empty parts are returned as (empty, 0) without touching the file.")
UNDECIDED = "byte equality of stored and returned parts as such (runtime I/O); behaviour of the OS file layer"

ARCH = "ragc_common::archive::Archive::"


def run(F, rep):
    rep.explanation = EXPLANATION
    rep.undecided = UNDECIDED
    rep.assumptions = ["BTreeMap iterates in key order, Vec keeps insertion order", "BufWriter/File write bytes in call order"]
    G = cgmod.CallGraph(F)
    fn = lambda n: F.funcs.get(ARCH + n)
    need = ["add_part", "add_part_buffered", "flush_buffers", "register_stream", "serialize", "deserialize", "read_part_data", "close", "open"]
    have = [n for n in need if fn(n)]
    if not rep.floor("C13-ANCHOR", len(have), len(need), "Archive methods " + ",".join(need)):
        return
    adt = F.adts.get("ragc_common::archive::Archive")
    fields = {f["name"]: f for f in adt["variants"][0]["fields"]}

    # ------------------------------------------------------------ A-ORD
    wb = fields.get("write_buffer")
    wty = wb["ty"] if wb else ""
    formA = wty.startswith("alloc::collections::btree::map::BTreeMap<usize, alloc::vec::Vec<")
    formB = bool(re.match(r"alloc::vec::Vec<\(usize, alloc::vec::Vec<u8>, u64\)>$", wty))
    rep.ob("C13-ORD", "write_buffer keeps insertion order per stream: an ordered map of vectors, or a flat vector of (stream id, data, metadata) that is sorted stably",
           formA or formB, detail=wty or "field missing", key="C13-ORD | write_buffer type")
    st = F.adts.get("ragc_common::archive::Stream")
    pf = {f["name"]: f for f in st["variants"][0]["fields"]} if st else {}
    rep.ob("C13-ORD", "Stream.parts is a Vec (commit order = push order)", pf.get("parts", {}).get("ty", "").startswith("alloc::vec::Vec<"),
           key="C13-ORD | parts type")
    rep.ob("C13-ORD", "streams is a Vec (id = index)", fields.get("streams", {}).get("ty", "").startswith("alloc::vec::Vec<"), key="C13-ORD | streams type")
    for name, f in fields.items():
        rep.ob("C13-ORD", "Archive.%s is private" % name, not f["pub"], how="trivial", key="C13-ORD | private %s" % name)
    # who touches write_buffer
    touch = _who_projects(F, "ragc_common::archive::Archive", "write_buffer")
    allowed = {ARCH + "add_part_buffered", ARCH + "flush_buffers", ARCH + "new_reader", ARCH + "new_writer"}
    rep.ob("C13-ORD", "only add_part_buffered and flush_buffers touch the write buffer", touch <= allowed,
           detail="touching: %s" % sorted(touch - allowed), key="C13-ORD | who touches write_buffer")
    apb = fn("add_part_buffered")
    REORDER = re.compile(r"::(sort\w*|reverse|rev|swap\w*|dedup\w*|retain\w*|pop|remove|insert|truncate|clear|drain|rotate_\w+|swap_remove|split_off)$")
    calls = [t["callee"] for _, t in apb.calls()]
    muts = [c for c in calls if re.search(r"alloc::vec::Vec::<T, A>::", c)]
    rep.ob("C13-ORD", "add_part_buffered only appends (one Vec::push, no reordering call)", muts == ["alloc::vec::Vec::<T, A>::push"] and
           not any(REORDER.search(c) and "Vec" in c for c in calls), detail="vec calls: %s" % muts, site="%s:%d" % (apb.file, apb.line_lo),
           key="C13-ORD | add_part_buffered appends")
    # the pushed tuple is (data, metadata) and the key is stream_id
    ex = Exprs(apb)
    want_tuple = [("param", "data"), ("param", "metadata")] if not formB else [("param", "stream_id"), ("param", "data"), ("param", "metadata")]
    for bi, t in apb.calls():
        if t["callee"].endswith("Vec::<T, A>::push"):
            v = ex.operand(t["args"][1])
            ok = isinstance(v, tuple) and v[0] == "agg" and [x[1] for x in v[2]] == want_tuple
            rep.ob("C13-ORD", "buffered element is (data, metadata) of the call%s" % (" with its stream id" if formB else ""), ok, detail=fmt(v), site=site_of(apb, t), key="C13-ORD | buffered tuple")
        if t["callee"].endswith("BTreeMap::<K, V, A>::entry"):
            rep.ob("C13-ORD", "buffer key is the stream id of the call", ex.operand(t["args"][1]) == ("param", "stream_id"),
                   site=site_of(apb, t), key="C13-ORD | buffer key")
    fb = fn("flush_buffers")
    exf = Exprs(fb)
    loops = for_loops(fb, exf)
    adds = [(bi, t) for bi, t in fb.calls() if t["callee"] == ARCH + "add_part"]
    calls = [t["callee"] for _, t in fb.calls()]
    if formB:
        # flat form: one stable sort by the stream id, then one loop replaying every element
        sorts = [(bi, t) for bi, t in fb.calls() if re.search(r"::sort\w*$", t["callee"])]
        stable = [t for _, t in sorts if re.search(r"slice::<impl \[T\]>::(sort|sort_by|sort_by_key|sort_by_cached_key)$", t["callee"])]
        rep.ob("C13-ORD", "flush_buffers orders the flat buffer with exactly one STABLE sort (parts of one stream keep their insertion order)",
               len(sorts) == 1 and len(stable) == 1,
               detail="sort calls: %s%s" % ([t["callee"].rsplit("::", 1)[-1] for _, t in sorts], "; an unstable sort may commit parts of the same stream out of insertion order" if len(stable) != len(sorts) else ""),
               site=site_of(fb, sorts[0][1]) if sorts else "%s:%d" % (fb.file, fb.line_lo), key="C13-ORD | flush sort is stable")
        keyok = False
        for c in F.closures_of(fb.key):
            exc = Exprs(c)
            for bk in c.blocks:
                for s_ in bk["stmts"]:
                    if s_["k"] == "assign" and s_["pl"]["l"] == 0 and not s_["pl"]["p"]:
                        rv = fmt(strip_tags(exc.rvalue(s_["rv"])))
                        if re.search(r"\.0\b", rv) and not re.search(r"\.[12]\b", rv):
                            keyok = True
        rep.ob("C13-ORD", "the sort key is the stream id (first tuple field) only", keyok, key="C13-ORD | flush sort key")
        ok = len(adds) == 1 and len(loops) == 1 and adds[0][0] in loops[0]["body"]
        rep.ob("C13-ORD", "flush_buffers replays the whole buffer through add_part in one loop", ok,
               detail="%d add_part call(s), %d loop(s)" % (len(adds), len(loops)), site="%s:%d" % (fb.file, fb.line_lo), key="C13-ORD | flush replays")
        other = [c for c in calls if REORDER.search(c) and not re.search(r"::sort\w*$", c)]
        rep.ob("C13-ORD", "flush_buffers takes the buffer (mem::take) and does not reorder otherwise", any(c.startswith("core::mem::take") for c in calls) and not other,
               detail="calls: %s" % sorted(set(c.rsplit("::", 1)[-1] for c in other)), key="C13-ORD | flush takes, no reorder")
    else:
        ok = len(adds) == 1 and len(loops) == 2 and all(adds[0][0] in L["body"] for L in loops)
        rep.ob("C13-ORD", "flush_buffers replays the whole buffer through add_part in a doubly nested loop", ok,
               detail="%d add_part call(s), %d loop(s)" % (len(adds), len(loops)), site="%s:%d" % (fb.file, fb.line_lo), key="C13-ORD | flush replays")
        rep.ob("C13-ORD", "flush_buffers takes the buffer (mem::take) and does not reorder", any(c.startswith("core::mem::take") for c in calls) and
               not any(REORDER.search(c) for c in calls), detail="calls: %s" % sorted(set(c.rsplit("::", 2)[-2] + "::" + c.rsplit("::", 1)[-1] for c in calls)),
               key="C13-ORD | flush takes, no reorder")
        if loops:
            outer = max(loops, key=lambda L: len(L["body"]))
            src = outer["source"]
            rep.ob("C13-ORD", "outer loop iterates the taken map itself (BTreeMap order)",
                   contains(src, lambda x: isinstance(x, tuple) and x[0] == "call" and x[1].startswith("core::mem::take")) and
                   not contains(src, lambda x: isinstance(x, tuple) and x[0] == "call" and REORDER.search(x[1])),
                   detail=fmt(src), key="C13-ORD | flush outer loop source")
    ap = fn("add_part")
    exa = Exprs(ap)
    pushes = [(bi, t) for bi, t in ap.calls() if t["callee"].endswith("Vec::<T, A>::push")]
    okp = False
    for bi, t in pushes:
        recv = exa.operand(t["args"][0])
        if contains(recv, lambda x: isinstance(x, tuple) and x[0] == "field" and x[2] == "parts"):
            okp = True
            part = exa.operand(t["args"][1])
            rep.stat("add_part_pushes", fmt(part))
    rep.ob("C13-ORD", "add_part appends exactly one Part to streams[id].parts", okp and len(pushes) == 1, site="%s:%d" % (ap.file, ap.line_lo),
           key="C13-ORD | add_part appends")
    _register_stream(F, rep, fn("register_stream"))

    # ------------------------------------------------------------ A-OFF
    _offsets(F, rep, ap, exa, G)

    # ------------------------------------------------------------ A-FOOT
    _footer(F, rep, fn("serialize"), fn("deserialize"))

    # ------------------------------------------------------------ A-VAR
    _varint(F, rep)
    _count_bounds(F, rep)
    # (OPEN) the writer starts from an empty file: the reader finds the directory through the last 8 bytes of the file, so
    # bytes of an older, longer file at the same path must not survive behind the new archive
    nop = 0
    for f in F.funcs.values():
        if f.crate != "ragc_common" or f.kind == "promoted" or f.d.get("test"):
            continue
        exo = None
        for bi, t in f.calls():
            if t.get("indirect"):
                continue
            if t["callee"].endswith("fs::File::create") or t["callee"].endswith("fs::File::create_new"):
                nop += 1
                rep.ob("C13-OPEN", "%s creates its output with File::create (truncates an existing file)" % f.key.split("::", 1)[-1], True, how="trivial",
                       site=site_of(f, t), key="C13-OPEN | %s | File::create" % f.key)
            elif t["callee"].endswith("fs::OpenOptions::open"):
                exo = exo or Exprs(f)
                chain = fmt(exo.operand(t["args"][0]))
                if not (re.search(r"OpenOptions::(write|create)\(.*?, 1\)", chain) or "OpenOptions::write" in chain or "OpenOptions::append" in chain):
                    continue
                nop += 1
                safe = re.search(r"OpenOptions::(truncate|create_new)\(", chain) is not None
                rep.ob("C13-OPEN", "a file opened for writing in %s starts empty (truncate / create_new)" % f.key.split("::", 1)[-1], safe,
                       detail="builder chain: %s%s" % (chain[:160], "" if safe else "; an older, longer file at the path keeps its tail, and the reader takes the directory from the last 8 bytes"),
                       site=site_of(f, t), key="C13-OPEN | %s | open for writing" % f.key)
    rep.floor("C13-OPEN", nop, 1, "places where the container opens a file for writing")
    # (CUR) random access does not move the sequential cursor: cur_id is written only by the sequential reader (get_part),
    # by open/deserialize (reset) and by rewind helpers - never by get_part_by_id or the code it calls
    gpid = F.funcs.get(ARCH + "get_part_by_id")
    if rep.floor("C13-CUR", 1 if gpid else 0, 1, "Archive::get_part_by_id"):
        Gc = cgmod.CallGraph(F)
        bad = []
        for k in sorted(Gc.reachable([gpid.key])):
            f2 = F.funcs[k]
            if f2.crate != "ragc_common":
                continue
            for b in f2.blocks:
                for s_ in b["stmts"]:
                    if s_["k"] == "assign" and s_["pl"]["p"]:
                        last = s_["pl"]["p"][-1]
                        if isinstance(last, dict) and last.get("n") == "cur_id":
                            bad.append("%s (%s)" % (k.split("::", 1)[-1], site_of(f2, s_)))
        rep.ob("C13-CUR", "get_part_by_id leaves the sequential read cursor alone (a later get_part continues where the last get_part stopped)", not bad,
               detail="writes of cur_id reachable from get_part_by_id: %s" % bad[:3] if bad else "no write of cur_id reachable", site="%s:%d" % (gpid.file, gpid.line_lo),
               key="C13-CUR | get_part_by_id | cursor untouched")
    from rules import c12
    c12.io_rule(F, rep, "C13-IO")        # the container's reads and writes are all-or-error calls

    # ------------------------------------------------------------ A-EMPTY
    rp = fn("read_part_data")
    exr = Exprs(rp)
    found = False
    for p in enumerate_paths(rp, max_back=0):
        evs = path_events(rp, p, exr, lambda t, ex: ("io", t["callee"]) if re.search(r"::(seek|read_exact|read)$|read_varint$", t["callee"]) else None,
                          lambda s, ex: ("ret", ex.rvalue(s["rv"])) if s["pl"]["l"] == 0 and not s["pl"]["p"] else None)
        conds = [e for e in evs if e.kind == "cond"]
        first = conds[0] if conds else None
        if first is not None and _is_size_zero(first):
            found = True
            ios = [e for e in evs if e.kind == "io"]
            rets = [e for e in evs if e.kind == "ret"]
            val = rets[-1].data if rets else None
            okv = _is_ok_some_empty_zero(val)
            rep.ob("C13-EMPTY", "a part of size 0 reads back as (empty, 0) without touching the file", not ios and okv,
                   detail="io calls on the path: %s; value %s" % ([e.data for e in ios], fmt(val)), site=rets[-1].site if rets else None,
                   key="C13-EMPTY | read_part_data | zero size path")
    rep.floor("C13-EMPTY", 1 if found else 0, 1, "size == 0 early path in the part reader")


def _is_size_zero(ev):
    e, (how, vals) = ev.data
    t = cond_bool(how, vals)
    if not (isinstance(e, tuple) and e[0] == "bin" and e[1] == "Eq"):
        return False
    ops = (e[2], e[3])
    return t is True and ("const", 0) in ops and any(isinstance(o, tuple) and o[0] == "field" and o[2] == "size" for o in ops)


def _is_ok_some_empty_zero(v):
    # Ok(Some((Vec::new(), 0)))
    s = repr(v)
    return "Result::Ok" in s and "Option::Some" in s and "Vec::<T>::new" in s and "('const', 0)" in s


def _who_projects(F, adt, field):
    out = set()
    for f in F.funcs.values():
        hit = False
        for b in f.blocks:
            if b["cleanup"]:
                continue
            for s in b["stmts"]:
                if s["k"] != "assign":
                    continue
                for pl in _places(s):
                    for pr in pl["p"]:
                        if isinstance(pr, dict) and pr.get("adt") == adt and pr.get("n") == field:
                            hit = True
            t = b["term"]
            for pl in _term_places(t):
                for pr in pl["p"]:
                    if isinstance(pr, dict) and pr.get("adt") == adt and pr.get("n") == field:
                        hit = True
        if hit:
            out.add(f.key if f.kind != "closure" else f.root)
    return out


def _places(s):
    yield s["pl"]
    rv = s["rv"]
    if "pl" in rv:
        yield rv["pl"]
    for k in ("op", "a", "b"):
        o = rv.get(k)
        if isinstance(o, dict) and "pl" in o:
            yield o["pl"]
    for o in rv.get("ops", []):
        if "pl" in o:
            yield o["pl"]


def _term_places(t):
    if t["k"] == "call":
        for a in t["args"]:
            if "pl" in a:
                yield a["pl"]
        yield t["dest"]
    elif t["k"] == "drop":
        yield t["pl"]
    elif t["k"] == "switch" and "pl" in t["discr"]:
        yield t["discr"]["pl"]


def _register_stream(F, rep, f):
    ex = Exprs(f)
    g = cfg_of(f)
    gets = [bi for bi, t in f.calls() if re.search(r"HashMap::<K, V, S(, A)?>::get", t["callee"]) or re.search(r"hash::map::HashMap.*::get$", t["callee"])]
    lens = [bi for bi, t in f.calls() if t["callee"].endswith("Vec::<T, A>::len")]
    pushes = [bi for bi, t in f.calls() if t["callee"].endswith("Vec::<T, A>::push")]
    inserts = [(bi, t) for bi, t in f.calls() if re.search(r"HashMap.*::insert$", t["callee"])]
    ok = bool(gets and lens and pushes and inserts)
    if ok:
        ok = g.dominates(lens[0], pushes[0]) and all(g.dominates(gets[0], x) for x in lens + pushes)
    rep.ob("C13-ORD", "register_stream: lookup first, new id = streams.len() taken before the push", ok,
           detail="get@%s len@%s push@%s" % (gets, lens, pushes), site="%s:%d" % (f.file, f.line_lo), key="C13-ORD | register_stream order")
    # returned values: the stored id on a hit, the pre-push length otherwise; the map stores that same id
    rets = set()
    for b in f.blocks:
        for s in b["stmts"]:
            if s["k"] == "assign" and s["pl"]["l"] == 0 and not s["pl"]["p"]:
                rets.add(strip_tags(ex.rvalue(s["rv"])))
    lens_e = {strip_tags(ex.call(f.blocks[b]["term"])) for b in lens}
    hit = any(contains(r, lambda x: isinstance(x, tuple) and x[0] == "call" and re.search(r"HashMap.*::get$", x[1])) for r in rets)
    miss = any(r in lens_e for r in rets)
    stored = [strip_tags(ex.operand(t["args"][2])) for _, t in inserts]
    rep.ob("C13-ORD", "register_stream returns the stored id on a hit and the new index otherwise, and stores that index",
           hit and miss and len(rets) == 2 and all(s in lens_e for s in stored), detail="returns: %s; stores: %s" % ([fmt(r) for r in rets], [fmt(s) for s in stored]),
           site="%s:%d" % (f.file, f.line_lo), key="C13-ORD | register_stream values")


def _offsets(F, rep, ap, ex, G):
    g = cfg_of(ap)
    errb = error_blocks(ap)
    W = r"std::io::Write>::write_all$"
    # part_offset read
    off_reads = []
    for bi, b in enumerate(ap.blocks):
        for s in b["stmts"]:
            if s["k"] == "assign" and not s["pl"]["p"] and s["rv"]["k"] == "use" and s["rv"]["op"]["k"] in ("copy", "move"):
                pl = s["rv"]["op"]["pl"]
                if pl["p"] and isinstance(pl["p"][-1], dict) and pl["p"][-1].get("n") == "f_offset" and ap.local_names().get(s["pl"]["l"]):
                    off_reads.append((bi, s["pl"]["l"], s))
    writes = [bi for bi, t in ap.calls() if is_call(t, W)]
    rep.floor("C13-OFF", len(writes), 2, "write_all calls in add_part (metadata, data)")
    rep.floor("C13-OFF", len(off_reads), 1, "read of f_offset into a local before writing")
    if off_reads:
        rb, rl, rs = off_reads[0]
        ok = all(g.dominates(rb, w) and rb != w for w in writes)
        # and no f_offset write before it
        fw = _field_writes(ap, "f_offset")
        ok = ok and all(g.dominates(rb, x) for x, _ in fw)
        rep.ob("C13-OFF", "the part's offset is f_offset read before any write of this part", ok, site=site_of(ap, rs), key="C13-OFF | offset read first")
        # Part::new(part_offset, data.len())
        for bi, t in ap.calls():
            if t["callee"].endswith("archive::Part::new"):
                a0 = t["args"][0]
                a1 = ex.operand(t["args"][1])
                src0 = a0.get("pl", {}).get("l")
                # trace copies
                e0 = ex.operand(a0)
                ok0 = (src0 == rl) or e0 == ex.rvalue(rs["rv"])
                ok1 = a1 == ("len", ("param", "data")) or a1 == ("call", "core::slice::<impl [T]>::len", (("param", "data"),))
                rep.ob("C13-OFF", "recorded part = (offset before the write, data.len())", ok0 and ok1, detail="Part::new(%s, %s)" % (fmt(e0), fmt(a1)),
                       site=site_of(ap, t), key="C13-OFF | recorded part")
    # every write_all(x) followed by f_offset += len(x) before the next write / exit (non-error paths)
    def ccall(t, ex):
        if is_call(t, W):
            return ("write", ex.operand(t["args"][1]))
        return None

    def cassign(s, ex):
        pl = s["pl"]
        if pl["p"] and isinstance(pl["p"][-1], dict) and pl["p"][-1].get("n") == "f_offset":
            return ("offset_write", ex.rvalue(s["rv"]))
        return None
    npaths = 0
    for p in enumerate_paths(ap, max_back=0):
        if any(b in errb for b in p):
            continue
        npaths += 1
        evs = [e for e in path_events(ap, p, ex, ccall, cassign, want_conds=False) if e.kind in ("write", "offset_write")]
        ok = True
        why = ""
        i = 0
        while i < len(evs):
            e = evs[i]
            if e.kind == "write":
                nxt = evs[i + 1] if i + 1 < len(evs) else None
                if nxt is None or nxt.kind != "offset_write" or not _adds_len_of(nxt.data, e.data):
                    ok = False
                    why = "write_all(%s) at %s is not followed by f_offset += its length (next: %s)" % (fmt(e.data), e.site, nxt)
                i += 2
            else:
                ok = False
                why = "f_offset written without a preceding write at %s" % e.site
                i += 1
        rep.ob("C13-OFF", "add_part: each write_all(x) is followed by f_offset += x.len() (path #%d)" % npaths, ok, detail=why,
               site="%s:%d" % (ap.file, ap.line_lo), key="C13-OFF | add_part | paired accounting")
    rep.floor("C13-OFF", npaths, 1, "success paths of add_part")
    # who writes f_offset / who writes to the file
    wr = set()
    for f in F.funcs.values():
        if f.crate == "ragc_common" and _field_writes(f, "f_offset"):
            wr.add(f.key)
    allowed = {ARCH + "add_part", ARCH + "open"}
    rep.ob("C13-OFF", "only add_part (and open, which resets it) write f_offset", wr <= allowed, detail="writers: %s" % sorted(wr), key="C13-OFF | who writes f_offset")
    op = F.funcs.get(ARCH + "open")
    for bi, s in _field_writes(op, "f_offset"):
        rep.ob("C13-OFF", "open resets f_offset to 0", Exprs(op).rvalue(s["rv"]) == ("const", 0), site=site_of(op, s), key="C13-OFF | open resets")
    filew = set()
    for f in F.funcs.values():
        if f.crate != "ragc_common" or not f.key.startswith("ragc_common::archive::"):
            continue
        for bi, t in f.calls():
            if is_call(t, W) and "BufWriter<std::fs::File>" in t.get("callee_disp", ""):
                filew.add(f.key)
    rep.ob("C13-OFF", "only add_part and the footer serialiser write to the file", filew <= {ARCH + "add_part", ARCH + "serialize"},
           detail="writers: %s" % sorted(filew), key="C13-OFF | who writes the file")
    callers = G.callers(ARCH + "serialize")
    rep.ob("C13-OFF", "the footer serialiser is called only from close()", callers == {ARCH + "close"}, detail="callers: %s" % sorted(callers),
           key="C13-OFF | serialize only from close")


def _adds_len_of(e, x):
    if not (isinstance(e, tuple) and e[0] == "bin" and e[1] == "Add"):
        return False
    ops = [e[2], e[3]]
    has_off = any(isinstance(o, tuple) and o[0] == "field" and o[2] == "f_offset" for o in ops)
    lens = [("len", x), ("call", "alloc::vec::Vec::<T, A>::len", (x,)), ("call", "core::slice::<impl [T]>::len", (x,))]
    # a prefix slice buf[..n] (or buf[0..n]) has length n: indexing panics otherwise
    if isinstance(x, tuple) and x[0] == "call" and x[1].endswith("::index") and len(x[2]) == 2:
        r = x[2][1]
        if isinstance(r, tuple) and r[0] == "agg" and re.search(r"ops::range::(RangeTo|Range)\b", r[1]):
            d = dict(r[2])
            if d.get("start", ("const", 0)) == ("const", 0) and "end" in d:
                lens.append(d["end"])
    lens = [strip_tags(l) for l in lens]
    return has_off and any(strip_tags(o) in lens for o in ops)


def _field_writes(f, name):
    out = []
    for bi, b in enumerate(f.blocks):
        if b["cleanup"]:
            continue
        for s in b["stmts"]:
            if s["k"] == "assign" and s["pl"]["p"] and isinstance(s["pl"]["p"][-1], dict) and s["pl"]["p"][-1].get("n") == name:
                out.append((bi, s))
    return out


# ---------------------------------------------------------------- footer
def _loop_depths(f):
    g = cfg_of(f)
    loops = g.loops()
    depth = {}
    for b in g.reach:
        depth[b] = sum(1 for h, body in loops if b in body)
    return depth


def _rpo(f):
    g = cfg_of(f)
    seen = set()
    order = []

    def dfs(b):
        stack = [(b, iter(g.succ[b]))]
        seen.add(b)
        while stack:
            x, it = stack[-1]
            adv = False
            for s in it:
                if s not in seen:
                    seen.add(s)
                    stack.append((s, iter(g.succ[s])))
                    adv = True
                    break
            if not adv:
                order.append(x)
                stack.pop()
    dfs(0)
    return list(reversed(order))


def _footer(F, rep, ser, de):
    exs, exd = Exprs(ser), Exprs(de)
    ds, dd = _loop_depths(ser), _loop_depths(de)
    # the directory buffer is whatever local the serialiser hands to write_varint
    recvs = [exs.operand(t["args"][0]) for _, t in ser.calls() if t["callee"].endswith("varint::write_varint")]
    names = {r[1] for r in recvs if isinstance(r, tuple) and r[0] == "var"}
    if len(names) == 1:
        FOOTER_VAR[0] = names.pop()
    # writer sequence
    wseq = []
    order = {b: i for i, b in enumerate(_rpo(ser))}
    for bi, t in sorted(ser.calls(), key=lambda x: order.get(x[0], 1 << 30)):
        c = t["callee"]
        if c.endswith("varint::write_varint"):
            wseq.append((ds[bi], "varint", _wrole(exs.operand(t["args"][1]))))
        elif c.endswith("Vec::<T, A>::extend_from_slice") and ds[bi] >= 1:
            wseq.append((ds[bi], "bytes", _wrole(exs.operand(t["args"][1]))))
        elif c.endswith("Vec::<T, A>::extend_from_slice") and ds[bi] == 0 and exs.operand(t["args"][0]) == ("var", FOOTER_VAR[0]):
            wseq.append((0, "append", _wrole(exs.operand(t["args"][1]))))
        elif c.endswith("Vec::<T, A>::push") and ds[bi] >= 1:
            wseq.append((ds[bi], "byte", fmt(exs.operand(t["args"][1]))))
        elif c.endswith("::write_all") and "BufWriter" in t.get("callee_disp", ""):
            wseq.append((ds[bi], "file", _wrole(exs.operand(t["args"][1]))))
    rep.stat("footer_writer_sequence", ["%d:%s:%s" % x for x in wseq])
    want_w = [(0, "varint", "nstreams"), (1, "bytes", "name"), (1, "byte", "0"), (1, "varint", "nparts"), (1, "varint", "raw_size"),
              (2, "varint", "offset"), (2, "varint", "size"), (0, "file", "footer"), (0, "file", "le8(len(footer))")]
    rep.ob("C13-FOOT", "footer serialiser emits: count; per stream name, NUL, #parts, raw size; per part offset, size; then directory and 8-byte LE length",
           wseq == want_w or wseq == want_w[:-2] + [(0, "append", "le8(len(footer))"), (0, "file", "footer")], detail="found %s" % ["%d:%s:%s" % x for x in wseq], site="%s:%d" % (ser.file, ser.line_lo), key="C13-FOOT | writer sequence")
    # reader sequence: read_varint results by role of their use
    rseq = []
    order = {b: i for i, b in enumerate(_rpo(de))}
    loops = for_loops(de, exd)
    for bi, t in sorted(de.calls(), key=lambda x: order.get(x[0], 1 << 30)):
        c = t["callee"]
        if c.endswith("varint::read_varint"):
            rseq.append((dd[bi], "varint", _rrole(de, exd, bi, t, loops)))
    rep.stat("footer_reader_sequence", ["%d:%s:%s" % x for x in rseq])
    want_r = [(0, "varint", "nstreams"), (1, "varint", "nparts"), (1, "varint", "raw_size"), (2, "varint", "offset"), (2, "varint", "size")]
    rep.ob("C13-FOOT", "deserialiser consumes the same role sequence with the same nesting", rseq == want_r,
           detail="found %s" % ["%d:%s:%s" % x for x in rseq], site="%s:%d" % (de.file, de.line_lo), key="C13-FOOT | reader sequence")
    # name loop: reads single bytes until 0 at depth >= 1, before nparts
    g = cfg_of(de)
    name_ok = False
    for h, body in g.loops():
        if dd[h] == 2:
            has_read1 = any(is_call(de.blocks[b]["term"], r"read_exact$") for b in body)
            has_push = any(is_call(de.blocks[b]["term"], r"String::push$") for b in body)
            zero_exit = False
            for b in body:
                t = de.blocks[b]["term"]
                if t["k"] == "switch":
                    e = exd.operand(t["discr"])
                    if isinstance(e, tuple) and e[0] == "bin" and e[1] == "Eq" and ("const", 0) in (e[2], e[3]) and any(s not in body for s in g.succ[b]):
                        zero_exit = True
            if has_read1 and has_push and zero_exit:
                name_ok = True
    rep.ob("C13-FOOT", "deserialiser reads the stream name byte-wise up to the NUL terminator", name_ok, site="%s:%d" % (de.file, de.line_lo), key="C13-FOOT | name loop")
    # length: from_le_bytes of 8 bytes read after seek(End(-8)); seek to size - 8 - len
    fl = [t for _, t in de.calls() if t["callee"].endswith("from_le_bytes")]
    ok = len(fl) == 1 and fl[0]["callee"] == "core::num::<impl u64>::from_le_bytes"
    seeks = [exd.operand(t["args"][1]) for _, t in de.calls() if t["callee"].endswith("std::io::Seek>::seek") and "fs::File" in t["callee_disp"]]
    end8 = any(isinstance(s, tuple) and s[0] == "agg" and s[1].endswith("SeekFrom::End") and dict(s[2]).get("0") == ("const", -8) for s in seeks)
    start = [dict(s[2]).get("0") for s in seeks if isinstance(s, tuple) and s[0] == "agg" and s[1].endswith("SeekFrom::Start")]
    from mirutil import linear
    foot_start = False
    for s in start:
        l = linear(s)
        atoms = [k for k in l if k != "1"]
        if l.get("1", 0) == -8 and len(atoms) == 2 and sorted(l[a] for a in atoms) == [-1, 1] and \
                any("Metadata::len" in a and l[a] == 1 for a in atoms) and any("from_le_bytes" in a and l[a] == -1 for a in atoms):
            foot_start = True
    rep.ob("C13-FOOT", "reader takes the length from the last 8 bytes (u64 LE) and seeks to size - 8 - length", ok and end8 and foot_start,
           detail="seeks: %s" % [fmt(s) for s in seeks], site="%s:%d" % (de.file, de.line_lo), key="C13-FOOT | length and position")
    # Part::new(offset,size) order and raw_size store are implied by _rrole


FOOTER_VAR = ["footer"]     # name of the directory buffer, discovered per run (receiver of the write_varint calls)


def _wrole(e):
    s = strip_tags(e)
    if s in (("len", ("field", ("param", "self"), "streams")), ("call", "alloc::vec::Vec::<T, A>::len", (("field", ("param", "self"), "streams"),))):
        return "nstreams"
    f = fmt(s)
    if re.search(r"len\)?\(.*\.parts\)$", f) or (isinstance(s, tuple) and s[0] == "call" and s[1].endswith("::len") and fmt(s[2][0]).endswith(".parts")):
        return "nparts"
    if isinstance(s, tuple) and s[0] == "field" and s[2] in ("raw_size", "offset", "size"):
        return s[2]
    if isinstance(s, tuple) and s[0] == "field" and s[2] == "stream_name":
        return "name"
    if s == ("var", FOOTER_VAR[0]):
        return "footer"
    if isinstance(s, tuple) and s[0] == "call" and s[1] == "core::num::<impl u64>::to_le_bytes":
        a = s[2][0]
        if a in (("len", ("var", FOOTER_VAR[0])), ("call", "alloc::vec::Vec::<T, A>::len", (("var", FOOTER_VAR[0]),))):
            return "le8(len(footer))"
    return "?" + f


def _rrole(de, ex, bi, t, loops):
    """how is the value of this read_varint used?"""
    # value = ((branch(result) as Continue).0).0 bound to a named local
    me = ex.call(t)
    roles = []
    for L in loops:
        if L["range"] and contains(L["range"][1], lambda x: x == me):
            roles.append("nstreams" if _depth_of(de, L["head"]) == 1 else "nparts")
    for b2, t2 in de.calls():
        if t2["callee"].endswith("archive::Part::new"):
            for i, a in enumerate(t2["args"]):
                if contains(ex.operand(a), lambda x: x == me):
                    roles.append(["offset", "size"][i])
    for b in de.blocks:
        for s in b["stmts"]:
            if s["k"] == "assign" and s["pl"]["p"] and isinstance(s["pl"]["p"][-1], dict) and s["pl"]["p"][-1].get("n") == "raw_size":
                if contains(ex.rvalue(s["rv"]), lambda x: x == me):
                    roles.append("raw_size")
    return "+".join(sorted(set(roles))) or "?"


def _depth_of(f, b):
    return _loop_depths(f)[b]


# ---------------------------------------------------------------- varint
def _varint(F, rep):
    w = F.funcs.get("ragc_common::varint::write_varint")
    r = F.funcs.get("ragc_common::varint::read_varint")
    if not rep.floor("C13-VAR", (1 if w else 0) + (1 if r else 0), 2, "write_varint / read_varint"):
        return
    sem = _varint_semantic(F, rep, w, r) if getattr(F, "cfg", "dev") == "dev" else None
    _varint_sinks(F, rep, w, r)
    if sem is not None:
        return        # the codec is decided (either way) for every u64 by what it computes; the shape clauses below are the fallback
    if sem is None and getattr(F, "cfg", "dev") != "dev":
        return        # other build configurations: same source, the evaluation ran on the dev facts
    _varint_shape(F, rep, w, r)


def _varint_semantic(F, rep, w, r):
    """Abstract interpretation in the 8-bit slot domain (byteslots.py): the nine classes `exactly m significant bytes`
    (m = 0..8) partition u64.  For each class the writer must emit the length byte m followed by the m value bytes, most
    significant first (the AGC v3 integer format), and the reader must return the value it was given and the number of
    bytes consumed; a length byte above 8 and every truncated encoding must be an Err, never a panic.
    Returns True (decided, all hold), False (decided, something fails) or None (undecidable construct: fall back)."""
    from byteslots import ByteInterp, BWord, slot_of, norm
    from absint import Undecidable, Panic
    bad, undec, n = [], None, 0
    try:
        work = [(m, None) for m in range(0, 9)]
        while work:
            m, lead = work.pop(0)
            v = norm(BWord.cls(m))
            want = [m] + [("b", m - 1 - i, i == 0) for i in range(m)]
            if lead is not None:
                # the class with its leading byte fixed (a comparison with a constant cut through the class)
                sl = list(BWord.cls(m).s)
                sl[8 - m] = lead
                v = norm(BWord(sl))
                want[1] = lead
            sink = []
            n += 1
            try:
                res = ByteInterp(F).call(w, [("refval", sink), v])
            except Panic as e:
                bad.append("writer panics for values of %d significant bytes (%s)" % (m, e))
                continue
            except Undecidable:
                if lead is None and m >= 1:
                    work = [(m, b) for b in range(1, 256)] + work
                    continue
                raise
            got = [slot_of(x) for x in sink]
            if got != want:
                bad.append("values of %d significant bytes%s are written as %s, the format is %s" % (m, "" if lead is None else " with leading byte 0x%02X" % lead, got, want))
            if not (isinstance(res, dict) and res.get("__var") == "Ok" and res.get("0") == len(want)):
                bad.append("writer returns %s for %d bytes written" % (res.get("0") if isinstance(res, dict) else res, len(want)))
            # the reader on the format's encoding of the class
            enc = [m] + [BWord([0] * 7 + [x]) for x in want[1:]]
            try:
                rr = ByteInterp(F).call(r, [("refval", {"__reader": list(enc), "pos": 0})])
            except Panic as e:
                bad.append("reader panics on the encoding of %d-byte values (%s)" % (m, e))
                continue
            ok = isinstance(rr, dict) and rr.get("__var") == "Ok" and isinstance(rr.get("0"), dict) and norm(rr["0"].get(0)) == v and rr["0"].get(1) == len(want)
            if not ok:
                bad.append("reader returns %s for the encoding of %s" % (rr.get("0") if isinstance(rr, dict) else rr, v))
            # every truncation of a valid encoding is an error
            for cut in range(0, len(enc)):
                n += 1
                try:
                    rt = ByteInterp(F).call(r, [("refval", {"__reader": list(enc[:cut]), "pos": 0})])
                    if not (isinstance(rt, dict) and rt.get("__var") == "Err"):
                        bad.append("reader accepts the first %d of %d bytes of an encoding" % (cut, len(enc)))
                except Panic as e:
                    bad.append("reader panics on a truncated encoding (%d of %d bytes: %s)" % (cut, len(enc), e))
        for cb in range(9, 256):
            n += 1
            try:
                rt = ByteInterp(F).call(r, [("refval", {"__reader": [cb] + [BWord([0] * 7 + [("b", i, False)]) for i in range(cb)], "pos": 0})])
                if not (isinstance(rt, dict) and rt.get("__var") == "Err"):
                    bad.append("reader accepts the length byte %d" % cb)
            except Panic as e:
                bad.append("reader panics on the length byte %d (%s)" % (cb, e))
    except Undecidable as e:
        undec = str(e)
    if undec is not None:
        rep.note("varint codec: slot-domain evaluation not possible (%s); deciding the shape clauses instead" % undec)
        return None
    rep.ob("C13-VAR", "integer codec, for EVERY u64 (nine classes by number of significant bytes, symbolic bytes): the writer emits the length byte and the value "
           "bytes most significant first, the reader returns the same value and length; a length byte > 8 and every truncated encoding is an Err, not a panic",
           not bad, detail=("%d abstract evaluations in the 8-bit slot domain" % n) if not bad else "; ".join(bad[:4]),
           site="%s:%d" % (w.file, w.line_lo), key="C13-VAR | codec in the byte-slot domain")
    rep.stat("varint_abstract_evaluations", n)
    return not bad


def _varint_shape(F, rep, w, r):
    exw, exr = Exprs(w), Exprs(r)
    SELF = ("self",)
    uw = local_updates(w, exw)
    # count variable: incremented by one in the loop that shifts a copy of the value right by 8
    cnt_vars = {nm for nm, bi, e, er in uw if er == ("bin", "Add", ("const", 1), SELF)}
    shr_vars = {nm for nm, bi, e, er in uw if er == ("bin", "Shr", SELF, ("const", 8))}
    g = cfg_of(w)
    cnt = False
    cvar = None
    for h, body in g.loops():
        incs = {nm for nm, bi, e, er in uw if bi in body and er == ("bin", "Add", ("const", 1), SELF)}
        shrs = {nm for nm, bi, e, er in uw if bi in body and er == ("bin", "Shr", SELF, ("const", 8))}
        if len(incs) == 1 and len(shrs) == 1:
            cnt = True
            cvar = next(iter(incs))
    rep.ob("C13-VAR", "writer count = number of significant bytes (count += 1; tmp >>= 8 until zero)", cnt, detail="count variable %s" % cvar, key="C13-VAR | writer count loop")
    loops = for_loops(w, exw)
    revs = [L for L in loops if contains(L["source"], lambda x: isinstance(x, tuple) and x[0] == "call" and re.search(r"Iterator>?::rev$", x[1]))]
    ok_rev = False
    for L in revs:
        rng = [x for x in walk(L["source"]) if isinstance(x, tuple) and x[0] == "agg" and x[1].startswith("core::ops::range::Range")]
        if rng and dict(rng[0][2]).get("start") == ("const", 0) and dict(rng[0][2]).get("end") == ("var", cvar):
            ok_rev = True
    rep.ob("C13-VAR", "writer emits value bytes for i = count-1 down to 0 (most significant first)", ok_rev, site="%s:%d" % (w.file, w.line_lo), key="C13-VAR | writer order")
    byte_ok = count_ok = zero_ok = False
    for bi, t in w.calls():
        if t["callee"].endswith("::write_all"):
            a = exw.operand(t["args"][1])
            s = repr(a)
            if "'Shr'" in s and "'BitAnd'" in s and "('const', 255)" in s and "('const', 8)" in s and "'Mul'" in s and "('param', " in s:
                byte_ok = True
            if a == ("agg", "array", (("0", ("var", cvar)),)):
                count_ok = True
            if a == ("bytes", (0,)) or a == ("agg", "array", (("0", ("const", 0)),)):
                conds = [(erase_vars(c[0]), cond_bool(c[1], c[2])) for c in dominating_conds(w, bi, exw)]
                zero_ok = (("bin", "Eq", ("const", 0), ("var", "$")), True) in conds
    rep.ob("C13-VAR", "writer byte i is (value >> (i*8)) & 0xff", byte_ok, site="%s:%d" % (w.file, w.line_lo), key="C13-VAR | writer byte")
    rep.ob("C13-VAR", "writer emits the byte count first", count_ok, key="C13-VAR | writer count byte")
    rep.ob("C13-VAR", "writer encodes zero as the single byte 0", zero_ok, key="C13-VAR | writer zero")
    # reader
    loops = for_loops(r, exr)
    rl = [L for L in loops if L["range"] and L["range"][0] == ("const", 0)]
    end = rl[0]["range"][1] if rl else None
    first_byte = isinstance(end, tuple) and (end[0] == "index" or (end[0] == "var")) and "buf" in fmt(end) or (isinstance(end, tuple) and end[0] == "index")
    # the loop bound must be the byte read first: an index into the one-byte buffer filled by the first read_exact
    rep.ob("C13-VAR", "reader reads exactly `count` value bytes", bool(rl) and bool(first_byte), detail="loop range: %s" % (rl and fmt(rl[0]["range"][1])),
           site="%s:%d" % (r.file, r.line_lo), key="C13-VAR | reader loop bound")
    ur = local_updates(r, exr)
    acc = False
    if rl:
        shl = {nm for nm, bi, e, er in ur if bi in rl[0]["body"] and er == ("bin", "Shl", SELF, ("const", 8))}
        add = {nm for nm, bi, e, er in ur if bi in rl[0]["body"] and isinstance(er, tuple) and er[0] == "bin" and er[1] in ("Add", "BitOr") and SELF in (er[2], er[3])}
        acc = bool(shl & add)
    rep.ob("C13-VAR", "reader accumulates big-endian: value = (value << 8) + byte", acc, key="C13-VAR | reader accumulate")
    zero_r = False
    for bi, b in enumerate(r.blocks):
        for s in b["stmts"]:
            if s["k"] == "assign" and s["pl"]["l"] == 0 and not s["pl"]["p"]:
                e = exr.rvalue(s["rv"])
                if "Result::Ok" in repr(e) and "('0', ('const', 0))" in repr(e):
                    conds = [(fmt(c[0]), cond_bool(c[1], c[2])) for c in dominating_conds(r, bi, exr)]
                    zero_r = any(k[1] is True and k[0].startswith("Eq(") and "0" in k[0] for k in conds)
    rep.ob("C13-VAR", "reader decodes the single byte 0 as zero", zero_r, key="C13-VAR | reader zero")


def _varint_sinks(F, rep, w, r):
    # every bounded sink handed to the writer holds the longest encoding (1 count byte + 8 value bytes)
    nsink = 0
    for f in F.funcs.values():
        if f.kind == "promoted":
            continue
        exf = None
        for bi, t in f.calls():
            if t.get("indirect") or t["callee"] != w.key:
                continue
            nsink += 1
            wty = (t.get("gargs") or ["?"])[0]
            if not re.search(r"\[u8(; \d+)?\]", wty):
                continue        # growable or stream writer (Vec, File, BufWriter, generic W): no capacity to run out of
            exf = exf or Exprs(f)
            names = {v: k for k, v in f.local_names().items()}
            caps = []
            for x in walk(exf.operand(t["args"][0])):
                if isinstance(x, tuple) and x[0] == "var" and x[1] in names:
                    m = re.match(r"^\[u8; (\d+)\]$", f.locals[names[x[1]]]["ty"])
                    if m:
                        caps.append(int(m.group(1)))
            rep.ob("C13-VAR", "fixed-size sink passed to write_varint in %s holds the 9 bytes of the longest encoding" % f.key.rsplit("::", 1)[-1],
                   bool(caps) and min(caps) >= 9, detail="writer type %s, capacity %s" % (wty, caps or "unknown"), site=site_of(f, t),
                   key="C13-VAR | %s | sink capacity" % f.key)
    rep.floor("C13-VAR", nsink, 6, "write_varint call sites")
    sig = r.d.get("sig", "") + w.d.get("sig", "")
    rep.ob("C13-VAR", "both sides use u64", "u64" in w.d.get("sig", "") and "(u64, usize)" in r.d.get("sig", ""), how="trivial", key="C13-VAR | u64")


def _count_bounds(F, rep):
    """A reader may refuse a count that cannot fit in what is left of the directory, but only with the right divisor:
    `count > remaining / c` (or `count * c > remaining`) in front of a loop that runs `count` times is sound iff every
    iteration consumes at least c bytes.  The minimum is computed from the loop body: each integer read takes >= 1 byte
    (the value 0 is the single byte 0 - C13-VAR), each read_exact(n) takes n.  A larger c rejects directories the
    writer produces (e.g. streams of empty parts)."""
    d = F.funcs.get(ARCH + "deserialize")
    if d is None:
        return
    ex = Exprs(d)
    g = cfg_of(d)
    loops = for_loops(d, ex)
    n = 0
    for bi, b in enumerate(d.blocks):
        t = b["term"]
        if t["k"] != "switch" or b["cleanup"]:
            continue
        ce = strip_tags(ex.operand(t["discr"]))
        # Lt(Div(R, c), N)  i.e.  N > R / c      or  Lt(R, Mul(N, c))
        m = None
        if isinstance(ce, tuple) and ce[0] == "bin" and ce[1] in ("Lt", "Le"):
            a, bb = ce[2], ce[3]
            if isinstance(a, tuple) and a[0] == "bin" and a[1] == "Div" and a[3][0] == "const":
                m = (bb, a[3][1], a[2])
            elif isinstance(bb, tuple) and bb[0] == "bin" and bb[1] == "Mul" and ("const" in (bb[2][0], bb[3][0])):
                c = bb[2][1] if bb[2][0] == "const" else bb[3][1]
                cnt = bb[3] if bb[2][0] == "const" else bb[2]
                m = (cnt, c, a)
        if m is None:
            continue
        cnt, c, rem = m
        if not contains(cnt, lambda x: isinstance(x, tuple) and x[0] == "call" and x[1].endswith("varint::read_varint")):
            continue
        # the loop whose trip count is that value
        L = [l for l in loops if l.get("range") and strip_tags(l["range"][1]) == cnt or (l.get("range") and fmt(strip_tags(l["range"][1])) == fmt(cnt))]
        if not L:
            continue
        L = L[0]
        per_iter = 0
        tails = [x for x in L["body"] if L["head"] in g.succ[x]]
        for x in sorted(L["body"]):
            tx = d.blocks[x]["term"]
            if tx["k"] == "call" and not tx.get("indirect") and all(g.dominates(x, tl) for tl in tails):
                if tx["callee"].endswith("varint::read_varint"):
                    per_iter += 1
        n += 1
        rep.ob("C13-FOOT", "the reader's bound on a count from the directory (%s > remaining / %d) does not exceed what the writer produces: every entry takes at least %d byte(s)" % (fmt(cnt)[:40], c, per_iter),
               c <= per_iter, detail="divisor %d, minimum bytes per loop iteration %d (each integer read >= 1 byte: the value 0 is one byte)%s" % (
                   c, per_iter, "" if c <= per_iter else "; directories with entries shorter than %d bytes (parts of size 0 at small offsets) are rejected although the writer produced them" % c),
               site=site_of(d, t), key="C13-FOOT | deserialize | count bound divisor")
    rep.stat("count_bounds_in_directory_reader", n)
