"""C04 — archive bytes independent of threads and timing: necessary conditions D1..D6 (DESIGN 4/C04)."""
import re

from cfg import cfg_of
from expr import Exprs, fmt, walk, contains, strip_tags
from mirutil import is_call, for_loops, dominating_conds, cond_bool, LockInfo, lock_identity
from framework import site_of
import callgraph as cgmod
import pipeline

EXPLANATION = (
    "Schedule-independent necessary conditions of determinism over the code reachable from the streaming "
    "compressor API, the worker and the splitter functions: (D1) no order-sensitive use of an unordered container "
    "(every iteration over a Hash*/DashMap value must end in an order-insensitive sink - collection into a "
    "set/map, count/sum/min/max/any/all, or a Vec that is sorted before any other use) and no thread id, clock, "
    "RandomState or address flows into data; (D2) the containers whose order reaches the file have ordered types; "
    "(D3) the sorts that fix the order are there and dominate their consumers (raw segments before "
    "classification, buffer.segments before the reference pick in every pack builder, results by group id, "
    "partial packs by stream id); (D4) group ids, raw-group ids and stream registrations are produced only in "
    "single-threaded contexts - worker-0-only barrier phases, finalize after all joins, the constructor - where a "
    "site in a parallel context is accepted only if it lies in a loop over a container that no reachable code "
    "ever fills (dead loop, recomputed on every run); (D5) the work-stealing claim is one atomic "
    "read-modify-write; (D6) a synchronisation token must sort after every contig queued before it and before "
    "every contig queued after it under ContigTask's order; (D10) a thread_local in the compression path is the ZSTD "
    "context or a buffer whose earlier content cannot reach the bytes produced: the segment-compression layer is interpreted "
    "from a fresh and from used buffers and must give the same bytes.")
UNDECIDED = ("that ZSTD output is a function of its input only; that rayon's indexed collect preserves order (library "
             "contracts); that no two coexisting items compare equal under the Ord impls used by the sorts")

HASHTY = re.compile(r"(std::collections::hash|hashbrown|ahash::hash_|dashmap::)")
ORDERED = re.compile(r"alloc::collections::btree|alloc::vec::Vec<")
ITER = re.compile(r"::(iter|into_iter|keys|values|drain|retain|iter_mut|values_mut|into_keys|into_values|par_iter|into_par_iter|par_drain)$")
ADAPT = re.compile(r"Iterator>?::(map|filter|cloned|copied|filter_map|flat_map|inspect|chain|zip|flatten|by_ref|peekable|skip_while|take_while|map_while)$")
INSENS = re.compile(r"Iterator>?::(count|sum|min|max|min_by_key|max_by_key|min_by|max_by|any|all|product)$|::(len|is_empty|contains|contains_key|get)$")
SENS = re.compile(r"Iterator>?::(next|last|nth|find|position|fold|for_each|try_fold|enumerate|take|skip|rev|step_by|reduce)$")
SORT = re.compile(r"::(sort|sort_unstable|sort_by|sort_by_key|sort_unstable_by|sort_unstable_by_key|sort_by_cached_key|radix_sort_unstable|par_sort\w*)$")
NONDET = re.compile(r"std::thread::(current|ThreadId)|std::time::(SystemTime|Instant)::now|RandomState::new|std::process::id|rand::")


def scope(F, G):
    roots = [k for k, f in F.funcs.items() if k.startswith(pipeline.SQC) and f.is_pub()] + [pipeline.CORE + "worker_thread"]
    roots += [k for k, f in F.funcs.items() if re.match(r"ragc_core::splitters::\w+$", k) and f.is_pub()]
    roots += [k for k, f in F.funcs.items() if k.startswith("ragc_common::archive::Archive::") and f.is_pub()]
    roots = [r for r in roots if r in F.funcs]
    return {k for k in G.reachable(roots) if "legacy" not in k and F.funcs[k].crate in ("ragc_core", "ragc_common")}


def run(F, rep):
    rep.explanation = EXPLANATION
    rep.undecided = UNDECIDED
    rep.assumptions = ["BTreeMap/BTreeSet iterate in key order, Vec keeps insertion order, slice::sort is deterministic",
                       "rayon indexed collect preserves order; ZSTD is deterministic",
                       "phase structure of the worker derived from its barrier waits (pipeline.py); one producer thread"]
    G = cgmod.CallGraph(F)
    reach = scope(F, G)
    rep.stat("bodies_in_scope", len(reach))
    WP = pipeline.WorkerPhases(F)
    ctxs, site_ctx = pipeline.contexts(F, G, WP)

    # ------------------------------------------------------------ D1
    nhash_locals = 0
    nsites = 0
    for k in sorted(reach):
        f = F.funcs[k]
        nhash_locals += sum(1 for l in f.locals if HASHTY.search(l["ty"]) and not l["ty"].startswith("&"))
        ex = None
        for bi, t in f.calls():
            if t.get("indirect") or (t["sp"].get("exp") and not str(t["sp"].get("mac", "")).startswith("Desugaring")):
                continue          # macro plumbing (eprintln!, format!) is skipped; `for` / `?` desugarings are the program
            c = t["callee"]
            recv = t["args"][0].get("pl", {}).get("ty", "") if t["args"] else ""
            if ITER.search(c) and (HASHTY.search(recv) or HASHTY.search(t.get("callee_disp", "").rsplit("::", 1)[0])):
                nsites += 1
                ex = ex or Exprs(f)
                verdict, why = classify_iteration(F, f, ex, bi, t)
                rep.ob("C04-D1", "iteration over an unordered container in %s ends in an order-insensitive sink" % k.split("::", 1)[-1], verdict,
                       detail="%s (%s)" % (why, c.rsplit("::", 2)[-2] + "::" + c.rsplit("::", 1)[-1]), site=site_of(f, t), key="C04-D1 | %s | %s" % (k, c.rsplit("::", 1)[-1]))
            if NONDET.search(c) and not c.endswith("Instant::now"):
                rep.ob("C04-D1", "no thread id / wall clock / random state in %s" % k.split("::", 1)[-1], False, detail=c, site=site_of(f, t),
                       key="C04-D1 | %s | nondeterministic source %s" % (k, c.rsplit("::", 1)[-1]))
    rep.stat("hash_container_locals_in_scope", nhash_locals)
    rep.stat("hash_iteration_sites", nsites)
    rep.floor("C04-D1", nhash_locals, 8, "hash-container locals in the pipeline (lookups and set-to-set flows)")
    rep.ob("C04-D1", "every iteration over an unordered container in %d bodies is order-insensitive (%d iteration sites)" % (len(reach), nsites),
           all(o["ok"] for o in rep.obligations if o["rule"] == "C04-D1"), key="C04-D1 | summary")
    # Instant values must not flow into data: only elapsed()/duration arithmetic and printing
    for k in sorted(reach):
        f = F.funcs[k]
        for bi, t in f.calls():
            if not t.get("indirect") and t["callee"].endswith("Instant::now") and not t["dest"]["p"]:
                l = t["dest"]["l"]
                bad = []
                for b2, t2 in f.calls():
                    if any(a.get("pl", {}).get("l") == l for a in t2["args"]) and not re.search(r"Instant::(elapsed|duration_since)$|Deref|clone", t2["callee"]):
                        bad.append(t2["callee"])
                if bad:
                    rep.ob("C04-D1", "clock value in %s is used only for timing output" % k.split("::", 1)[-1], False, detail=str(bad), site=site_of(f, t),
                           key="C04-D1 | %s | clock flows to %s" % (k, bad[0].rsplit("::", 1)[-1]))

    # ------------------------------------------------------------ D2
    want = [("ragc_common::archive::Archive", "write_buffer"), (pipeline.CORE + "ParallelWriteBuffer", "streams"),
            (pipeline.CORE + "StreamingQueueCompressor", "map_segments"), (pipeline.CORE + "StreamingQueueCompressor", "map_segments_terminators"),
            (pipeline.CORE + "StreamingQueueCompressor", "segment_groups"), (pipeline.CORE + "StreamingQueueCompressor", "reference_segments"),
            (pipeline.CORE + "StreamingQueueCompressor", "split_offsets"), (pipeline.CORE + "StreamingQueueCompressor", "sample_priorities"),
            (pipeline.CORE + "StreamingQueueCompressor", "batch_local_groups"), (pipeline.CORE + "StreamingQueueCompressor", "batch_local_terminators"),
            (pipeline.CORE + "StreamingQueueCompressor", "map_fallback_minimizers"), (pipeline.CORE + "BufferedSegPart", "s_seg_part"),
            (pipeline.CORE + "BufferedSegPart", "vl_seg_part"), (pipeline.CORE + "BatchState", "new_segments"),
            (pipeline.CORE + "ParallelFlushState", "buffers"), (pipeline.CORE + "ParallelFlushState", "results")]
    nord = 0
    for adt, fld in want:
        a = F.adts.get(adt)
        ty = None
        if a:
            for x in a["variants"][0]["fields"]:
                if x["name"] == fld:
                    ty = x["ty"]
        if ty is None:
            continue
        nord += 1
        rep.ob("C04-D2", "%s.%s is an ordered container" % (adt.rsplit("::", 1)[-1], fld), bool(ORDERED.search(ty)) and not HASHTY.search(ty), detail=ty, how="trivial",
               key="C04-D2 | %s.%s" % (adt, fld))
    rep.floor("C04-D2", nord, 14, "containers whose order reaches the file")

    # ------------------------------------------------------------ D3
    # pack builders: remove(0) of segments dominated by sort of the same vector
    nb = 0
    for k in sorted(reach):
        f = F.funcs[k]
        ex = None
        g = None
        for bi, t in f.calls():
            if t.get("indirect") or not t["callee"].endswith("Vec::<T, A>::remove"):
                continue
            ex = ex or Exprs(f)
            recv = strip_tags(ex.operand(t["args"][0]))
            if not fmt(recv).endswith("segments") or ex.operand(t["args"][1]) != ("const", 0):
                continue
            nb += 1
            g = g or cfg_of(f)
            sorts = [b2 for b2, t2 in f.calls() if not t2.get("indirect") and SORT.search(t2["callee"]) and strip_tags(ex.operand(t2["args"][0])) == recv]
            ok = any(g.dominates(s, bi) for s in sorts)
            rep.ob("C04-D3", "reference pick in %s is preceded by a sort of the group's segments" % k.split("::", 1)[-1], ok, site=site_of(f, t),
                   key="C04-D3 | %s | sort before reference pick" % k)
    rep.floor("C04-D3", nb, 2, "reference picks (segments.remove(0)) in pack builders")
    cl = F.funcs.get(pipeline.CORE + "classify_raw_segments_at_barrier")
    if rep.floor("C04-D3", 1 if cl else 0, 1, "classify_raw_segments_at_barrier"):
        ex = Exprs(cl)
        g = cfg_of(cl)
        # What is gathered from the per-worker buffers arrives in schedule order.  Before anything is classified the
        # whole collection must pass through a sort, outside any loop, whose order is total on the (sample, contig)
        # key: a plain sort() on the elements, or a comparator that compares a whole tuple / chains comparisons.
        RAW = "RawBufferedSegment"
        loops = g.loops()
        depth = lambda b: sum(1 for h, body in loops if b in body)
        gathers = [bi for bi, t in cl.calls() if not t.get("indirect") and re.search(r"Vec::<T, A>::(append|extend\w*)$|Extend<.*>::extend$", t["callee"])
                   and t["args"] and t["args"][0]["k"] in ("copy", "move") and RAW in cl.locals[t["args"][0]["pl"]["l"]]["ty"]]
        total, partial = [], []
        for bi, t in cl.calls():
            if t.get("indirect") or not SORT.search(t["callee"]) or not t["args"] or t["args"][0]["k"] not in ("copy", "move"):
                continue
            if RAW not in cl.locals[t["args"][0]["pl"]["l"]]["ty"] or depth(bi) > 0:
                continue
            is_total = True
            why = "sort() by the elements' own order"
            for a in t["args"][1:]:
                ck = cl.locals[a["pl"]["l"]].get("closure") if a["k"] in ("copy", "move") else None
                if ck and ck in F.funcs:
                    cmps = [t2["callee"] for _, t2 in F.funcs[ck].calls() if not t2.get("indirect") and re.search(r"::(cmp|partial_cmp|then|then_with)$", t2["callee"])]
                    whole = [c for c in cmps if re.search(r"for \(|%s" % RAW, c)]
                    ret = F.funcs[ck].locals[0]["ty"]
                    if t["callee"].endswith("_by_key") or t["callee"].endswith("by_cached_key"):
                        is_total = ret.startswith("(") and "," in ret
                        why = "key type %s" % ret
                    else:
                        is_total = bool(whole) or len(cmps) >= 2
                        why = "comparator calls %s" % [c.rsplit("for ", 1)[-1][:40] for c in cmps]
            (total if is_total else partial).append((bi, t, why))
        ok = False
        for sb, st, why in total:
            if not any(gb in g.reachable_from(sb) and gb != sb for gb in gathers):
                ok = True
        rep.ob("C04-D3", "raw segments gathered from the per-worker buffers pass through one total sort (outside any loop, after the last gather) before they are classified", ok and bool(gathers),
               detail="gathers: %d; total sorts: %s; partial-order sorts: %s" % (len(gathers), [w for _, _, w in total], [w for _, _, w in partial]),
               site=site_of(cl, (partial or total)[0][1]) if (partial or total) else "%s:%d" % (cl.file, cl.line_lo), key="C04-D3 | classify | sort before classification")
    drs = F.funcs.get(pipeline.CORE + "ParallelFlushState::drain_results_sorted")
    if rep.floor("C04-D3", 1 if drs else 0, 1, "drain_results_sorted"):
        ex = Exprs(drs)
        sorts = [t for _, t in drs.calls() if not t.get("indirect") and SORT.search(t["callee"])]
        keyed = False
        for c in F.closures_of(drs.key):
            exc = Exprs(c)
            for b in c.blocks:
                for s in b["stmts"]:
                    if s["k"] == "assign" and s["pl"]["l"] == 0 and fmt(exc.rvalue(s["rv"])).endswith("group_id"):
                        keyed = True
        rep.ob("C04-D3", "compression results are returned sorted by group id", bool(sorts) and keyed, site="%s:%d" % (drs.file, drs.line_lo),
               key="C04-D3 | drain_results_sorted | by group id")
    fin = F.funcs.get(pipeline.SQC + "finalize")
    if fin:
        ex = Exprs(fin)
        g = cfg_of(fin)
        sorts = [(bi, t) for bi, t in fin.calls() if not t.get("indirect") and SORT.search(t["callee"])]
        writes = [bi for bi, t in fin.calls() if not t.get("indirect") and t["callee"].endswith("Archive::add_part_buffered")]
        loops = for_loops(fin, ex)
        ok = False
        for L in loops:
            inl = [w for w in writes if w in L["body"]]
            if not inl:
                continue
            src = L["source"]
            # the iterated vector was sorted by stream id before
            for sb, st in sorts:
                v = strip_tags(ex.operand(st["args"][0]))
                if g.dominates(sb, L["head"]) and (contains(strip_tags(src), lambda x: x == v) or fmt(v) in fmt(strip_tags(src))):
                    ok = True
        rep.ob("C04-D3", "finalize sorts the partial packs (by stream id) before the write loop", ok, site="%s:%d" % (fin.file, fin.line_lo),
               key="C04-D3 | finalize | sort partial packs")
    # Ord impls used by the sorts compare identity fields (sample, contig, place): recorded as a note
    rep.note("not armed: totality of the Ord impls (RawBufferedSegment, BufferedSegment, NewSegment, PendingSegment) on item identity; "
             "two contigs with the same name in one sample compare equal (the catalogue already collapses them)")

    # ------------------------------------------------------------ D4
    excl_ok = {"F"}
    ctor_reach = G.reachable([k for k in F.funcs if re.search(r"StreamingQueueCompressor::(with_splitters\w*|new|with_full_splitter_data)$", k)])
    prod_reach = G.reachable([pipeline.SQC + n for n in ("push", "drain", "sync_and_flush", "queue_stats")])
    nid = 0
    dead_cache = {}
    for k in sorted(reach):
        f = F.funcs[k]
        ex = None
        for bi, t in f.calls():
            if t.get("indirect"):
                continue
            c = t["callee"]
            what = None
            if re.search(r"Atomic::<u32>::(fetch_add|store|fetch_sub|swap|compare_exchange)$", c):
                ex = ex or Exprs(f)
                nm = lock_identity(ex.operand(t["args"][0]))
                if nm.endswith("group_counter"):
                    what = "%s.%s" % (nm, c.rsplit("::", 1)[-1])
            elif c.endswith("Archive::register_stream"):
                what = "register_stream"
            elif c.endswith("BufferedSegPart::process_new"):
                what = "process_new"
            if what is None:
                continue
            nid += 1
            cx = site_ctx(k, bi)
            bad = set()
            for cc in cx:
                if cc == "F" or (cc.startswith("W") and cc.endswith("x")):
                    continue
                if cc == "P" and k in ctor_reach and k not in prod_reach:
                    continue
                if cc == "P" and k.startswith(pipeline.SQC) and k.rsplit("::", 1)[-1].startswith(("with_", "new")):
                    continue
                bad.add(cc)
            why = "contexts %s" % sorted(cx)
            ok = not bad
            how = "auto"
            if bad:
                ex = ex or Exprs(f)
                dead = dead_loop(F, G, reach, f, ex, bi, dead_cache)
                if not dead and f.kind == "closure" and f.parent in F.funcs:
                    # a closure built inside a loop of its parent: the argument applies at its construction site
                    pf = F.funcs[f.parent]
                    pex = Exprs(pf)
                    for (pb, ck) in G.refs.get(pf.key, ()):
                        if ck == k:
                            dead = dead or dead_loop(F, G, reach, pf, pex, pb, dead_cache)
                if dead:
                    ok = True
                    how = "auto"
                    why = "contexts %s, but the site lies in a loop over `%s`, which no reachable code ever fills (dead loop)" % (sorted(cx), dead)
                else:
                    why = "id / stream assignment can run in parallel context(s) %s: the assigned ids depend on thread timing" % sorted(bad)
            rep.ob("C04-D4", "%s in %s runs on one thread at a time" % (what, k.split("::", 1)[-1]), ok, detail=why, site=site_of(f, t), how=how,
                   key="C04-D4 | %s | %s" % (k, what))
    rep.floor("C04-D4", nid, 8, "group-id / raw-group-id / stream-registration sites")
    # parallel phases write only per-worker / per-slot state: worker's own raw buffer is indexed by worker_id
    w = WP.worker
    if w:
        ex = Exprs(w)
        for bi, t in w.calls():
            if not t.get("indirect") and re.search(r"Mutex::<T>::lock$", t["callee"]):
                e = ex.operand(t["args"][0])
                if "raw_segment_buffers" in fmt(e):
                    rep.ob("C04-D4", "the contig phase appends to the worker's own raw-segment buffer (indexed by worker_id)",
                           contains(e, lambda x: x == ("param", "worker_id")), detail=fmt(e), site=site_of(w, t), key="C04-D4 | worker | own raw buffer")

    # ------------------------------------------------------------ D9: bytes reach the file from one thread at a time
    # The order of parts in the file is the order of the calls that write them.  A function that writes to the archive
    # file (write_all / flush on the writer, directly) may therefore execute only where one thread runs: worker 0
    # between barriers, finalize after the joins, the constructor.  Buffering calls made by all workers in parallel are
    # fine exactly as long as they cannot reach such a function.
    nwr = 0
    for k in sorted(F.funcs):
        f = F.funcs[k]
        if not k.startswith("ragc_common::archive::Archive::") or f.kind == "promoted":
            continue
        wsites = [(bi, t) for bi, t in f.calls() if not t.get("indirect") and re.search(r"io::Write>::(write_all|write|flush)$|io::Write::(write_all|write|flush)$", t.get("decl", "") + "|" + t["callee"])]
        if not wsites:
            continue
        nwr += 1
        cx = ctxs.get(k, set())
        bad = sorted(c for c in cx if c.startswith("W") and c.endswith("p"))
        path = None
        if bad and WP.ok:
            # a witness: a call site of the worker in a parallel phase that reaches this function
            w = WP.worker
            for bi, t in w.calls():
                if t.get("indirect") or not (WP.phase_of_block(bi) & set(bad)):
                    continue
                pth = G.path(t["callee"], lambda z: z == k) if t["callee"] in F.funcs else None
                if pth:
                    path = "%s: %s" % (site_of(w, t), " -> ".join(x.rsplit("::", 1)[-1] for x in pth))
                    break
        rep.ob("C04-D9", "%s (writes to the archive file) runs on one thread at a time" % k.split("::", 1)[-1], not bad,
               detail="contexts %s" % sorted(cx) if not bad else "reachable from code that all workers run in parallel (%s): the order of parts in the file depends on thread timing; e.g. %s" % (bad, path),
               site=site_of(f, wsites[0][1]), key="C04-D9 | %s | single-threaded file writes" % k)
    rep.floor("C04-D9", nwr, 2, "Archive functions that write to the file (add_part, serialize/close)")

    # ------------------------------------------------------------ D5
    for name in ("ParallelFlushState::claim_next_idx", "BufferedSegPart::get_vec_id"):
        f = F.funcs.get(pipeline.CORE + name)
        if not f:
            continue
        ats = [t["callee"].rsplit("::", 1)[-1] for _, t in f.calls() if not t.get("indirect") and "Atomic::<" in t["callee"]]
        rep.ob("C04-D5", "%s claims an index with a single atomic read-modify-write" % name, len(ats) == 1 and ats[0] in ("fetch_sub", "fetch_add"),
               detail="atomic operations: %s" % ats, site="%s:%d" % (f.file, f.line_lo), key="C04-D5 | %s" % name)

    # ------------------------------------------------------------ D7: the producer waits for the *tokens* of a round
    # sync tokens are queued with size 0 (C05-T1), so a wait for "the round was taken" must look at the item count
    nw = 0
    for k in sorted(reach):
        f = F.funcs[k]
        if not k.startswith(pipeline.SQC):
            continue
        g = cfg_of(f)
        ex = None
        for h, body in g.loops():
            if not any(is_call(f.blocks[b]["term"], r"std::thread::(functions::)?sleep$") for b in body):
                continue
            ex = ex or Exprs(f)
            exits = [b for b in body if f.blocks[b]["term"]["k"] == "switch" and any(s not in body for s in g.succ[b])]
            for b in exits:
                e = strip_tags(ex.operand(f.blocks[b]["term"]["discr"]))
                obs = [x[1].rsplit("::", 1)[-1] for x in walk(e) if isinstance(x, tuple) and x[0] == "call" and "memory_bounded_queue::MemoryBoundedQueue" in x[1]]
                if not obs:
                    continue
                nw += 1
                # an observer is blind to tokens iff what it returns is (derived from) the byte counter of the queue
                import rules.c06 as c06q
                Rq = c06q.discover(F)
                blind = []
                for o in obs:
                    of = F.funcs.get("ragc_core::memory_bounded_queue::MemoryBoundedQueue::<T>::" + o)
                    if of is None or Rq is None:
                        if o not in ("len", "is_empty"):
                            blind.append(o)
                        continue
                    exo = Exprs(of)
                    rets = []
                    for ob_ in of.blocks:
                        for s_ in ob_["stmts"]:
                            if s_["k"] == "assign" and s_["pl"]["l"] == 0 and not s_["pl"]["p"]:
                                rets.append(exo.rvalue(s_["rv"]))
                        t_ = ob_["term"]
                        if t_["k"] == "call" and t_["dest"]["l"] == 0 and not t_["dest"]["p"]:
                            rets.append(exo.call(t_))
                    if any(contains(r_, lambda x: isinstance(x, tuple) and x[0] == "field" and x[2] == Rq["size"]) for r_ in rets):
                        blind.append(o)
                rep.ob("C04-D7", "%s waits on a count of items, not of bytes (tokens have size 0, so the byte counter cannot see them)" % k.rsplit("::", 1)[-1],
                       not blind, detail="wait condition %s%s" % (fmt(e), "; %s() returns the byte counter" % blind[0] if blind else ""), site=site_of(f, f.blocks[b]["term"]),
                       key="C04-D7 | %s | wait observes item count" % k)
    rep.floor("C04-D7", nw, 2, "producer-side wait loops (drain, sync_and_flush)")

    # ------------------------------------------------------------ D8: per-thread compressor state carries no parameter from one call to the next
    # Compression contexts are thread-local and reused.  Which worker compresses which part depends on the schedule,
    # so nothing that shapes the output may survive in the context: every compression names its level itself
    # (compress(.., level)), or sets it unconditionally right before a parameter-less call (compress2 / end_stream).
    nz = 0
    for k, f in F.funcs.items():
        if not re.search(r"^ragc_core::(zstd_pool|segment_compression)::", k) or f.kind == "promoted":
            continue
        exz = None
        gz = None
        root = F.funcs.get(k.split("::{closure", 1)[0], f)
        for bi, t in f.calls():
            if t.get("indirect") or t["sp"].get("exp"):
                continue
            c = t["callee"]
            if not re.search(r"zstd(_safe)?::.*(compress\w*|encode_all|Encoder::.*new\w*)$", c) or c.endswith("compress_bound") or re.search(r"::decompress\w*$", c):
                continue
            exz = exz or Exprs(f)
            gz = gz or cfg_of(f)
            nz += 1
            args = [exz.operand(a) for a in t["args"]]
            names_lvl = any(contains(a, lambda x: isinstance(x, tuple) and x[0] in ("param", "upvar") and "level" in str(x[1])) for a in args)
            ok, why = names_lvl, "the level is an argument of the call"
            if not names_lvl:
                sets = [b2 for b2, t2 in f.calls() if not t2.get("indirect") and t2["callee"].endswith("::set_parameter") and gz.dominates(b2, bi)
                        and contains(exz.operand(t2["args"][1]), lambda x: isinstance(x, tuple) and x[0] in ("param", "upvar") and "level" in str(x[1]))]
                ok = bool(sets)
                why = "no level argument; %s" % ("level set unconditionally before the call" if ok else "the level in effect is whatever the thread's context was configured with earlier")
            rep.ob("C04-D8", "compression in %s names its own level (nothing sticky in the per-thread context)" % k.split("::", 1)[-1], ok, detail="%s: %s" % (c.rsplit("::", 1)[-1], why),
                   site=site_of(f, t), key="C04-D8 | %s | %s" % (k, c.rsplit("::", 1)[-1]))
    rep.floor("C04-D8", nz, 1, "zstd compression calls in the pooled compressor")

    # ------------------------------------------------------------ D10: per-thread state other than the compression context
    # Which work items a thread handles, and in which order, is the schedule.  A thread_local buffer may be reused only if
    # nothing a previous item left in it can reach the bytes handed on.  Decided by evaluation of the segment-compression
    # layer: the same segment, compressed once with a clean and once with a used buffer, must give the same bytes.
    import layerint
    from rules import c12
    keys = layerint.tls_keys(F)
    ntls = 0
    for k, f in sorted(F.funcs.items()):
        root = k.split("::{closure", 1)[0]
        if root not in reach and k not in reach:
            continue
        for bi, t in f.calls():
            if t.get("indirect") or not re.search(r"thread::local::LocalKey::<[^>]*(<[^>]*>)?>::\w+$", t["callee"]):
                continue
            ntls += 1
            key = layerint.tls_key_of_operand(F, f, t["args"][0]) if t["args"] else None
            payload = keys.get(key, "?")
            inst = "thread-local %s (%s) used by %s" % ((key or "?").rsplit("::", 1)[-1], payload, k.split("::", 1)[-1])
            okey = "C04-D10 | %s | %s" % (k, key)
            if key is None:
                rep.ob("C04-D10", inst + ": the key is resolved", False, site=site_of(f, t), key=okey)
                continue
            if re.search(r"zstd(_safe)?::[CD]Ctx\b", payload):
                rep.ob("C04-D10", inst + " is a compression context (what survives in it is decided by D8)", True, how="trivial", site=site_of(f, t), key=okey)
                continue
            if getattr(F, "cfg", "dev") != "dev":
                continue
            clean, undec, used = c12.layer_eval(F, tls_init={key: []})
            diffs = []
            for dirty in ([0xAA] * 40, [0x55] * 2, [0x11] * 5):
                if undec:
                    break
                res2, undec, used2 = c12.layer_eval(F, tls_init={key: dirty})
                used |= used2
                for x, (m, b, u) in res2.items():
                    if (m, b) != clean[x][:2]:
                        diffs.append("%s compresses to %s after a fresh buffer and to %s after a buffer holding %d x 0x%02X" % (list(x), clean[x][1], b, len(dirty), dirty[0]))
            ok = undec is None and not diffs and key in used
            rep.ob("C04-D10", inst + ": the bytes produced do not depend on what an earlier work item of the same thread left in it", ok,
                   detail=("undecidable construct: %s" % undec) if undec else (diffs[0] + " (%d differences)" % len(diffs) if diffs else
                           ("%d segments evaluated with 4 initial buffer states" % len(clean) if key in used else "the layer evaluation never reaches this thread-local: not decided")),
                   site=site_of(f, t), key=okey)
    rep.floor("C04-D10", ntls, 1, "uses of thread_local keys in the compression path (the ZSTD compression context)")

    # ------------------------------------------------------------ D11: synchronisation rounds start at points the input determines
    # Which contigs share a round decides group ids and in-group order.  A round is started by queueing tokens (or by calling
    # something that does); no condition on the way to such a start may look at what the workers have done so far: the
    # state of the queue (any observer of MemoryBoundedQueue), an atomic the workers update, a clock.
    from rules import c05 as c05m
    _w11 = F.funcs.get(pipeline.CORE + "worker_thread")
    _tag11 = c05m.token_tag_fields(F, _w11) if _w11 else None
    tag11 = sorted(_tag11[0])[0] if _tag11 and len(_tag11[0]) == 1 else "is_sync_token"
    QN = "ragc_core::memory_bounded_queue::MemoryBoundedQueue::<T>::"
    starters = set()          # functions that queue tokens themselves
    start_sites = []          # (function, block, what)
    for k, f in F.funcs.items():
        if f.crate not in ("ragc_core", "ragc") or "legacy" in k:
            continue
        exs = None
        for bi, t in f.calls():
            if t.get("indirect") or not t["callee"].startswith(QN) or not re.search(r"::push\w*$", t["callee"]) or len(t["args"]) < 2:
                continue
            exs = exs or Exprs(f)
            item = exs.operand(t["args"][1])
            if isinstance(item, tuple) and item[0] == "var":
                from mirutil import _single_source
                item = _single_source(f, exs, item[1])
            if isinstance(item, tuple) and item[0] == "agg" and dict(item[2]).get(tag11) == ("const", 1):
                starters.add(k)
                start_sites.append((f, bi, "tokens queued"))
    reach_start = {k for k, v in G.transitive(lambda k: k in starters).items() if v} | starters
    for k, f in F.funcs.items():
        if f.crate not in ("ragc_core", "ragc") or "legacy" in k or f.d.get("test"):
            continue
        if k not in reach and not k.startswith("ragc::"):
            continue
        for bi, t in f.calls():
            if not t.get("indirect") and t["callee"] in reach_start and t["callee"] != k and t["callee"].startswith(pipeline.SQC) and k not in starters:
                start_sites.append((f, bi, "call of %s" % t["callee"].rsplit("::", 1)[-1]))
            elif not t.get("indirect") and t["callee"] in starters and t["callee"] != k:
                start_sites.append((f, bi, "call of %s" % t["callee"].rsplit("::", 1)[-1]))
    SCHED = re.compile(r"memory_bounded_queue::MemoryBoundedQueue::<T>::(?!push\b|new\b|clone\b)\w+$|sync::atomic::Atomic\w+::(load|fetch_\w+|swap|compare_exchange\w*)$|time::Instant::(now|elapsed)$|thread::current$|available_parallelism$")
    n11 = 0
    seen11 = set()
    for f, bi, what in start_sites:
        if (f.key, bi) in seen11:
            continue
        seen11.add((f.key, bi))
        n11 += 1
        ex11 = Exprs(f)
        bad = []
        for c in dominating_conds(f, bi, ex11):
            for x in walk(strip_tags(c[0])):
                if isinstance(x, tuple) and x[0] == "call" and SCHED.search(x[1]):
                    bad.append(x[1].split("::", 2)[-1][-50:])
        rep.ob("C04-D11", "round start in %s (%s) depends only on the input seen so far" % (f.key.split("::", 1)[-1], what), not bad,
               detail=("a condition on the way reads %s: how far the workers have got decides where the round boundary falls" % sorted(set(bad))) if bad else "no queue observer, atomic or clock in the dominating conditions",
               site=site_of(f, f.blocks[bi]["term"]), key="C04-D11 | %s | %s" % (f.key, what))
    rep.floor("C04-D11", n11, 4, "places where a synchronisation round is started")

    # ------------------------------------------------------------ D6
    ntok = 0
    # the field that marks a token is the one the worker's token test reads (found in the worker, not by its name)
    from rules import c05
    _w = F.funcs.get(pipeline.CORE + "worker_thread")
    _tag = c05.token_tag_fields(F, _w) if _w else None
    tagf = sorted(_tag[0])[0] if _tag and len(_tag[0]) == 1 else "is_sync_token"
    for k in sorted(reach):
        f = F.funcs[k]
        if not k.startswith(pipeline.SQC):
            continue
        ex = Exprs(f)
        for bi, b in enumerate(f.blocks):
            for s in b["stmts"]:
                if s["k"] == "assign" and s["rv"]["k"] == "agg" and s["rv"].get("adt", "").endswith("ContigTask"):
                    d = dict(zip(s["rv"]["fields"], [ex.operand(o) for o in s["rv"]["ops"]]))
                    if d.get(tagf) != ("const", 1):
                        continue
                    ntok += 1
                    pr = strip_tags(d.get("sample_priority"))
                    conds = [fmt(strip_tags(c[0])) for c in dominating_conds(f, bi, ex)]
                    kind = "pack boundary" if any("need_sync" in c or "pack_size" in c for c in conds) else ("sample boundary, env RAGC_SYNC_PER_SAMPLE" if any("force_sync" in c or "RAGC_SYNC" in c for c in conds) else "")
                    if kind == "pack boundary":
                        # in which input layouts can this round start?  follow the guard variables to where they are set
                        texts = list(conds)
                        for c_ in dominating_conds(f, bi, ex):
                            e_ = strip_tags(c_[0])
                            if isinstance(e_, tuple) and e_[0] == "var":
                                for l_, nm_ in f.local_names().items():
                                    if nm_ != e_[1]:
                                        continue
                                    for b2, blk2 in enumerate(f.blocks):
                                        for s2 in blk2["stmts"]:
                                            if s2["k"] == "assign" and s2["pl"]["l"] == l_ and not s2["pl"]["p"] and ex.rvalue(s2["rv"]) != ("const", 0):
                                                texts.append(fmt(strip_tags(ex.rvalue(s2["rv"]))))
                                                texts.extend(fmt(strip_tags(c2[0])) for c2 in dominating_conds(f, b2, ex))
                        kind += ", single-file mode only" if any("concatenated_genomes" in x for x in texts) else ", every input layout"
                    if pr[0] == "const":
                        ok = pr[1] <= 1_000_000
                        rep.ob("C04-D6", "sync token in %s sorts after every queued contig (constant priority far below any contig priority)" % k.split("::", 1)[-1],
                               ok, detail="priority %s; contig priorities start near i32::MAX and decrease by one per sample/pack (< 2*10^9 of them)" % pr[1],
                               site=site_of(f, s), key="C04-D6 | %s | sync-token priority = %s" % (k, pr[1]))
                    else:
                        boost = pr[0] == "bin" and pr[1] == "Add" and any(o[0] == "const" and o[1] > 0 for o in (pr[2], pr[3]))
                        desc = "priority + 1_000_000" if boost else fmt(pr)
                        rep.ob("C04-D6", "sync token in %s (%s) keeps its place between the contigs queued before and after it" % (k.split("::", 1)[-1], kind),
                               not boost, detail="token priority = %s: the boost puts the token ahead of contigs of the same priority that are already queued, so "
                               "which contigs belong to the round depends on how many the workers had pulled" % fmt(pr), site=site_of(f, s),
                               key="C04-D6 | %s | sync-token priority = %s (%s)" % (k, desc, kind))
    rep.floor("C04-D6", ntok, 4, "sync-token constructions")


# ---------------------------------------------------------------- helpers
def classify_iteration(F, f, ex, bi, t):
    """follow the iterator produced at (bi, t) to its consumer"""
    g = cfg_of(f)
    cur = t["dest"]["l"]
    curb = t["t"]
    for _ in range(12):
        use = _next_use(f, cur, curb)
        if use is None:
            return False, "iterator value is not consumed in a recognised way"
        kind, b2, t2 = use
        if kind == "loop":
            ok, why = _loop_body_insensitive(F, f, ex, b2)
            return ok, why
        c = t2["callee"]
        if ADAPT.search(c) or c.endswith("IntoIterator>::into_iter") or c.endswith("into_par_iter") or c.endswith("par_iter"):
            cur, curb = t2["dest"]["l"], t2["t"]
            continue
        if re.search(r"Iterator>?::collect$|FromIterator|ParallelIterator>?::collect$", c):
            target = t2["dest"]["ty"]
            if HASHTY.search(target) or "btree" in target:
                return True, "collected into a set/map (%s)" % target.split("<", 1)[0].rsplit("::", 1)[-1]
            if target.startswith("alloc::vec::Vec<"):
                nxt = _next_use(f, t2["dest"]["l"], t2["t"], through_ref=True)
                if nxt and nxt[0] == "call" and SORT.search(nxt[2]["callee"]):
                    return True, "collected into a Vec that is sorted before any other use"
                return False, "collected into a Vec that is used without being sorted first"
            return False, "collected into %s" % target
        if INSENS.search(c):
            return True, "order-insensitive reduction %s" % c.rsplit("::", 1)[-1]
        if re.search(r"Extend<.*>>::extend$|::extend$", c):
            tgt = t2["args"][0].get("pl", {}).get("ty", "")
            if HASHTY.search(tgt) or "btree" in tgt:
                return True, "poured into a set/map"
            return False, "extends %s in hash order" % tgt
        if SENS.search(c):
            return False, "order-sensitive consumer %s" % c.rsplit("::", 1)[-1]
        return False, "passed to %s" % c
    return False, "adaptor chain too long"


def _next_use(f, l, start, through_ref=False):
    """first use of local l reachable from block `start`: ('call', block, term) or ('loop', block, term)"""
    g = cfg_of(f)
    seen = set()
    q = [start]
    aliases = {l}
    while q:
        b = q.pop(0)
        if b is None or b in seen:
            continue
        seen.add(b)
        blk = f.blocks[b]
        for s in blk["stmts"]:
            if s["k"] == "assign" and not s["pl"]["p"]:
                rv = s["rv"]
                if rv["k"] == "use" and rv["op"]["k"] in ("move", "copy") and rv["op"]["pl"]["l"] in aliases and not rv["op"]["pl"]["p"]:
                    aliases.add(s["pl"]["l"])
                if rv["k"] in ("ref", "rawptr") and rv["pl"]["l"] in aliases and (through_ref or True):
                    aliases.add(s["pl"]["l"])
        t = blk["term"]
        if t["k"] == "call" and any(a.get("pl", {}).get("l") in aliases for a in t["args"]):
            if t.get("decl") == "core::iter::traits::iterator::Iterator::next":
                return ("loop", b, t)
            if re.search(r"Deref(Mut)?>::deref(_mut)?$", t["callee"]):
                aliases.add(t["dest"]["l"])
            else:
                return ("call", b, t)
        q.extend(g.succ[b])
    return None


ALLOWED_IN_LOOP = re.compile(r"(HashSet|HashMap|BTreeSet|BTreeMap|hash_set|hash_map|btree)[^ ]*::(insert|entry|or_insert\w*|or_default|contains\w*|get|get_mut|remove|extend)$|"
                             r"Iterator>?::next$|core::fmt|std::io::stdio|alloc::fmt::format|core::hint|Clone>?::clone$|Deref|core::cmp|core::option|core::result|"
                             r"core::num|Copy|core::ops::|drop|core::mem")


def _loop_body_insensitive(F, f, ex, next_block):
    g = cfg_of(f)
    loops = [(h, body) for h, body in g.loops() if next_block in body]
    if not loops:
        return False, "next() outside a loop"
    h, body = min(loops, key=lambda x: len(x[1]))
    bad = []
    for b in sorted(body):
        t = f.blocks[b]["term"]
        if t["k"] == "call" and not t.get("indirect") and not (t["sp"].get("exp") and not str(t["sp"].get("mac", "")).startswith("Desugaring")):
            if not ALLOWED_IN_LOOP.search(t["callee"]):
                bad.append(t["callee"].rsplit("::", 2)[-2] + "::" + t["callee"].rsplit("::", 1)[-1])
    if bad:
        return False, "for-loop over the hash container calls %s in hash order" % sorted(set(bad))[:4]
    return True, "for-loop body only updates sets/maps or counters"


FILL = re.compile(r"Vec::<T, A>::(push|extend\w*|insert|append|resize\w*)$|Extend<.*>>::extend$|BTreeMap::<K, V, A>::(insert|entry)$|BTreeSet::<T, A>::insert$")


def dead_loop(F, G, reach, f, ex, bi, cache):
    """name of a never-filled container such that the site at block bi lies in a loop over it (else None)"""
    g = cfg_of(f)
    li = None
    for L in for_loops(f, ex):
        if bi not in L["body"]:
            continue
        src = strip_tags(L["source"])
        names = []
        for x in walk(src):
            if isinstance(x, tuple) and x[0] in ("var", "param") and isinstance(x[1], str):
                names.append(x[1])
        for nm in names:
            # a guard variable stands for the lock it guards
            li = li or LockInfo(f, ex)
            cont = nm
            if nm in li.gnames:
                ids = li.lock_of_guard(li.gnames[nm])
                if ids:
                    cont = sorted(ids)[0]
            if cont not in cache:
                cache[cont] = _has_filler(F, reach, cont)
            if cache[cont] is False:
                return cont
    return None


def _has_filler(F, reach, cont):
    """does any reachable body push/insert into the container named `cont` (through its lock guard or directly)?"""
    base = cont.split(".")[-1]
    for k in reach:
        f = F.funcs[k]
        if not any(not t.get("indirect") and FILL.search(t["callee"]) for _, t in f.calls()):
            continue
        ex = Exprs(f)
        li = None
        for bi, t in f.calls():
            if t.get("indirect") or not FILL.search(t["callee"]):
                continue
            recv = strip_tags(ex.operand(t["args"][0]))
            for x in walk(recv):
                if isinstance(x, tuple) and x[0] in ("var", "param", "upvar", "field"):
                    nm = x[1] if x[0] != "field" else x[2]
                    if nm == base:
                        return True
                    if x[0] == "var":
                        li = li or LockInfo(f, ex)
                        if nm in li.gnames and any(i.split(".")[-1] == base for i in li.lock_of_guard(li.gnames[nm])):
                            return True
                if isinstance(x, tuple) and x[0] == "call" and re.search(r"(Mutex::<T>::lock|RwLock::<T>::write)$", x[1]) and x[2]:
                    if lock_identity(x[2][0]).split(".")[-1] == base:
                        return True
    return False
