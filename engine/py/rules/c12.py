"""C12 — segment and pack compression lossless: table / pairing clauses (DESIGN 4/C12)."""
import re

from cfg import cfg_of
from expr import Exprs, fmt, walk, contains, strip_tags
from mirutil import is_call, dominating_conds, cond_bool, for_loops, local_updates, erase_vars
from framework import site_of
import callgraph as cgmod
import pipeline

EXPLANATION = (
    "Table and pairing clauses: (TP1) the const-generic instantiations (N, MAX) of the tuple packer equal those of "
    "the unpacker, the reader's match literal of each arm equals that arm's N, MAX^N <= 256, each writer "
    "threshold `max < T` selects the instance with MAX == T, and the no-packing marker is the value whose high "
    "nibble is the reader's pass-through arm; (TP2) writer marker = (N << 4) | (len % N), reader takes "
    "marker >> 4 and marker & 0xf, output size = (len - 2) * N + trailing; (TP3) pack and unpack loops mirror "
    "each other in their constants (step N, multiply-by-MAX-and-add vs % MAX and / MAX, trailing tuple always "
    "written and read when len % N > 0); (MK) in the reference compressor the marker-1 return passes through the "
    "tuple packer and the marker-0 return does not, the decompressor unpacks exactly when marker != 0, every "
    "caller appends the returned marker and every reader pops it before decompressing; (TP4) the per-tuple arithmetic: "
    "bytes_to_tuples and tuples_to_bytes are interpreted (MIR, vectors as values) on EVERY string of 1..=N+1 symbols of each packing "
    "class (0..3: N=4, 0..5: N=3, 0..15: N=2) plus unpackable strings - one full tuple, every shorter trailing tuple, a full tuple "
    "followed by a trailing symbol: unpack(pack(x)) = x, no assert trips, and pack(x) equals the AGC v3 packing computed from the "
    "format rule (big-endian base-MAX digits, low-aligned trailing tuple, marker (N<<4)|(len%N)); longer strings repeat the same "
    "per-tuple step (TP3: both loops advance by N / one tuple and carry nothing else).  (LAYER) the whole reference-segment layer - repetitiveness test, "
    "packer, marker, unpacker - is interpreted over a finite domain through both arms with the ZSTD pair as identity.  ZSTD is trusted.")
UNDECIDED = "tuple packing of strings longer than one tuple plus a trailing part beyond the structural step clauses of TP3 (the per-tuple arithmetic itself is decided exhaustively by TP4); ZSTD losslessness and context reuse"

TP = "ragc_core::tuple_packing::"
SC = "ragc_core::segment_compression::"


def _ranges(vs):
    vs = sorted(vs)
    out, i = [], 0
    while i < len(vs):
        j = i
        while j + 1 < len(vs) and vs[j + 1] == vs[j] + 1:
            j += 1
        out.append("%d" % vs[i] if i == j else "%d..=%d" % (vs[i], vs[j]))
        i = j + 1
    return ",".join(out)


def _ev(e, atom, v):
    if e == atom:
        return v
    if not isinstance(e, tuple):
        return None
    if e[0] == "const" and isinstance(e[1], (int, bool)):
        return int(e[1])
    if e[0] == "bin":
        a, b = _ev(e[2], atom, v), _ev(e[3], atom, v)
        if a is None or b is None:
            return None
        op = e[1]
        tbl = {"Lt": lambda: a < b, "Le": lambda: a <= b, "Gt": lambda: a > b, "Ge": lambda: a >= b, "Eq": lambda: a == b, "Ne": lambda: a != b,
               "BitAnd": lambda: a & b, "BitOr": lambda: a | b, "BitXor": lambda: a ^ b, "Sub": lambda: a - b, "Add": lambda: a + b}
        return int(tbl[op]()) if op in tbl else None
    if e[0] == "un" and e[1] == "Not":
        a = _ev(e[2], atom, v)
        return None if a is None else int(not a)
    return None


def _tabulate_dispatch(f, ex, target):
    """for v in 0..=255 (value of the scrutinee): the (N, MAX) instance of `target` reached, None for no call, '?' when undecidable"""
    from collections import Counter
    cnt = Counter()
    sw = []
    for bi, b in enumerate(f.blocks):
        t = b["term"]
        if t["k"] == "switch" and not b["cleanup"]:
            e = ex.operand(t["discr"])
            if isinstance(e, tuple) and e[0] == "bin" and e[1] in ("Lt", "Le", "Gt", "Ge", "Eq", "Ne"):
                for o, c in ((e[2], e[3]), (e[3], e[2])):
                    if c[0] == "const" and o[0] != "const":
                        cnt[o] += 1
                        sw.append((bi, o))
            elif isinstance(e, tuple) and e[0] not in ("const", "discr") and "u8" in f.locals[t["discr"]["pl"]["l"]]["ty"] if "pl" in t["discr"] else False:
                cnt[e] += 1
                sw.append((bi, e))
    if not cnt:
        return {"?": list(range(256))}
    atom = cnt.most_common(1)[0][0]
    g = cfg_of(f)
    starts = [bi for bi, o in sw if o == atom]
    start = [s for s in starts if all(g.dominates(s, x) for x in starts)]
    out = {}
    if not start:
        return {"?": list(range(256))}
    for v in range(256):
        # follow the branches that depend on the scrutinee; a branch on anything else (a debug switch) is explored both ways
        found, seen, stack = set(), set(), [start[0]]
        while stack:
            b = stack.pop()
            if b in seen or len(seen) > 400:
                continue
            seen.add(b)
            t = f.blocks[b]["term"]
            if t["k"] == "switch":
                x = _ev(ex.operand(t["discr"]), atom, v)
                if x is None:
                    stack.extend([tb for _, tb in t["targets"]] + [t["otherwise"]])
                    continue
                nxt = t["otherwise"]
                for val, tb in t["targets"]:
                    if val == x:
                        nxt = tb
                stack.append(nxt)
            elif t["k"] == "goto":
                stack.append(t["t"])
            elif t["k"] == "call":
                if not t.get("indirect") and t["callee"] == target:
                    found.add((int(t["gargs"][0]), int(t["gargs"][1])))
                    continue
                if t.get("t") is not None:
                    stack.append(t["t"])
            elif t["k"] in ("drop", "assert"):
                if t.get("t") is not None:
                    stack.append(t["t"])
        res = None if not found else (next(iter(found)) if len(found) == 1 else "?")
        out.setdefault(res, []).append(v)
    return out


def run(F, rep):
    rep.explanation = EXPLANATION
    rep.undecided = UNDECIDED
    rep.assumptions = ["zstd compress/decompress are inverse for every byte string and level (library contract)"]
    b2t, t2b = F.funcs.get(TP + "bytes_to_tuples"), F.funcs.get(TP + "tuples_to_bytes")
    pk, up = F.funcs.get(TP + "pack_tuples"), F.funcs.get(TP + "unpack_tuples")
    # ------------------------------------------------------------ TP4 (needs only the two entry points, whatever helpers they use)
    if b2t and t2b and getattr(F, "cfg", "dev") == "dev":
        tp4_rule(F, rep, "C12-TP4")
    if getattr(F, "cfg", "dev") == "dev":
        layer_rule(F, rep, "C12-LAYER")
    io_rule(F, rep, "C12-IO")
    zbuf_rule(F, rep, "C12-ZBUF")
    if not rep.floor("C12-ANCHOR", sum(1 for x in (b2t, t2b, pk, up) if x), 4, "tuple packing functions"):
        return
    # ------------------------------------------------------------ TP1
    exw, exr = Exprs(b2t), Exprs(t2b)
    winst = []
    for bi, t in b2t.calls():
        if t["callee"] == pk.key:
            n, mx = int(t["gargs"][0]), int(t["gargs"][1])
            conds = [c for c in dominating_conds(b2t, bi, exw) if cond_bool(c[1], c[2]) is True]
            thr = None
            for e, how, vals, sb in conds:
                if isinstance(e, tuple) and e[0] == "bin" and e[1] == "Lt" and e[3][0] == "const":
                    thr = e[3][1]          # last (innermost) true threshold
            winst.append((n, mx, thr, site_of(b2t, t)))
    rinst = []
    for bi, t in t2b.calls():
        if t["callee"] == up.key:
            n, mx = int(t["gargs"][0]), int(t["gargs"][1])
            arm = None
            for e, how, vals, sb in dominating_conds(t2b, bi, exr):
                if how == "is" and len(vals) == 1 and "Shr" in repr(e):
                    arm = vals[0]
            rinst.append((n, mx, arm, site_of(t2b, t)))
    rep.floor("C12-TP1", len(winst), 3, "packer instantiations")
    same_inst = sorted((a, b) for a, b, _, _ in winst) == sorted((a, b) for a, b, _, _ in rinst)
    # a reader arm that does not go through the generic unpacker (a hand-written routine for one width) is decided by what it
    # computes: TP4 evaluates pack and unpack on every string of up to N+1 symbols of each class
    tp4 = tp4_eval(F) if getattr(F, "cfg", "dev") == "dev" else None
    by_tp4 = (not same_inst) and tp4 is not None and tp4[3] is None and not tp4[1] and not tp4[2] and len(winst) == 3
    if not by_tp4:
        rep.floor("C12-TP1", len(rinst), 3, "unpacker instantiations")
    rep.ob("C12-TP1", "packer and unpacker are instantiated for the same (N, MAX) pairs", same_inst or by_tp4,
           detail="writer %s reader %s%s" % (sorted((a, b) for a, b, _, _ in winst), sorted((a, b) for a, b, _, _ in rinst),
                                           "; the arms the reader handles without the generic unpacker invert the packer on the whole finite domain of TP4 (%d strings)" % tp4[0] if by_tp4 else ""),
           key="C12-TP1 | same instantiations")
    # which instance does each possible maximum symbol reach?  (walk the decision region for v = 0..255)
    reach = _tabulate_dispatch(b2t, exw, pk.key)
    rep.stat("writer_dispatch", {("%d,%d" % k if k else "pass-through"): _ranges(vs) for k, vs in reach.items() if k != "?"})
    rep.ob("C12-TP1", "the writer's dispatch on the largest symbol is decidable for every value 0..255", not reach.get("?"),
           detail="undecided for %s" % _ranges(reach.get("?", [])), key="C12-TP1 | writer dispatch decidable")
    for n, mx, thr, site in winst:
        vs = reach.get((n, mx), [])
        rep.ob("C12-TP1", "every symbol reaching the packer instance fits its base (N=%d, MAX=%d) and MAX^N <= 256" % (n, mx),
               bool(vs) and max(vs) < mx and mx ** n <= 256,
               detail="largest symbol values %s select MAX=%d; MAX^N = %d" % (_ranges(vs), mx, mx ** n), site=site, key="C12-TP1 | writer threshold N=%d" % n)
    for n, mx, arm, site in rinst:
        rep.ob("C12-TP1", "reader arm literal equals the instance's N (N=%d)" % n, arm == n, detail="match arm %s -> unpack::<%d,%d>" % (arm, n, mx),
               site=site, key="C12-TP1 | reader arm N=%d" % n)
    # no-packing marker
    nop = set()
    for bi, t in b2t.calls():
        if t["callee"].endswith("Vec::<T, A>::push") or t["callee"].endswith("Vec::<u8>::push"):
            v = exw.operand(t["args"][1])
            if v[0] == "const":
                nop.add(v[1])
    for bi, b in enumerate(b2t.blocks):
        for s in b["stmts"]:
            if s["k"] == "assign" and s["pl"]["l"] == 0:
                pass
    # vec![0x10] for the empty input is a promoted/array constant: look for byte constants 16 in the body
    consts16 = {x[1] for bi, b in enumerate(b2t.blocks) for s in b["stmts"] if s["k"] == "assign" for x in walk(exw.rvalue(s["rv"])) if isinstance(x, tuple) and x[0] == "const" and isinstance(x[1], int)}
    pass_arm = None
    for bi, b in enumerate(t2b.blocks):
        t = b["term"]
        if t["k"] == "switch":
            e = exr.operand(t["discr"])
            if isinstance(e, tuple) and e[0] == "bin" and e[1] == "Eq" and "Shr" in repr(e):
                c = [o for o in (e[2], e[3]) if o[0] == "const"]
                if c:
                    pass_arm = c[0][1]
    rep.ob("C12-TP1", "no-packing marker's high nibble is the reader's pass-through arm", bool(nop) and all((m >> 4) == pass_arm and (m & 15) == 0 for m in nop),
           detail="writer markers %s, reader pass-through no_bytes == %s" % (sorted(nop), pass_arm), key="C12-TP1 | no-packing marker")
    # ------------------------------------------------------------ TP2
    exp, exu = Exprs(pk), Exprs(up)
    upd_pk = local_updates(pk, exp)
    want_marker = ("bin", "BitOr", ("bin", "Rem", ("call", "core::slice::<impl [T]>::len", (("param", "bytes"),)), ("cparam", "N")),
                   ("bin", "Shl", ("cparam", "N"), ("const", 4)))
    marker_vars = [nm for nm, bi, e, er in upd_pk if e == want_marker]
    rep.ob("C12-TP2", "writer marker = (N << 4) | (len % N)", len(marker_vars) == 1, detail="locals assigned that value: %s" % marker_vars,
           site="%s:%d" % (pk.file, pk.line_lo), key="C12-TP2 | writer marker")
    # ... computed on the full length: the remainder must be taken before any narrowing conversion (256 is not a multiple of 3)
    expk = Exprs(pk, keep_casts=True)
    narrow = []
    for nm, bi, e, er in local_updates(pk, expk):
        if nm in marker_vars:
            for x in walk(e):
                if isinstance(x, tuple) and x[0] == "bin" and x[1] == "Rem":
                    for y in walk(x[2]):
                        if isinstance(y, tuple) and y[0] == "cast" and y[2] in ("u8", "u16", "u32", "i8", "i16", "i32"):
                            narrow.append(fmt(x)[:80])
    rep.ob("C12-TP2", "the trailing count is the remainder of the whole length (no narrowing before the %)", bool(marker_vars) and not narrow,
           detail="narrowed dividend: %s" % narrow, site="%s:%d" % (pk.file, pk.line_lo), key="C12-TP2 | remainder of full length")
    pushed = [exp.operand(t["args"][1]) for bi, t in pk.calls() if t["callee"].endswith("Vec::<u8>::push") or t["callee"].endswith("Vec::<T, A>::push")]
    rep.ob("C12-TP2", "the marker is the last byte pushed by the packer", bool(pushed) and _last_push_is_marker(pk, exp), key="C12-TP2 | marker pushed last")
    upd_r = [e for nm, bi, e, er in local_updates(t2b, exr)]
    last = ("index", ("param", "tuples"), ("bin", "Sub", ("call", "core::slice::<impl [T]>::len", (("param", "tuples"),)), ("const", 1)))
    ok = last in upd_r and ("bin", "Shr", last, ("const", 4)) in upd_r and ("bin", "BitAnd", ("const", 15), last) in upd_r
    rep.ob("C12-TP2", "reader takes marker = last byte, N = marker >> 4, trailing = marker & 0xf", ok,
           detail="; ".join(fmt(v) for v in upd_r if "tuples" in fmt(v))[:400], site="%s:%d" % (t2b.file, t2b.line_lo), key="C12-TP2 | reader nibbles")
    ln2 = ("bin", "Sub", ("call", "core::slice::<impl [T]>::len", (("param", "tuples"),)), ("const", 2))
    want_size = ("bin", "Add", ("bin", "BitAnd", ("const", 15), last), ("bin", "Mul", ("bin", "Shr", last, ("const", 4)), ln2))
    rep.ob("C12-TP2", "output size = (len - 2) * N + trailing", want_size in upd_r, detail=str([fmt(v) for v in upd_r if "Mul" in fmt(v)])[:300], key="C12-TP2 | output size")
    # ------------------------------------------------------------ TP3
    SELF = ("self",)
    horner = [nm for nm, bi, e, er in upd_pk if isinstance(er, tuple) and er[0] == "bin" and er[1] == "Add" and ("bin", "Mul", ("cparam", "MAX"), SELF) in (er[2], er[3])
              and "bytes" in fmt(e)]
    rep.ob("C12-TP3", "packer accumulates c = c * MAX + symbol in both the full-tuple and the trailing loop", len(horner) == 2 and len(set(horner)) == 1,
           detail="accumulator updates: %s" % horner, site="%s:%d" % (pk.file, pk.line_lo), key="C12-TP3 | packer horner")
    steps = [nm for nm, bi, e, er in upd_pk if er == ("bin", "Add", ("cparam", "N"), SELF)]
    rep.ob("C12-TP3", "packer advances by N per full tuple", len(steps) == 1, detail=str(steps), key="C12-TP3 | packer step")
    npush = len(pushed)
    gp = cfg_of(pk)
    uncond = [bi for bi, t in pk.calls() if (t["callee"].endswith("Vec::<u8>::push") or t["callee"].endswith("Vec::<T, A>::push")) and gp.postdominates(bi, 0)]
    rep.ob("C12-TP3", "packer always emits the trailing tuple and the marker (3 push sites, two of them on every path)", npush == 3 and len(uncond) == 2,
           detail="%d push sites, %d unconditional" % (npush, len(uncond)), key="C12-TP3 | trailing always")
    upd_up = local_updates(up, exu)
    divs = [nm for nm, bi, e, er in upd_up if er == ("bin", "Div", SELF, ("cparam", "MAX"))]
    outs = []
    for bi, b in enumerate(up.blocks):
        for s in b["stmts"]:
            if s["k"] == "assign" and s["pl"]["p"] and s["pl"]["ty"] == "u8" and any(isinstance(p, dict) and "idx" in p for p in s["pl"]["p"]):
                outs.append(erase_vars(exu.rvalue(s["rv"])))
    rep.ob("C12-TP3", "unpacker writes c % MAX and divides c by MAX (both loops)", outs.count(("bin", "Rem", ("var", "$"), ("cparam", "MAX"))) == 2 and
           len(divs) == 2 and len(set(divs)) == 1, detail="writes %s; divisions on %s" % ([fmt(e) for e in outs], divs),
           site="%s:%d" % (up.file, up.line_lo), key="C12-TP3 | unpacker digits")
    one = [nm for nm, bi, e, er in upd_up if er == ("bin", "Add", ("const", 1), SELF)]
    nst = [nm for nm, bi, e, er in upd_up if er == ("bin", "Add", ("cparam", "N"), SELF)]
    rep.ob("C12-TP3", "unpacker advances one tuple and N outputs per step", len(one) >= 1 and len(nst) == 1 and not set(one) & set(nst),
           detail="+1 on %s, +N on %s" % (one, nst), key="C12-TP3 | unpacker step")
    # digits are written most-significant first: loop over (0..N).rev() / (0..n).rev()
    revs = [L for L in for_loops(up, exu) if contains(L["source"], lambda x: isinstance(x, tuple) and x[0] == "call" and re.search(r"Iterator>?::rev$", x[1]))]
    rep.ob("C12-TP3", "unpacker fills positions from the last to the first (reverse of the packer's Horner order)", len(revs) == 2, detail="%d reversed loops" % len(revs),
           key="C12-TP3 | unpacker order")
    trail = any(isinstance(e, tuple) and e[0] == "bin" and e[1] == "Lt" and e[2] == ("const", 0) for b in up.blocks if b["term"]["k"] == "switch"
                for e in [exu.operand(b["term"]["discr"])])
    rep.ob("C12-TP3", "unpacker reads the trailing tuple when output_size % N > 0", trail, key="C12-TP3 | trailing read")

    # ------------------------------------------------------------ MK
    cr = F.funcs.get(SC + "compress_reference_segment")
    dm = F.funcs.get(SC + "decompress_segment_with_marker")
    if rep.floor("C12-MK", sum(1 for x in (cr, dm) if x), 2, "reference compressor / marker decompressor"):
        g = cfg_of(cr)
        ex = Exprs(cr)
        packs = [bi for bi, t in cr.calls() if t["callee"] == b2t.key]
        for bi, b in enumerate(cr.blocks):
            for s in b["stmts"]:
                if s["k"] == "assign" and s["pl"]["l"] == 0 and not s["pl"]["p"]:
                    e = ex.rvalue(s["rv"])
                    if "Result::Ok" not in repr(e):
                        continue
                    tup = dict(e[2]).get("0")
                    mk = dict(tup[2]).get("1") if isinstance(tup, tuple) and tup[0] == "agg" else None
                    data = dict(tup[2]).get("0") if isinstance(tup, tuple) and tup[0] == "agg" else None
                    through = contains(data, lambda x: isinstance(x, tuple) and x[0] == "call" and x[1] == b2t.key)
                    dom = any(g.dominates(p, bi) for p in packs)
                    if mk == ("const", 1):
                        rep.ob("C12-MK", "marker 1 is returned only with tuple-packed data", through and dom, detail=fmt(data)[:200], site=site_of(cr, s), key="C12-MK | marker 1 path")
                    elif mk == ("const", 0):
                        rep.ob("C12-MK", "marker 0 is returned only with plain data", not through and not dom, detail=fmt(data)[:200], site=site_of(cr, s), key="C12-MK | marker 0 path")
                    else:
                        rep.ob("C12-MK", "reference compressor returns a constant marker 0 or 1", False, detail=fmt(mk), site=site_of(cr, s), key="C12-MK | marker constant")
        gd = cfg_of(dm)
        exd = Exprs(dm)
        unp = [bi for bi, t in dm.calls() if t["callee"] == t2b.key]
        ok = False
        for bi in unp:
            for e, how, vals, sb in dominating_conds(dm, bi, exd):
                if e == ("bin", "Eq", ("const", 0), ("param", "marker")) and cond_bool(how, vals) is False:
                    ok = True
        rep.ob("C12-MK", "decompressor unpacks tuples exactly when marker != 0", ok and len(unp) == 1, site="%s:%d" % (dm.file, dm.line_lo), key="C12-MK | reader arm")
    # callers append the returned marker; readers pop it
    G = cgmod.CallGraph(F)
    live = pipeline.live_scope(F, G)
    nw = nr = 0
    for f in F.funcs.values():
        if f.key not in live:
            continue
        ex = None
        for bi, t in f.calls():
            if t.get("indirect"):
                continue
            if cr and t["callee"] == cr.key:
                nw += 1
                ex = ex or Exprs(f)
                me = ex.call(t)
                ok = False
                for b2, t2 in f.calls():
                    if t2["callee"].endswith("Vec::<u8>::push") or t2["callee"].endswith("Vec::<T, A>::push"):
                        v = ex.operand(t2["args"][1])
                        if contains(v, lambda x: x == me) and fmt(v).endswith(".1"):
                            ok = True
                rep.ob("C12-MK", "caller %s appends the returned marker to the compressed reference" % f.key.split("::", 1)[-1], ok, site=site_of(f, t),
                       key="C12-MK | %s | appends marker" % f.key)
            if dm and t["callee"] == dm.key:
                nr += 1
                ex = ex or Exprs(f)
                m = ex.operand(t["args"][1])
                ok = contains(m, lambda x: isinstance(x, tuple) and x[0] == "call" and x[1].endswith("Vec::<T, A>::pop")) or m == ("const", 0)
                rep.ob("C12-MK", "reader %s takes the marker from the end of the stored part" % f.key.split("::", 1)[-1], ok, detail=fmt(m), site=site_of(f, t),
                       key="C12-MK | %s | pops marker #%d" % (f.key, nr))
    rep.floor("C12-MK", nw, 2, "live callers of compress_reference_segment")
    rep.floor("C12-MK", nr, 3, "live callers of decompress_segment_with_marker")


def _last_push_is_marker(pk, ex):
    g = cfg_of(pk)
    pushes = [(bi, t) for bi, t in pk.calls() if t["callee"].endswith("Vec::<u8>::push") or t["callee"].endswith("Vec::<T, A>::push")]
    mk = [bi for bi, t in pushes if "Shl" in repr(ex.operand(t["args"][1]))]
    after = g.reachable_from(mk[0]) - {mk[0]} if mk else set()
    return bool(mk) and not any(bi in after for bi, _ in pushes)


def agc_pack(x):
    """AGC v3 tuple packing, transcribed from the format rule (not from ragc): the oracle of TP4 / C02-TUPLE"""
    x = list(x)
    if not x:
        return [0x10]
    m = max(x)
    if m < 4:
        n, mx = 4, 4
    elif m < 6:
        n, mx = 3, 6
    elif m < 16:
        n, mx = 2, 16
    else:
        return x + [0x10]
    out, i = [], 0
    while i + n <= len(x):
        c = 0
        for j in range(n):
            c = c * mx + x[i + j]
        out.append(c & 0xff)
        i += n
    c = 0
    while i < len(x):
        c = c * mx + x[i]
        i += 1
    out.append(c & 0xff)
    out.append(((n << 4) | (len(x) % n)) & 0xff)
    return out


_TP4_CACHE = {}


def tp4_eval(F):
    """(evaluations, round-trip failures, format failures, undecidable) over the finite domain"""
    key = (id(F), getattr(F, "tier", "quick"))
    if key in _TP4_CACHE:
        return _TP4_CACHE[key]
    import itertools
    from layerint import LayerInterp
    from absint import Undecidable, Panic
    b2t, t2b = F.funcs.get(TP + "bytes_to_tuples"), F.funcs.get(TP + "tuples_to_bytes")
    n = 0
    rt_bad, fmt_bad, undec = [], [], None
    # one world for the whole domain: whatever the codec keeps per thread (a thread_local table, a scratch buffer) lives as
    # long as a worker does, and the classes of the domain follow one another on it
    world = {"tls_init": {}}

    def VecInterp(F_):
        it = LayerInterp(F_)
        it.world = world
        return it
    domain = []
    for alpha, maxlen in ((4, 5), (6, 4), (16, 3)):
        for L in range(1, maxlen + 1):
            domain.extend(itertools.product(range(alpha), repeat=L))
    # tuple boundaries: two full tuples with every trailing length, over the extreme symbols of each class
    for n_, lo_, hi_ in ((4, 1, 3), (3, 4, 5), (2, 6, 15)):
        for L in range(n_ + 2, 2 * n_ + 2):
            domain.extend(itertools.product((lo_, hi_), repeat=L))
    if getattr(F, "tier", "quick") == "thorough":
        # deeper: every string of up to N+3 symbols for the two small bases, N+2 for base 16
        for alpha, lens in ((4, (6, 7)), (6, (5, 6)), (16, (4,))):
            for L in lens:
                domain.extend(itertools.product(range(alpha), repeat=L))
    domain.extend([(16,), (3, 30), (255, 0, 1), (15, 16), (31, 31, 31, 31, 31)])          # symbols that cannot be packed
    seen = set()
    for x in domain:
        if x in seen:
            continue
        seen.add(x)
        n += 1
        try:
            p = VecInterp(F).call(b2t, [("refval", list(x))])
            u = VecInterp(F).call(t2b, [("refval", list(p))])
        except Panic as e:
            rt_bad.append("%s: panics (%s)" % (list(x), e))
            continue
        except Undecidable as e:
            undec = "%s: %s" % (list(x), e)
            break
        if list(u) != list(x):
            rt_bad.append("%s packs to %s and unpacks to %s" % (list(x), list(p), list(u)))
        if list(p) != agc_pack(x):
            fmt_bad.append("%s packs to %s, AGC v3 packs it to %s" % (list(x), list(p), agc_pack(x)))
    # the reader's side of the empty string (the writer's `vec![0x10]` is a constant allocation, not evaluated)
    try:
        u = VecInterp(F).call(t2b, [("refval", [0x10])])
        if list(u) != []:
            rt_bad.append("the packing of the empty string [16] unpacks to %s" % list(u))
    except Panic as e:
        rt_bad.append("[16] (empty string): panics (%s)" % e)
    except Undecidable as e:
        undec = undec or "[16]: %s" % e
    _TP4_CACHE[key] = (n, rt_bad, fmt_bad, undec)
    return _TP4_CACHE[key]


def tp4_rule(F, rep, rule, want=("rt", "fmt")):
    b2t = F.funcs.get(TP + "bytes_to_tuples")
    n, rt_bad, fmt_bad, undec = tp4_eval(F)
    site = "%s:%d" % (b2t.file, b2t.line_lo)
    if "rt" in want:
        rep.ob(rule, "unpack(pack(x)) = x for every string of one tuple, every shorter trailing tuple and a tuple plus one symbol, in each packing class",
               undec is None and not rt_bad,
               detail=("undecidable construct: %s" % undec) if undec else ("%d strings evaluated" % n if not rt_bad else "%d of %d strings fail, e.g. %s" % (len(rt_bad), n, "; ".join(rt_bad[:3]))),
               site=site, key="%s | round trip on the finite domain" % rule)
    if "fmt" in want:
        rep.ob(rule, "pack(x) is the AGC v3 packing (big-endian base-MAX digits, low-aligned trailing tuple, marker (N<<4)|(len%N)) on the same domain",
               undec is None and not fmt_bad,
               detail=("undecidable construct: %s" % undec) if undec else ("%d strings evaluated" % n if not fmt_bad else "%d of %d strings differ, e.g. %s" % (len(fmt_bad), n, "; ".join(fmt_bad[:3]))),
               site=site, key="%s | format on the finite domain" % rule)
    rep.stat("tuple_codec_strings_evaluated", n)


def io_rule(F, rep, rule):
    """A single `Read::read` may return fewer bytes than the buffer holds (a streaming decoder returns what one input
    chunk produced).  Code that fills a buffer of known size must use read_exact / read_to_end / decode_all, or call
    read in a loop that ends when it returns 0.  Every direct `Read::read` call in the live code of ragc-core,
    ragc-common and the CLI is checked; the all-or-error calls are counted as the positive control."""
    G = cgmod.CallGraph(F)
    live = pipeline.live_scope(F, G)
    nfull = nbare = 0
    for k in sorted(live):
        f = F.funcs[k]
        if f.crate not in ("ragc_core", "ragc_common", "ragc") or f.kind == "promoted" or f.d.get("test"):
            continue
        g = None
        ex = None
        for bi, t in f.calls():
            if t.get("indirect"):
                continue
            decl = t.get("decl", "")
            if re.search(r"io::Read::(read_exact|read_to_end|read_to_string)$|io::BufRead::(read_until|read_line)$", decl) or t["callee"].endswith("zstd::stream::functions::decode_all") or t["callee"].endswith("zstd::decode_all"):
                nfull += 1
                continue
            if decl.endswith("io::Write::write") and not t["sp"].get("exp"):
                # the mirror image: a single write() may accept fewer bytes than it was given
                nbare += 1
                g = g or cfg_of(f)
                rep.ob(rule, "%s: a direct Write::write is repeated until the buffer is consumed (a single write may be short)" % k.split("::", 1)[-1],
                       bool(g.in_loop(bi)) or f.d.get("trait") == "std::io::Write", detail="write_all is the all-or-error form" if not g.in_loop(bi) else "inside a loop",
                       site=site_of(f, t), key="%s | %s | bare write" % (rule, k))
                continue
            if not decl.endswith("io::Read::read"):
                continue
            nbare += 1
            g = g or cfg_of(f)
            ex = ex or Exprs(f)
            heads = g.in_loop(bi)
            ok = False
            why = "not inside a loop: the bytes after the first chunk are never read"
            if heads:
                body = set()
                for h, bd in g.loops():
                    if bi in bd:
                        body |= set(bd)
                zero_test = False
                for b2 in body:
                    t2 = f.blocks[b2]["term"]
                    if t2["k"] == "switch":
                        ce = ex.operand(t2["discr"])
                        if isinstance(ce, tuple) and ce[0] == "bin" and ce[1] in ("Eq", "Ne", "Lt", "Le") and ("const", 0) in (ce[2], ce[3]) and \
                                contains(ce, lambda x: isinstance(x, tuple) and x[0] == "call" and x[1] == t["callee"]):
                            zero_test = True
                ok = zero_test
                why = "inside a loop that tests the returned count against 0" if ok else "inside a loop, but the returned count is never compared with 0"
            rep.ob(rule, "%s: a direct Read::read is repeated until it returns 0 (a single read may be short)" % k.split("::", 1)[-1], ok, detail=why,
                   site=site_of(f, t), key="%s | %s | bare read" % (rule, k))
    rep.ob(rule, "buffers are filled with all-or-error reads (read_exact / read_to_end / read_until / decode_all): %d call sites, %d direct read() calls" % (nfull, nbare),
           True, how="trivial", key="%s | summary" % rule)
    rep.floor(rule, nfull, 5, "all-or-error read call sites in the live code (positive control of the matcher)")


def zbuf_rule(F, rep, rule):
    """A one-shot zstd compression fails ("destination buffer too small") unless the output buffer holds
    compress_bound(input length) bytes - incompressible input needs more than its own length.  For every compress call of
    the pooled compressor the destination vector must be sized with compress_bound of THIS input: allocated with it right
    before the call, or grown under a test that compares the buffer's length with that bound (not with the input length)."""
    n = 0
    for k, f in sorted(F.funcs.items()):
        if not re.search(r"^ragc_core::(zstd_pool|segment_compression)::", k) or f.kind == "promoted" or f.d.get("test"):
            continue
        ex = None
        g = None
        for bi, t in f.calls():
            if t.get("indirect") or not re.search(r"zstd(_safe)?::.*CCtx.*::(compress|compress2|compress_using_dict)$", t["callee"]):
                continue
            ex = ex or Exprs(f)
            g = g or cfg_of(f)
            n += 1
            # every sizing of a byte vector in this body (vec![0; n], resize, reserve, with_capacity)
            sizings = []
            for b2, t2 in f.calls():
                if t2.get("indirect"):
                    continue
                if re.search(r"vec::from_elem$|Vec::<T, A>::(resize|reserve|reserve_exact)$|Vec::<T>::with_capacity$", t2["callee"]):
                    sz = strip_tags(ex.operand(t2["args"][1] if not t2["callee"].endswith("with_capacity") else t2["args"][0]))
                    sizings.append((b2, t2, sz))
            def is_bound(e):
                return contains(e, lambda x: isinstance(x, tuple) and x[0] == "call" and x[1].endswith("compress_bound"))
            good = [(b2, t2) for b2, t2, sz in sizings if is_bound(sz)]
            ok, why = False, "no buffer in this body is sized with compress_bound(..)"
            if good:
                ok, why = True, "destination sized with compress_bound of the input"
                for b2, t2 in good:
                    conds = [c for c in dominating_conds(f, b2, ex) if cond_bool(c[1], c[2]) is not None]
                    guards = [c for c in conds if contains(strip_tags(c[0]), lambda x: isinstance(x, tuple) and x[0] == "call" and x[1].endswith("::len"))
                              and not (c[0][0] == "call" and "is_empty" in c[0][1])]
                    for c in guards:
                        if not is_bound(strip_tags(c[0])) and contains(strip_tags(c[0]), lambda x: isinstance(x, tuple) and x[0] == "bin" and x[1] in ("Lt", "Le", "Gt", "Ge")):
                            ok = False
                            why = "the buffer is grown only under `%s`, which does not compare its length with compress_bound(input): an input slightly longer than an earlier one gets a buffer that is too small" % fmt(strip_tags(c[0]))[:120]
            rep.ob(rule, "%s: the output buffer of a zstd compression holds compress_bound(input length)" % k.split("::", 1)[-1], ok, detail=why,
                   site=site_of(f, t), key="%s | %s | output buffer" % (rule, k))
    rep.floor(rule, n, 1, "zstd one-shot compress calls")
    # the mirror image on the reading side: a one-shot decompression into a pre-sized buffer needs the size the frame declares
    # (get_frame_content_size / find_decompressed_size / decompress_bound); a guessed expansion factor fails on highly
    # compressible parts (long N runs compress thousands of times).  decode_all / streaming decoders grow as needed.
    for k, f in sorted(F.funcs.items()):
        if not re.search(r"^ragc_core::(zstd_pool|segment_compression|decompressor)::", k) or f.kind == "promoted" or f.d.get("test"):
            continue
        ex = None
        for bi, t in f.calls():
            if t.get("indirect") or not re.search(r"zstd(_safe)?::.*(DCtx.*::decompress\w*|bulk::.*decompress\w*|::decompress)$", t["callee"]) or t["callee"].endswith("decompress_bound"):
                continue
            ex = ex or Exprs(f)
            sizings = []
            for b2, t2 in f.calls():
                if not t2.get("indirect") and re.search(r"vec::from_elem$|Vec::<T, A>::(resize|reserve|reserve_exact)$|Vec::<T>::with_capacity$", t2["callee"]):
                    sizings.append(strip_tags(ex.operand(t2["args"][1] if not t2["callee"].endswith("with_capacity") else t2["args"][0])))
            sizings += [strip_tags(ex.operand(a)) for a in t["args"][2:]]       # bulk::decompress(data, capacity)
            declared = any(contains(sz, lambda x: isinstance(x, tuple) and x[0] == "call" and re.search(r"(get_frame_content_size|find_decompressed_size|decompress_bound|find_frame_compressed_size)$", x[1])) for sz in sizings)
            rep.ob(rule, "%s: the output buffer of a one-shot zstd decompression is sized from what the frame declares" % k.split("::", 1)[-1], declared,
                   detail="buffer sizes in this body: %s" % [fmt(sz)[:80] for sz in sizings][:3], site=site_of(f, t), key="%s | %s | decompress buffer" % (rule, k))


# ---------------------------------------------------------------------------------------------------- whole layer
_LAYER_CACHE = {}
# a fixed ACGT string without a long self-overlap at offsets 4..31 (so that the tuple-packing arm is taken)
_LOWREP = (0, 1, 2, 3, 3, 1, 0, 2, 2, 0, 3, 1, 1, 3, 2, 0, 0, 2, 1, 3)


def layer_domain():
    import itertools
    dom = []
    for alpha, maxlen in ((4, 4), (6, 3), (16, 2)):
        for L in range(1, maxlen + 1):
            dom.extend(itertools.product(range(alpha), repeat=L))
    # the symbol that decides the packing class anywhere in the last five positions of a longer segment
    for L in (5, 6, 7, 8, 9, 12, 13):
        base = list(_LOWREP[:L])
        dom.append(tuple(base))
        for pos in range(max(0, L - 5), L):
            for sym in (4, 5, 6, 15, 16, 30, 255):
                v = list(base)
                v[pos] = sym
                dom.append(tuple(v))
        for sym in (4, 5, 15, 30):
            v = list(base)
            v[0] = sym
            dom.append(tuple(v))
    # repetitive segments (the plain arm), with and without symbols beyond ACGT
    dom.extend([(0,) * 8, (0, 1, 2, 3) * 3, (0, 1, 2, 3, 4) * 3, (4,) * 9, (30, 1, 2, 3) * 3, (0, 1, 2, 3, 0)])
    seen, out = set(), []
    for x in dom:
        if x not in seen:
            seen.add(x)
            out.append(x)
    return out


def layer_eval(F, tls_init=None):
    """{x: (marker, blob, unpacked | error text)} for every string of the layer domain, plus the undecidable construct if any"""
    key = (id(F), repr(sorted((tls_init or {}).items())))
    if key in _LAYER_CACHE:
        return _LAYER_CACHE[key]
    from layerint import LayerInterp
    from absint import Undecidable, Panic
    cr, dm = F.funcs.get(SC + "compress_reference_segment"), F.funcs.get(SC + "decompress_segment_with_marker")
    res, undec, tls_used = {}, None, set()
    # one world per evaluation order: the thread-local state lives as long as the "thread" does
    world = {"tls_init": dict(tls_init or {})}
    dworld = {"tls_init": {}}            # the reading thread keeps its state over the whole domain as well
    for x in layer_domain():
        if tls_init is not None:
            world = {"tls_init": dict(tls_init)}          # every item starts from the given left-over state
        try:
            it = LayerInterp(F)
            it.world = world
            r = it.call(cr, [("refval", list(x))])
            if not (isinstance(r, dict) and r.get("__var") == "Ok"):
                res[x] = (None, None, "compression returns %r" % (r.get("__var") if isinstance(r, dict) else r,))
                continue
            p = r.get(0, r.get("0"))
            blob, marker = list(p[0]), p[1]
            it2 = LayerInterp(F)
            it2.world = dworld
            y = it2.call(dm, [("refval", list(blob)), marker])
            if isinstance(y, dict) and y.get("__var") == "Ok":
                res[x] = (marker, blob, list(y.get(0, y.get("0"))))
            else:
                res[x] = (marker, blob, "decompression returns an error")
        except Panic as e:
            res[x] = (None, None, "panics (%s)" % e)
        except Undecidable as e:
            undec = "%s: %s" % (list(x), e)
            break
        tls_used |= world.get("tls_used", set())
    _LAYER_CACHE[key] = (res, undec, tls_used)
    return _LAYER_CACHE[key]


def layer_rule(F, rep, rule):
    cr = F.funcs.get(SC + "compress_reference_segment")
    if not rep.floor(rule, 1 if cr else 0, 1, "compress_reference_segment"):
        return
    res, undec, _ = layer_eval(F)
    bad = ["%s is stored as marker %s %s and read back as %s" % (list(x), m, b, u) for x, (m, b, u) in res.items() if u != list(x)]
    arms = sorted({m for m, b, u in res.values() if m is not None})
    rep.ob(rule, "decompress_segment_with_marker(compress_reference_segment(x)) = x on the layer domain (every string of one tuple per class, "
           "longer strings with the class-deciding symbol at each of the last five positions, repetitive strings), the ZSTD pair taken as lossless",
           undec is None and not bad,
           detail=("undecidable construct: %s" % undec) if undec else ("%d strings evaluated, markers taken %s" % (len(res), arms) if not bad else
                                                                      "%d of %d strings fail, e.g. %s" % (len(bad), len(res), "; ".join(bad[:3]))),
           site="%s:%d" % (cr.file, cr.line_lo), key="%s | round trip through both arms" % rule)
    if undec is None:
        rep.ob(rule, "the evaluation takes both the tuple-packed and the plain arm", arms == [0, 1], detail="markers %s" % arms, key="%s | both arms exercised" % rule)
    rep.stat("layer_strings_evaluated", len(res))
