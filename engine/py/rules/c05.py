"""C05 — the compression pipeline terminates: structural preconditions T1..T6 (DESIGN 4/C05)."""
import re

from cfg import cfg_of, succs
from expr import Exprs, fmt, walk, contains
from mirutil import (for_loops, try_sites, error_blocks, may_return_err, LockInfo, lock_identity, LOCK_CALL,
                     is_call)
from paths import enumerate_paths, path_events, cond_truth, feasible
from framework import site_of
import callgraph as cgmod
import pipeline

EXPLANATION = (
    "Structural preconditions of termination decided on the MIR of the current tree: (T1) barrier party count, "
    "worker-spawn loops and every sync-token loop are plain reads of config.num_threads and push exactly one "
    "zero-size token per iteration; (T2) in the worker loop every non-error path through a sync token passes the "
    "same number of Barrier::wait calls, none under a lock, and no early exit lies between the first and last "
    "wait unless its callee provably cannot fail; (T3) finalize pushes tokens, then closes, then joins every "
    "handle; workers leave their loop only when pull() returns None; (T4) the lock-order graph over all bodies "
    "reachable from producer entry points and the worker is acyclic and blocking operations are not executed "
    "under a lock the other side needs; (T5) every Condvar wait loop's continuation predicate can be falsified "
    "by the opposite operation alone for every parameter value. It does not explore interleavings.  (T7) what a polling loop of the producer observes is lowered by pulling itself or by a completion call made on every worker path from a pulled item to the next pull, tokens included; "
    "(T8) the queue's byte counter returns to what is queued (C06-Q2 shared).")
UNDECIDED = ("liveness under all schedules as such, fairness, the polling loops of drain/sync_and_flush, "
             "progress after a worker returns an error")

BARRIER_WAIT = pipeline.BARRIER_WAIT
BARRIER_NEW = r"std::sync::(barrier::)?Barrier::new$"
SPAWN = r"std::thread::(functions::)?spawn$"
QUEUE = "ragc_core::memory_bounded_queue::MemoryBoundedQueue::<T>::"


def num_threads_read(e):
    """expression is a plain read of a field named num_threads (no arithmetic)"""
    return isinstance(e, tuple) and e[0] == "field" and e[2] == "num_threads"


def run(F, rep):
    rep.explanation = EXPLANATION
    rep.undecided = UNDECIDED
    rep.assumptions = ["std Barrier/Mutex/RwLock/Condvar contracts", "one producer thread drives push/finalize (API takes &mut self / self)",
                       "MIR of nightly rustc at mir-opt-level=0 is the program"]
    core = "ragc_core::agc_compressor::"
    worker = F.funcs.get(core + "worker_thread")
    if not rep.floor("C05-ANCHOR", 1 if worker else 0, 1, "worker_thread body"):
        return
    sqc = core + "StreamingQueueCompressor::"
    G = cgmod.CallGraph(F)

    # ------------------------------------------------------------ T9 what makes a queued item a token
    # The worker enters a synchronisation round when a test on the pulled item holds.  The fields that test reads are found in
    # the worker (not by name); at every place where an item is built for the queue each of them must be a constant, so that
    # a contig task can never be taken for a token (and a token never for a contig), whatever the input is.
    TAG = token_tag_fields(F, worker)
    rep.stat("token_tag_fields", sorted(TAG[0]) if TAG else None)
    if rep.floor("C05-T9", 1 if TAG and TAG[0] else 0, 1, "the worker's token test on the pulled item"):
        nb = 0
        for f in F.funcs.values():
            if not f.key.startswith(sqc):
                continue
            exq = None
            for bi, t in f.calls():
                if t.get("indirect") or not t["callee"].startswith(QUEUE) or not re.search(r"::(push|push_\w+|try_push)$", t["callee"]) or len(t["args"]) < 2:
                    continue
                exq = exq or Exprs(f)
                item = exq.operand(t["args"][1])
                if isinstance(item, tuple) and item[0] == "var":
                    from mirutil import _single_source
                    item = _single_source(f, exq, item[1])
                if not (isinstance(item, tuple) and item[0] == "agg"):
                    continue
                nb += 1
                fields = dict(item[2])
                bad = {n: fmt(fields.get(n))[:50] for n in TAG[0] if not (isinstance(fields.get(n), tuple) and fields.get(n)[0] == "const")}
                rep.ob("C05-T9", "item queued in %s: every field the worker's token test reads (%s) is a constant here" % (f.key.rsplit("::", 1)[-1], ", ".join(sorted(TAG[0]))),
                       not bad, detail=("run-time value(s): %s - whether this item starts a synchronisation round depends on the data" % bad) if bad else "via %s" % TAG[1],
                       site=site_of(f, t), key="C05-T9 | %s | tag constant @%s" % (f.key, _tok_ctx(item)))
        rep.floor("C05-T9", nb, 5, "places where an item is built for the queue (4 token rounds, 1 contig push)")
    TAGF = sorted(TAG[0])[0] if TAG and len(TAG[0]) == 1 else "is_sync_token"

    # ------------------------------------------------------------ T1 round accounting
    n_barrier = 0
    roots_prod = [k for k in F.funcs if k.startswith(sqc) and F.funcs[k].kind == "assocfn" and F.funcs[k].is_pub()]
    pipeline_reach = G.reachable(roots_prod + [worker.key])
    for f in F.funcs.values():
        if f.key not in pipeline_reach:
            continue
        ex = None
        for bi, t in f.calls():
            if is_call(t, BARRIER_NEW):
                ex = ex or Exprs(f)
                e = ex.operand(t["args"][0])
                n_barrier += 1
                rep.ob("C05-T1", "Barrier::new party count in %s" % f.key, num_threads_read(e),
                       detail="party count = %s (must be a plain read of config.num_threads)" % fmt(e),
                       site=site_of(f, t), key="C05-T1 | %s | barrier parties" % f.key)
    rep.floor("C05-T1", n_barrier, 1, "Barrier::new sites")

    spawn_loops = 0
    token_loops = 0
    for f in F.funcs.values():
        if not f.key.startswith(sqc):
            continue
        ex = Exprs(f)
        loops = for_loops(f, ex)
        g = cfg_of(f)
        for bi, t in f.calls():
            inl = [L for L in loops if bi in L["body"]]
            if is_call(t, SPAWN):
                # which closure? must call worker_thread
                cl = None
                for a in t["args"]:
                    ty = a.get("pl", {}).get("ty", "") if a["k"] != "const" else a.get("ty", "")
                gar = t.get("gargs", [])
                calls_worker = any(worker.key in G.out.get(c.key, ()) for c in F.closures_of(f.key))
                if not calls_worker:
                    continue
                spawn_loops += 1
                ok = len(inl) >= 1 and inl[-1]["range"] is not None and inl[-1]["range"][0] == ("const", 0) and \
                    num_threads_read(inl[-1]["range"][1])
                rep.ob("C05-T1", "worker spawn loop bound in %s" % f.key, ok,
                       detail="range = %s" % (_rng(inl[-1]) if inl else "not in a for loop"),
                       site=site_of(f, t), key="C05-T1 | %s | spawn loop bound" % f.key)
            if is_call(t, re.escape(QUEUE) + r"push$"):
                item = ex.operand(t["args"][1])
                size = ex.operand(t["args"][2])
                if isinstance(item, tuple) and item[0] == "var":
                    from mirutil import _single_source
                    item = _single_source(f, ex, item[1])
                is_tok = isinstance(item, tuple) and item[0] == "agg" and dict(item[2]).get(TAGF) == ("const", 1)
                if not is_tok:
                    continue
                token_loops += 1
                L = inl[-1] if inl else None
                ok = L is not None and L["range"] is not None and L["range"][0] == ("const", 0) and num_threads_read(L["range"][1])
                rep.ob("C05-T1", "sync-token loop bound in %s" % f.key, ok,
                       detail="range = %s" % (_rng(L) if L else "not in a for loop"),
                       site=site_of(f, t), key="C05-T1 | %s | token loop bound @%s" % (f.key, _tok_ctx(item)))
                rep.ob("C05-T1", "sync token has size 0 in %s" % f.key, size == ("const", 0), detail="size = %s" % fmt(size),
                       site=site_of(f, t), key="C05-T1 | %s | token size @%s" % (f.key, _tok_ctx(item)))
                if L:
                    # exactly one push per iteration, on every non-error path through the loop body
                    pushes = [b for b in L["body"] if is_call(f.blocks[b]["term"], re.escape(QUEUE) + r"push$")]
                    tails = [x for x in L["body"] if L["head"] in g.succ[x]]
                    dom_ok = all(any(g.dominates(p, x) for p in pushes) for x in tails)
                    rep.ob("C05-T1", "exactly one token pushed per iteration in %s" % f.key, len(pushes) == 1 and dom_ok,
                           detail="%d push call(s) in loop body; push dominates the back edge: %s" % (len(pushes), dom_ok),
                           site=site_of(f, t), key="C05-T1 | %s | one token per iteration @%s" % (f.key, _tok_ctx(item)))
    # the same round may be queued through a bulk operation of the queue (`for _ in 0..count { heap.push(item.clone() /size 0/) }`):
    # then the count argument takes the place of the loop bound
    for f in F.funcs.values():
        if not f.key.startswith(sqc):
            continue
        ex = None
        for bi, t in f.calls():
            if t.get("indirect") or not t["callee"].startswith(QUEUE) or t["callee"] == QUEUE + "push":
                continue
            q = F.funcs.get(t["callee"])
            if q is None:
                continue
            blk = _bulk_shape(F, q)
            if blk is None:
                continue
            ex = ex or Exprs(f)
            qn = {nm: l for l, nm in q.arg_names().items()}
            if blk["item"] not in qn or blk["count"] not in qn:
                continue
            item = ex.operand(t["args"][qn[blk["item"]] - 1])
            count = ex.operand(t["args"][qn[blk["count"]] - 1])
            if isinstance(item, tuple) and item[0] == "var":
                from mirutil import _single_source
                item = _single_source(f, ex, item[1])
            is_tok = isinstance(item, tuple) and item[0] == "agg" and dict(item[2]).get(TAGF) == ("const", 1)
            if not is_tok:
                continue
            token_loops += 1
            rep.ob("C05-T1", "sync-token loop bound in %s" % f.key, num_threads_read(count),
                   detail="bulk insert %s(.., count = %s)" % (q.key.rsplit("::", 1)[-1], fmt(count)), site=site_of(f, t),
                   key="C05-T1 | %s | token loop bound @%s" % (f.key, _tok_ctx(item)))
            rep.ob("C05-T1", "sync token has size 0 in %s" % f.key, blk["size0"], detail="the bulk operation records every copy with size %s" % blk["size"],
                   site=site_of(f, t), key="C05-T1 | %s | token size @%s" % (f.key, _tok_ctx(item)))
            rep.ob("C05-T1", "exactly one token pushed per iteration in %s" % f.key, blk["one_per_iter"],
                   detail="bulk loop of %s: %s" % (q.key.rsplit("::", 1)[-1], blk["why"]), site=site_of(f, t),
                   key="C05-T1 | %s | one token per iteration @%s" % (f.key, _tok_ctx(item)))
    rep.floor("C05-T1", spawn_loops, 2, "worker spawn sites")
    rep.floor("C05-T1", token_loops, 4, "sync-token push sites (pack boundary, sample boundary, sync_and_flush, finalize)")

    # spawn closures hand each worker parameter the shared object that the compressor keeps in the field of the
    # same name (lock identities are field / parameter names: DESIGN 11.2).  Decided on provenance, not on the
    # names of the locals in between: the captured value, with its clone() layers removed, must be the very
    # expression stored in that field (constructor site) or a read of that field (later spawn sites).
    wparams = worker.arg_names()
    sqc_adt = sqc.rstrip(":")
    nspawn_checked = 0

    def root_of(f, exf, op, depth=0):
        """the local (or self field) a value is a clone / copy / reborrow of"""
        if op["k"] not in ("copy", "move") or depth > 12:
            return None
        pl = op["pl"]
        names = [pr.get("n") for pr in pl["p"] if isinstance(pr, dict) and "f" in pr]
        if names and f.arg_names().get(pl["l"]) == "self":
            return ("field", names[0])
        if [pr for pr in pl["p"] if pr != "deref"]:
            return None
        l = pl["l"]
        ds = [d for d in exf.defs.get(l, []) if d[0] != "partial"]
        if len(ds) != 1:
            return ("local", l)
        kind, bi, si, x = ds[0]
        if kind == "rv":
            if x["k"] == "use":
                return root_of(f, exf, x["op"], depth + 1) or ("local", l)
            if x["k"] in ("ref", "rawptr"):
                return root_of(f, exf, {"k": "copy", "pl": x["pl"]}, depth + 1) or ("local", l)
            return ("local", l)
        if re.search(r"(^|::)clone$", x.get("callee", "")) and len(x["args"]) == 1:
            return root_of(f, exf, x["args"][0], depth + 1) or ("local", l)
        return ("local", l)
    for c in F.funcs.values():
        if c.kind == "closure" and worker.key in G.out.get(c.key, ()) and c.key.startswith(sqc):
            ex = Exprs(c)
            parent = F.funcs.get(c.key.rsplit("::{closure", 1)[0])
            exp_ = Exprs(parent) if parent else None
            cap = None          # upvar index -> captured expression in the parent
            fld = {}            # repr(expression) -> field name, from the `Self { .. }` aggregate of the parent
            if parent:
                for pb in parent.blocks:
                    for s2 in pb["stmts"]:
                        if s2["k"] == "assign" and s2["rv"]["k"] == "agg":
                            rv = s2["rv"]
                            if rv.get("ak") == "closure" and rv.get("closure") == c.key:
                                cap = [root_of(parent, exp_, o) for o in rv["ops"]]
                            elif rv.get("ak") == "adt" and rv.get("adt") == sqc_adt:
                                for fname, o in zip(rv["fields"], rv["ops"]):
                                    fld[root_of(parent, exp_, o)] = fname
            upidx = {n: i for i, n in c.upvar_names().items()}
            for bi, t in c.calls():
                if t["callee"] == worker.key:
                    nspawn_checked += 1
                    mism = []
                    for i, a in enumerate(t["args"]):
                        e = ex.operand(a)
                        want = wparams.get(i + 1)
                        if not (isinstance(e, tuple) and e[0] == "upvar" and cap is not None and e[1] in upidx):
                            mism.append("%s<-%s (not a captured value)" % (want, fmt(e)))
                            continue
                        src = cap[upidx[e[1]]]
                        if isinstance(src, tuple) and src[0] == "field":
                            got = src[1]
                        else:
                            got = fld.get(src)
                        if got is None:
                            continue        # not one of the compressor's shared fields (worker id, config copy)
                        if got != want:
                            mism.append("%s<-field %s" % (want, got))
                    rep.ob("C05-T4", "spawn closure %s hands every worker parameter the compressor field of the same name" % c.key, not mism,
                           detail="mismatches: %s" % mism, site=site_of(c, t),
                           key="C05-T4 | %s | worker arguments by name" % c.key)

    # ------------------------------------------------------------ T2 barrier counting in the worker loop
    g = cfg_of(worker)
    ex = Exprs(worker)
    waits = [bi for bi, t in worker.calls() if is_call(t, BARRIER_WAIT)]
    rep.floor("C05-T2", len(waits), 2, "Barrier::wait sites in the worker")
    WP = pipeline.WorkerPhases(F)
    if not WP.ok:
        rep.ob("C05-T2", "worker pulls inside a loop", False, key="C05-T2 | worker | pull loop")
        return
    outer, body, out_cnt, CAP = WP.outer, WP.body, WP.cnt_out, pipeline.CAP
    pulls = WP.pulls
    rep.floor("C05-T3", len(pulls), 1, "queue.pull() site in the worker")
    errb = error_blocks(worker)
    back = [(b, out_cnt.get(b, set())) for b in body if outer in g.succ[b]]
    counts_back = set().union(*[c for _, c in back]) if back else set()
    nz = sorted(c for c in counts_back if c)
    rep.stat("barrier_waits_per_round", nz)
    rep.ob("C05-T2", "every path round the worker loop passes 0 (contig) or one fixed number N of barrier waits",
           len(nz) == 1 and CAP not in nz,
           detail="possible wait counts at the loop back edges: %s" % sorted(counts_back),
           site="%s:%d" % (worker.file, worker.line_lo), key="C05-T2 | worker | constant waits per round")
    N = nz[0] if len(nz) == 1 else None
    # sync-token branch: paths that take the is_sync_token branch must have N waits, others 0:
    for b, cs in back:
        if len(cs) > 1:
            rep.ob("C05-T2", "back edge bb%d carries a single wait count" % b, False,
                   detail="counts %s: some path skips or repeats a barrier" % sorted(cs),
                   site=site_of(worker, worker.blocks[b]["term"]), key="C05-T2 | worker | mixed counts at back edge")
    # waits inside inner loops
    for w in waits:
        inner = [h for h in g.in_loop(w) if h != outer and h in body]
        rep.ob("C05-T2", "barrier wait bb%d is not inside an inner loop" % w, not inner,
               detail="inner loop heads %s" % inner, site=site_of(worker, worker.blocks[w]["term"]),
               key="C05-T2 | worker | wait#%d not in inner loop" % waits.index(w))
    # exits from the loop between first and last wait
    nexit = 0
    for b in body:
        for s in g.succ[b]:
            if s in body:
                continue
            cs = out_cnt.get(b, set())
            mid = [c for c in cs if N and 0 < c < N]
            nexit += 1
            if not mid:
                rep.ob("C05-T2", "loop exit bb%d->bb%d is outside a barrier round" % (b, s), True,
                       detail="counts %s" % sorted(cs), how="auto", key="C05-T2 | worker | exit@%s" % _exit_ctx(worker, b))
                continue
            # an exit in the middle of a round: only acceptable if it is the error edge of a `?`
            # whose operand cannot be Err
            why = "exit in the middle of a barrier round (after %s of %s waits): the other workers block forever" % (mid, N)
            ok = False
            for ts in try_sites(worker):
                if ts["err"] is not None and (b == ts["switch_block"] or b in errb) and g.dominates(ts["switch_block"], b):
                    src = _try_operand_call(worker, ts)
                    if src is not None:
                        callee = F.funcs.get(src["callee"])
                        if callee is not None and not may_return_err(F, callee):
                            ok = True
                            why = "error edge of `%s(..)?` but that callee has no Err return (checked on its body): vacuous" % callee.key
                        else:
                            why = "error edge of `%s(..)?` between barrier waits, and the callee may return Err" % src["callee"]
            rep.ob("C05-T2", "no early exit between the first and last barrier wait (bb%d)" % b, ok, detail=why,
                   site=site_of(worker, worker.blocks[b]["term"]), key="C05-T2 | worker | mid-round exit@%s" % _exit_ctx(worker, b))
    # no lock held across a barrier wait / pull
    LI = LockInfo(worker, ex)
    for w in waits + pulls:
        held = LI.held_locks_at(w)
        rep.ob("C05-T2", "no lock guard is live across blocking call bb%d (%s)" % (w, worker.blocks[w]["term"]["callee"].rsplit("::", 1)[-1]),
               not held, detail="held: %s" % sorted(held), site=site_of(worker, worker.blocks[w]["term"]),
               key="C05-T2 | worker | lock across %s#%d" % (worker.blocks[w]["term"]["callee"].rsplit("::", 1)[-1], (waits + pulls).index(w)))
    # T3 worker leaves only on pull()==None: every loop exit reachable without error edges is dominated by the
    # None arm of the pull result switch
    for b in body:
        for s in g.succ[b]:
            if s in body or b in errb:
                continue
            ok = _dominated_by_none_arm(worker, g, pulls[0], s) if pulls else False
            if not ok and any(ts["switch_block"] == b for ts in try_sites(worker)):
                continue  # error propagation exits are T2's business
            rep.ob("C05-T3", "worker leaves its loop only when pull() returned None (exit bb%d)" % b, ok,
                   site=site_of(worker, worker.blocks[b]["term"]), key="C05-T3 | worker | exit only on None@%s" % _exit_ctx(worker, b))

    # ------------------------------------------------------------ T3 shutdown order in finalize
    fin = F.funcs.get(sqc + "finalize")
    if rep.floor("C05-T3", 1 if fin else 0, 1, "finalize body"):
        gf = cfg_of(fin)
        closes = [bi for bi, t in fin.calls() if is_call(t, re.escape(QUEUE) + r"close$")]
        pushes = [bi for bi, t in fin.calls() if is_call(t, re.escape(QUEUE) + r"push$")]
        joins = [bi for bi, t in fin.calls() if is_call(t, pipeline.JOIN)]
        rep.floor("C05-T3", len(closes), 1, "queue.close() in finalize")
        rep.floor("C05-T3", len(joins), 1, "JoinHandle::join in finalize")
        rep.floor("C05-T3", len(pushes), 1, "final token push in finalize")
        if closes and joins and pushes:
            c = closes[0]
            # token loop completes before close: loop header dominates close and close not in loop
            L = [x for x in for_loops(fin) if pushes[0] in x["body"]]
            ok = bool(L) and c not in L[0]["body"] and gf.dominates(L[0]["head"], c)
            rep.ob("C05-T3", "finalize pushes the final tokens before closing the queue", ok,
                   site=site_of(fin, fin.blocks[c]["term"]), key="C05-T3 | finalize | tokens before close")
            after_close = gf.reachable_from(c)
            rep.ob("C05-T3", "no push after close in finalize", not any(p in after_close and p != c for p in pushes),
                   site=site_of(fin, fin.blocks[c]["term"]), key="C05-T3 | finalize | no push after close")
            for j in joins:
                rep.ob("C05-T3", "close() dominates join()", gf.dominates(c, j), site=site_of(fin, fin.blocks[j]["term"]),
                       key="C05-T3 | finalize | close before join")
                LJ = [x for x in for_loops(fin) if j in x["body"]]
                src = LJ[0]["source"] if LJ else None
                whole = LJ and contains(src, lambda x: isinstance(x, tuple) and x[0] == "field" and x[2] == "workers") and \
                    not contains(src, lambda x: isinstance(x, tuple) and x[0] == "call" and re.search(r"::(take|skip|step_by|filter|rev)$", x[1]))
                rep.ob("C05-T3", "every stored JoinHandle is joined (loop over the whole workers vector)", bool(whole),
                       detail="iterator source: %s" % fmt(src), site=site_of(fin, fin.blocks[j]["term"]),
                       key="C05-T3 | finalize | join all")
            # everything after the joins that returns Ok must come after all joins: join loop dominates Ok return
            # (covered by C15-E2)

    # ------------------------------------------------------------ T4 lock order
    roots = roots_prod + [worker.key]
    reach = G.reachable(roots)
    reach = {k for k in reach if "streaming_compressor_queue_legacy" not in k}
    rep.stat("bodies_in_lock_analysis", len(reach))
    ctxs, site_ctx = pipeline.contexts(F, G, WP)
    LIs = {}
    own_acq = {}
    for k in sorted(reach):
        f = F.funcs[k]
        if not any(LOCK_CALL.search(t["callee"]) for _, t in f.calls()):
            own_acq[k] = set()
            continue
        li = LockInfo(f)
        LIs[k] = li
        own_acq[k] = {_canon(f, x) for x in li.all_acquired()}
    trans = {k: set(v) for k, v in own_acq.items()}
    changed = True
    while changed:
        changed = False
        for k in reach:
            for c in G.out.get(k, ()):
                if c in trans and not trans[c] <= trans[k]:
                    trans[k] |= trans[c]
                    changed = True
    edges = {}    # (held, acquired) -> list of (function, site, contexts)
    nacq = 0
    for k, li in LIs.items():
        f = F.funcs[k]
        for bi, t in f.calls():
            held = {_canon(f, h) for h in li.held_locks_at(bi)}
            cx = site_ctx(k, bi)
            if LOCK_CALL.search(t["callee"]):
                nacq += 1
                new = _canon(f, li.acquired_at(bi))
                for h in held:
                    edges.setdefault((h, new), []).append((k, site_of(f, t), cx))
            elif t["callee"] in trans and held:
                for new in trans[t["callee"]]:
                    for h in held:
                        edges.setdefault((h, new), []).append((k, site_of(f, t) + " via " + t["callee"].rsplit("::", 1)[-1], cx))
    rep.stat("lock_acquisition_sites", nacq)
    rep.stat("lock_order_edges", sorted("%s -> %s [%s]" % (a, b, ",".join(sorted(set().union(*[x[2] for x in v]))))
                                        for (a, b), v in edges.items()))
    rep.floor("C05-T4", nacq, 40, "lock acquisition sites in pipeline-reachable bodies")
    cyc = _find_cycles(edges)
    ncyc_benign = 0
    for c in cyc:
        pairs = list(zip(c, c[1:] + c[:1]))
        ctxsets = [sorted(set().union(*[x[2] for x in edges[p]])) for p in pairs]
        danger = _concurrent_assignment(ctxsets, selfloop=(len(c) == 1))
        wit = "; ".join("%s->%s at %s [%s]" % (a, b, edges[(a, b)][0][1], ",".join(cs)) for (a, b), cs in zip(pairs, ctxsets))
        if danger:
            rep.ob("C05-T4", "lock order cycle %s between code that can run concurrently" % " -> ".join(c + [c[0]]), False,
                   detail=wit + "; concurrent contexts: %s" % (danger,), site=edges[pairs[0]][0][1],
                   key="C05-T4 | cycle | " + " -> ".join(sorted(c)))
        else:
            ncyc_benign += 1
            rep.ob("C05-T4", "lock order reversal %s only between phases that never run concurrently" % " -> ".join(c + [c[0]]),
                   True, detail=wit, key="C05-T4 | phase-separated reversal | " + " -> ".join(sorted(c)))
    rep.ob("C05-T4", "lock-order graph over %d bodies has no cycle between concurrent contexts (%d edges, %d phase-separated reversals)"
           % (len(reach), len(edges), ncyc_benign), not any(not o["ok"] and o["rule"] == "C05-T4" and "cycle" in o["key"] for o in rep.obligations),
           detail="edges: " + ", ".join(sorted("%s->%s" % e for e in edges))[:1500], key="C05-T4 | graph | acyclic")
    # blocking under a lock the other side needs
    worker_reach = G.reachable([worker.key])
    worker_locks = set().union(*[trans.get(k, set()) for k in worker_reach]) if worker_reach else set()
    BLOCKING = re.compile(re.escape(QUEUE) + r"(push|pull)$|" + BARRIER_WAIT + r"|" + pipeline.JOIN + r"|std::thread::(functions::)?sleep$")
    nblk = 0
    for k in sorted(reach):
        f = F.funcs[k]
        li = LIs.get(k)
        for bi, t in f.calls():
            if not BLOCKING.search(t["callee"]):
                continue
            nblk += 1
            held = {_canon(f, h) for h in li.held_locks_at(bi)} if li else set()
            inworker = k in worker_reach
            bad = held if inworker else (held & worker_locks)
            rep.ob("C05-T4", "blocking call %s in %s holds no lock the other side needs" % (t["callee"].rsplit("::", 1)[-1], k),
                   not bad, detail="held: %s; conflicting: %s" % (sorted(held), sorted(bad)), site=site_of(f, t),
                   key="C05-T4 | %s | blocking %s under lock" % (k, t["callee"].rsplit("::", 1)[-1]))
    rep.floor("C05-T4", nblk, 8, "blocking call sites (push/pull/barrier/join/sleep)")

    # ------------------------------------------------------------ T5 condvar waits can be ended by the other side
    t5(F, rep)
    # ------------------------------------------------------------ T7: what a polling loop of the producer observes reaches its exit value
    # drain / sync_and_flush poll `while queue.<observer>() > 0 { sleep }`.  The observed counter is lowered either by
    # pulling itself (len, current_size) - then workers that keep pulling end the loop - or by a separate completion call
    # (task_done style); in that case every path of the worker loop from a pulled item back to the next pull must make that
    # call, for contigs and synchronisation tokens alike, or the counter never returns to 0.
    t7_rule(F, rep, G, worker)

    # ------------------------------------------------------------ T6 wake-ups are not lost (= C06-Q4/Q5)
    import rules.c06 as c06
    sub = type(rep)(rep.pid, rep.tier)
    c06.run(F, sub)
    n6 = 0
    for o in sub.obligations:
        if o["rule"] in ("C06-Q4", "C06-Q5"):
            n6 += 1
            rep.ob("C05-T6", o["instance"], o["ok"], detail=o["detail"], site=o["site"], key=o["key"].replace("C06-", "C05-T6/"))
    rep.floor("C05-T6", n6, 6, "wait / notify obligations of the queue")
    # ------------------------------------------------------------ T8 the byte counter returns to what is queued (= C06-Q2)
    # push waits on `bytes queued`: if a removal subtracts anything but what the insert added (a narrowed copy of the size,
    # a different field), the counter drifts and a later push into an empty queue waits with nobody left to wake it
    n8 = 0
    for o in sub.obligations:
        if o["rule"] == "C06-Q2":
            n8 += 1
            rep.ob("C05-T8", o["instance"], o["ok"], detail=o["detail"], site=o["site"], key=o["key"].replace("C06-Q2", "C05-T8"))
    rep.floor("C05-T8", n8, 4, "byte-accounting obligations of the queue")


def t5(F, rep):
    import rules.c06 as c06
    R = c06.discover(F)
    if not R:
        rep.floor("C05-T5", 0, 1, "monitor type")
        return
    outer = R["outer"]
    ops = [f for f in F.funcs.values() if f.d.get("container", "").startswith(outer) and f.kind == "assocfn"]
    nw = 0
    for f in ops:
        g = cfg_of(f)
        ex = Exprs(f)
        for bi, t in f.calls():
            if not re.search(r"Condvar::wait", t["callee"]):
                continue
            nw += 1
            heads = g.in_loop(bi)
            if not heads:
                continue  # C06-Q4 reports it
            h = heads[-1]
            # admission checks that dominate the loop (conditions established before the loop)
            pre = []
            # paths head -> wait block: the continuation conjunction(s)
            paths = enumerate_paths(f, max_back=0, start=h, ends=[bi])
            for pi, p in enumerate(paths):
                evs = path_events(f, p, ex, lambda t, ex: None, None)
                conj = [e for e in evs if e.kind == "cond" and cond_truth(e) is not None]
                ok = False
                reasons = []
                for e in conj:
                    verdict = _falsifiable_by_other_side(e, R, f, ex)
                    reasons.append("%s=%s: %s" % (fmt(e.data[0]), c06._truth(e), verdict))
                    if verdict.startswith("yes"):
                        ok = True
                rep.ob("C05-T5", "%s: the wait's continuation predicate can be falsified by the other side alone" % f.key.rsplit("::", 1)[-1],
                       ok, detail="; ".join(reasons), site=site_of(f, t),
                       key="C05-T5 | %s | wait predicate falsifiable" % f.key)
    rep.floor("C05-T5", nw, 2, "Condvar::wait sites")


def _falsifiable_by_other_side(ev, R, f, ex):
    import rules.c06 as c06
    truth = c06._truth(ev)
    e, _ = c06._strip_not(ev.data[0])
    has_field = lambda x, n: contains(x, lambda y: isinstance(y, tuple) and y[0] == "field" and y[2] == n)
    if isinstance(e, tuple) and e[0] == "call" and e[1].endswith("::is_empty") and has_field(e, R["heap"]):
        # continue-while-empty: any insert falsifies it; continue-while-non-empty: draining falsifies it
        return "yes: reads only the heap, which the opposite operation changes"
    if isinstance(e, tuple) and e[0] == "field" and e[2] == R["closed"]:
        return "no: only close() changes it"
    if isinstance(e, tuple) and e[0] == "bin" and e[1] in ("Lt", "Le"):
        # which params does it read?
        params = [x for x in walk(e) if isinstance(x, tuple) and x[0] == "param" and x[1] != "self"]
        reads_size = has_field(e, R["size"])
        if reads_size and not params:
            return "yes: reads only queue state the opposite operation changes"
        if reads_size and params:
            # drained state: current_size = 0.  the predicate must be false then for every parameter value,
            # unless a dominating admission check bounds the parameter.
            sizep = params[0]
            a, b = c06._linear(e[2], R, sizep), c06._linear(e[3], R, sizep)
            if a is None or b is None:
                return "no: undecidable construct in predicate"
            d = dict(a)
            for k, v in b.items():
                d[k] = d.get(k, 0) - v
            op = e[1]
            if not truth:
                d = {k: -v for k, v in d.items()}
                op = "Le" if op == "Lt" else "Lt"
            # d (op) 0 is the continue condition.  with cur := 0:
            d0 = {k: v for k, v in d.items() if k != "cur" and v}
            # continue condition e.g. cap - size < 0  (size > cap): satisfiable for large parameter
            if d0.get("size", 0) == 0:
                return "yes: independent of the parameter once the queue is drained"
            if _bounded_by_admission_check(f, ex, R, sizep):
                return "yes: parameter bounded by a dominating admission check"
            return ("no: with the queue drained (%s = 0) the predicate still holds for a parameter larger than %s, "
                    "so no pull can end the wait" % (R["size"], R["cap"]))
    return "no: not recognised as state changed by the opposite operation"


def _bounded_by_admission_check(f, ex, R, sizep):
    """an early `if size > capacity { return Err }` before the wait loop"""
    import rules.c06 as c06
    g = cfg_of(f)
    for bi, b in enumerate(f.blocks):
        t = b["term"]
        if t["k"] != "switch" or g.in_loop(bi):
            continue
        e, _ = c06._strip_not(ex.operand(t["discr"]))
        if isinstance(e, tuple) and e[0] == "bin" and e[1] in ("Lt", "Le"):
            a, b2 = c06._linear(e[2], R, sizep), c06._linear(e[3], R, sizep)
            if a is None or b2 is None:
                continue
            d = dict(a)
            for k, v in b2.items():
                d[k] = d.get(k, 0) - v
            d = {k: v for k, v in d.items() if v and k != "k"}
            if set(d) == {"size", "cap"} and d["size"] * d["cap"] < 0:
                # one arm must leave the function without reaching a wait
                for v, tb in t["targets"] + [[None, t["otherwise"]]]:
                    r = g.reachable_from(tb)
                    if not any(re.search(r"Condvar::wait", f.blocks[x]["term"].get("callee", "")) for x in r if f.blocks[x]["term"]["k"] == "call"):
                        return True
    return False


# ---------------------------------------------------------------- helpers
def _rng(L):
    if not L or not L.get("range"):
        return "not a range loop (%s)" % (fmt(L["source"]) if L else "-")
    return "%s..%s" % (fmt(L["range"][0]), fmt(L["range"][1]))


def _tok_ctx(item):
    d = dict(item[2])
    pr = d.get("sample_priority")
    return "priority=" + fmt(pr)


def _exit_ctx(func, b):
    t = func.blocks[b]["term"]
    if t["k"] == "switch":
        return "switch"
    if t["k"] == "call":
        return "call " + t.get("callee", "?").rsplit("::", 1)[-1]
    return t["k"]


def _try_operand_call(func, ts):
    """the call whose Result feeds this `?` (directly)"""
    arg = ts["term"]["args"][0]
    if arg["k"] not in ("move", "copy") or arg["pl"]["p"]:
        return None
    l = arg["pl"]["l"]
    for bi, t in func.calls():
        if t["dest"]["l"] == l and not t["dest"]["p"]:
            return t
    return None


def _dominated_by_none_arm(func, g, pull_block, b):
    t = func.blocks[pull_block]["term"]
    dest = t["dest"]["l"]
    # find switch on discriminant(dest)
    nb = t["t"]
    hops = 0
    while nb is not None and hops < 4:
        sw = func.blocks[nb]["term"]
        if sw["k"] == "switch":
            none_arm = [tb for v, tb in sw["targets"] if v == 0]
            if not none_arm and [v for v, _ in sw["targets"]] == [1]:
                none_arm = [sw["otherwise"]]
            if none_arm:
                return g.dominates(none_arm[0], b)
            return False
        ss = succs(sw)
        nb = ss[0] if len(ss) == 1 else None
        hops += 1
    return False


def _canon(f, lid):
    """canonical lock name: strip `self.` of compressor methods so that fields and same-named worker
    parameters unify; qualify `self.x` of helper types by the type"""
    if lid.startswith("self."):
        cont = f.d.get("container") or (f.root and "")
        owner = ""
        k = f.key if f.kind != "closure" else (f.root or f.key)
        m = re.match(r"(.*)::[^:]+$", k)
        owner = m.group(1) if m else k
        if owner.endswith("StreamingQueueCompressor"):
            return lid[5:]
        return owner.rsplit("::", 1)[-1] + "." + lid[5:]
    return lid


def _concurrent_assignment(ctxsets, selfloop=False):
    """pick one context per edge such that all picked contexts are pairwise concurrent
    (each edge is a different thread holding one lock and waiting for the next)"""
    import itertools
    if selfloop:
        for c in ctxsets[0]:
            if pipeline.concurrent(c, c):
                return (c, c)
        return None
    for combo in itertools.product(*ctxsets):
        if all(pipeline.concurrent(a, b) for a, b in itertools.combinations(combo, 2)):
            return combo
    return None


def _find_cycles(edges):
    adj = {}
    for (a, b) in edges:
        adj.setdefault(a, set()).add(b)
    cycles = []
    # self loops
    for (a, b) in edges:
        if a == b:
            cycles.append([a])
    # Tarjan SCC
    index = {}
    low = {}
    stack = []
    on = set()
    idx = [0]
    sccs = []

    def strong(v):
        index[v] = low[v] = idx[0]
        idx[0] += 1
        stack.append(v)
        on.add(v)
        for w in adj.get(v, ()):
            if w not in index:
                strong(w)
                low[v] = min(low[v], low[w])
            elif w in on:
                low[v] = min(low[v], index[w])
        if low[v] == index[v]:
            comp = []
            while True:
                w = stack.pop()
                on.discard(w)
                comp.append(w)
                if w == v:
                    break
            if len(comp) > 1:
                sccs.append(comp)
    import sys
    sys.setrecursionlimit(10000)
    nodes = set(adj) | {b for bs in adj.values() for b in bs}
    for v in sorted(nodes):
        if v not in index:
            strong(v)
    for comp in sccs:
        # extract one concrete cycle inside the SCC
        comp_set = set(comp)
        start = sorted(comp)[0]
        path = [start]
        seen = {start}
        cur = start
        while True:
            nxts = [w for w in sorted(adj.get(cur, ())) if w in comp_set]
            nxt = None
            for w in nxts:
                if w == start and len(path) > 1:
                    nxt = w
                    break
            if nxt is None:
                for w in nxts:
                    if w not in seen:
                        nxt = w
                        break
            if nxt is None:
                nxt = nxts[0] if nxts else start
            if nxt == start or nxt in seen:
                if nxt != start and nxt in path:
                    path = path[path.index(nxt):]
                break
            path.append(nxt)
            seen.add(nxt)
            cur = nxt
        cycles.append(path)
    return cycles


def _bulk_shape(F, q):
    """a queue method of the shape `for _ in 0..count { heap.push(Wrapper { item: item.clone(), size: S }) }`:
    returns the names of the item and count parameters and what was found, or None"""
    from expr import strip_tags
    ex = Exprs(q)
    g = cfg_of(q)
    for L in for_loops(q, ex):
        pushes = [(bi, t) for bi, t in q.calls() if bi in L["body"] and not t.get("indirect") and re.search(r"BinaryHeap::<T(, A)?>::push$", t["callee"])]
        if not pushes or not L.get("range"):
            continue
        lo, hi = strip_tags(L["range"][0]), strip_tags(L["range"][1])
        if lo != ("const", 0) or not (isinstance(hi, tuple) and hi[0] == "param"):
            continue
        agg = strip_tags(ex.operand(pushes[0][1]["args"][1]))
        if not (isinstance(agg, tuple) and agg[0] == "agg"):
            continue
        flds = dict(agg[2])
        item = size = None
        for fname, v in flds.items():
            if isinstance(v, tuple) and v[0] == "call" and re.search(r"Clone(>)?::clone$", v[1]) and v[2]:
                ps = [x for x in walk(v[2][0]) if isinstance(x, tuple) and x[0] == "param"]
                if ps:
                    item = ps[0][1]
            elif isinstance(v, tuple) and v[0] == "param":
                item = item or v[1]
            if isinstance(v, tuple) and v[0] == "const" and isinstance(v[1], int):
                size = v[1]
        if item is None:
            continue
        tails = [x for x in L["body"] if L["head"] in g.succ[x]]
        dom_ok = all(any(g.dominates(p, x) for p, _ in pushes) for x in tails)
        exits = {(b, s2) for b in L["body"] for s2 in g.succ[b] if s2 not in L["body"] and not q.blocks[s2]["cleanup"]}
        return {"item": item, "count": hi[1], "size": size, "size0": size == 0, "one_per_iter": len(pushes) == 1 and dom_ok and len(exits) == 1,
                "why": "%d heap push(es) per iteration, push dominates the back edge: %s, %d exit edge(s)" % (len(pushes), dom_ok, len(exits))}
    return None


def t7_rule(F, rep, G, worker):
    import rules.c06 as c06
    from expr import strip_tags
    R = c06.discover(F)
    if not R:
        return
    inner = R["inner"]
    ops = {f.key.rsplit("::", 1)[-1]: f for f in F.funcs.values() if f.d.get("container", "").startswith(R["outer"]) and f.kind == "assocfn" and not f.d.get("trait")}
    # per operation: which state fields it returns / lowers / raises
    def field_writes(f):
        ex = Exprs(f)
        out = []
        for b in f.blocks:
            for s_ in b["stmts"]:
                if s_["k"] == "assign" and s_["pl"]["p"]:
                    last = s_["pl"]["p"][-1]
                    if isinstance(last, dict) and last.get("adt") == inner:
                        e = strip_tags(ex.rvalue(s_["rv"]))
                        kind = "set"
                        if isinstance(e, tuple) and e[0] == "bin" and e[1] in ("Sub", "SubWithOverflow"):
                            kind = "down"
                        elif isinstance(e, tuple) and e[0] == "bin" and e[1] in ("Add", "AddWithOverflow"):
                            kind = "up"
                        elif isinstance(e, tuple) and e[0] == "field" and e[2] == "0" and "WithOverflow" in repr(e):
                            kind = "down" if "Sub" in repr(e) else "up"
                        out.append((last["n"], kind))
        return out
    writes = {n: field_writes(f) for n, f in ops.items()}
    def observed(f):
        ex = Exprs(f)
        flds = set()
        for b in f.blocks:
            for s_ in b["stmts"]:
                if s_["k"] == "assign" and s_["pl"]["l"] == 0 and not s_["pl"]["p"]:
                    for x in walk(ex.rvalue(s_["rv"])):
                        if isinstance(x, tuple) and x[0] == "field" and isinstance(x[2], str):
                            flds.add(x[2])
            t = b["term"]
            if t["k"] == "call" and t["dest"]["l"] == 0 and not t["dest"]["p"]:
                for x in walk(ex.call(t)):
                    if isinstance(x, tuple) and x[0] == "field" and isinstance(x[2], str):
                        flds.add(x[2])
        return flds
    sqc = pipeline.SQC
    n = 0
    for k, f in sorted(F.funcs.items()):
        if not k.startswith(sqc):
            continue
        g = cfg_of(f)
        ex = None
        for h, body in g.loops():
            if not any(is_call(f.blocks[b]["term"], r"std::thread::(functions::)?sleep$") for b in body):
                continue
            ex = ex or Exprs(f)
            for b in body:
                t = f.blocks[b]["term"]
                if t["k"] != "switch" or not any(s2 not in body for s2 in g.succ[b]):
                    continue
                e = strip_tags(ex.operand(t["discr"]))
                obs = [x[1].rsplit("::", 1)[-1] for x in walk(e) if isinstance(x, tuple) and x[0] == "call" and x[1].startswith(QUEUE)]
                for o in obs:
                    if o not in ops:
                        continue
                    n += 1
                    flds = observed(ops[o]) & {fl["name"] for fl in R["inner_adt"]["variants"][0]["fields"]}
                    # the heap counts as lowered by the removing operations
                    lowered_by = set()
                    for opn, ws in writes.items():
                        for fld, kind in ws:
                            if fld in flds and kind == "down":
                                lowered_by.add(opn)
                    if R["heap"] in flds:
                        lowered_by |= {opn for opn, fo in ops.items() if any(not t2.get("indirect") and re.search(r"BinaryHeap::<T(, A)?>::pop$", t2["callee"]) for _, t2 in fo.calls())}
                    pulling = {opn for opn in lowered_by if any(not t2.get("indirect") and re.search(r"BinaryHeap::<T(, A)?>::pop$", t2["callee"]) for _, t2 in ops[opn].calls())}
                    ok, why = True, "observes %s, lowered by pulling itself (%s)" % (sorted(flds), sorted(pulling))
                    if not lowered_by:
                        ok, why = False, "observes %s, which no queue operation ever lowers" % sorted(flds)
                    elif not pulling:
                        # a separate completion call: every worker path from a pulled item to the next pull must make it
                        gw = cfg_of(worker)
                        done = {bi for bi, t2 in worker.calls() if not t2.get("indirect") and t2["callee"] in {QUEUE + d for d in lowered_by}}
                        pulls = [bi for bi, t2 in worker.calls() if not t2.get("indirect") and t2["callee"] == QUEUE + "pull"]
                        bad = None
                        for pb in pulls:
                            start = worker.blocks[pb]["term"].get("t")
                            seen, st = set(), [start]
                            while st:
                                x = st.pop()
                                if x in seen or x in done or x is None or worker.blocks[x]["cleanup"]:
                                    continue
                                seen.add(x)
                                for s2 in gw.succ[x]:
                                    if s2 == pb and x != pb:
                                        bad = x
                                    st.append(s2)
                                tx = worker.blocks[x]["term"]
                                if tx["k"] == "return":
                                    pass
                        ok = bad is None and bool(pulls)
                        why = "observes %s, lowered only by %s; %s" % (sorted(flds), sorted(lowered_by),
                                                                     "every worker path from a pulled item to the next pull calls it" if ok else
                                                                     "the worker reaches its next pull from %s without calling it (e.g. the synchronisation-token branch): the counter never returns to 0 and the loop never ends" % site_of(worker, worker.blocks[bad]["term"]))
                    rep.ob("C05-T7", "%s: the polling loop on %s() ends once the workers have taken what was queued" % (k.rsplit("::", 1)[-1], o), ok, detail=why,
                           site=site_of(f, t), key="C05-T7 | %s | %s" % (k, o))
    rep.floor("C05-T7", n, 2, "producer polling loops (drain, sync_and_flush)")


def token_tag_fields(F, worker):
    """(set of field names of the queued item that the worker's token test reads, description) - found from the conditions
    that dominate the worker's first barrier wait and mention the pulled item; a test made through a method of the item is
    followed into that method's body."""
    import pipeline as pl
    from mirutil import dominating_conds
    WP = pl.WorkerPhases(F)
    if not getattr(WP, "ok", False) or not WP.waits:
        return None
    ex = Exprs(worker)
    g = cfg_of(worker)
    w0 = [w for w in sorted(WP.waits) if all(g.dominates(w, x) or w == x for x in WP.waits)]
    w0 = w0[0] if w0 else sorted(WP.waits)[0]

    def is_item(e):
        return isinstance(e, tuple) and e[0] == "field" and e[2] == "0" and isinstance(e[1], tuple) and e[1][0] == "variant" and \
            isinstance(e[1][1], tuple) and e[1][1][0] == "call" and e[1][1][1].endswith("::pull")
    names, how = set(), []
    for c in dominating_conds(worker, w0, ex):
        e = c[0]
        for x in walk(e):
            if isinstance(x, tuple) and x[0] == "field" and is_item(x[1]):
                names.add(x[2])
                how.append("field %s" % x[2])
            if isinstance(x, tuple) and x[0] == "call" and x[1] in F.funcs and any(is_item(a) or any(is_item(y) for y in walk(a)) for a in x[2]):
                q = F.funcs[x[1]]
                exq = Exprs(q)
                selfn = [nm for l, nm in sorted(q.arg_names().items())][:1]
                for b in q.blocks:
                    rets = [exq.rvalue(s_["rv"]) for s_ in b["stmts"] if s_["k"] == "assign" and s_["pl"]["l"] == 0 and not s_["pl"]["p"]]
                    if b["term"]["k"] == "call" and b["term"]["dest"]["l"] == 0 and not b["term"]["dest"]["p"]:
                        rets.append(exq.call(b["term"]))
                    for r in rets:
                        for y in walk(r):
                            if isinstance(y, tuple) and y[0] == "field" and isinstance(y[2], str) and any(isinstance(z, tuple) and z[0] == "param" and z[1] in selfn for z in walk(y[1])):
                                names.add(y[2])
                                how.append("%s reads %s" % (q.key.rsplit("::", 1)[-1], y[2]))
    return names, "; ".join(sorted(set(how)))
