"""C06 — bounded priority queue: monitor discipline (DESIGN 4/C06, rules Q1..Q8).

The queue is a single-mutex monitor.  With mutual exclusion given by std's Mutex
each operation is atomic except at Condvar::wait, so exactly-once, priority order,
the capacity bound and close semantics reduce to path facts of the critical
sections.  All roles (which ADT is the monitor state, which field is the heap, the
byte counter, the closed flag, which condvar wakes whom) are discovered from types
and behaviour, not from names.
"""
import re

from cfg import cfg_of
from expr import Exprs, fmt, walk, contains, strip_tags
from mirutil import for_loops
from paths import enumerate_paths, path_events, cond_truth, feasible
from framework import site_of

EXPLANATION = (
    "Static monitor-discipline analysis of the bounded priority queue: every path (loops taken 0 and 1 times) "
    "of every operation of the monitor type is enumerated from the MIR and checked for paired byte accounting "
    "(Q2), exactly-one insert/removal per successful call (Q3), re-tested waits (Q4), wake-ups on the right "
    "condition variable (Q5), close semantics (Q6), ordering delegated to the item's Ord through BinaryHeap "
    "(Q7), admission dominated by the capacity test (Q8) and encapsulation of the monitor state (Q1). "
    "Decides these structural conditions, which together with the Mutex/Condvar contract imply the property; "
    "it does not execute the queue.  (Q9) Clone::clone builds the new handle field by field from the fields of the same name, so every handle shares one mutex, the same two condition variables and the capacity.  A bulk insert of zero-size items is an inserting operation like the others and must wake every consumer (notify_all or one notify per insert).")
UNDECIDED = "linearizability as such (follows from Q1-Q8 plus the std Mutex/Condvar/BinaryHeap contracts)"


def _ty_head(t):
    return t.split("<", 1)[0]


def discover(F):
    """find the monitor: outer ADT with Arc<Mutex<Inner>> + 2 condvars + usize capacity"""
    for key, adt in F.adts.items():
        if not key.startswith("ragc_core::") or adt["kind"] != "Struct":
            continue
        fields = adt["variants"][0]["fields"]
        cvs = [f for f in fields if "Condvar" in f["ty"]]
        mx = [f for f in fields if "Mutex<" in f["ty"]]
        caps = [f for f in fields if f["ty"] == "usize"]
        if len(cvs) == 2 and len(mx) == 1 and len(caps) == 1:
            m = re.search(r"Mutex<([A-Za-z0-9_:]+)", mx[0]["ty"])
            inner = F.adts.get(m.group(1)) if m else None
            if not inner:
                continue
            ifs = inner["variants"][0]["fields"]
            heap = [f for f in ifs if "BinaryHeap<" in f["ty"]]
            size = [f for f in ifs if f["ty"] == "usize"]
            closed = [f for f in ifs if f["ty"] == "bool"]
            if len(heap) == 1 and len(size) > 1 and len(closed) == 1:
                # several counters in the state: the byte count is the one that is compared with the capacity
                score = {}
                for f in F.funcs.values():
                    if not f.d.get("container", "").startswith(key):
                        continue
                    exd = Exprs(f)
                    for b in f.blocks:
                        t = b["term"]
                        if t["k"] != "switch":
                            continue
                        ce = exd.operand(t["discr"])
                        has_cap = contains(ce, lambda x: isinstance(x, tuple) and x[0] == "field" and x[2] == caps[0]["name"])
                        for fld in size:
                            if has_cap and contains(ce, lambda x, n=fld["name"]: isinstance(x, tuple) and x[0] == "field" and x[2] == n):
                                score[fld["name"]] = score.get(fld["name"], 0) + 1
                best = sorted(score.items(), key=lambda kv: -kv[1])
                if best and (len(best) == 1 or best[0][1] > best[1][1]):
                    size = [fld for fld in size if fld["name"] == best[0][0]]
            if len(heap) == 1 and len(size) == 1 and len(closed) == 1:
                m2 = re.search(r"BinaryHeap<([A-Za-z0-9_:]+)", heap[0]["ty"])
                wrap = F.adts.get(m2.group(1)) if m2 else None
                return {
                    "outer": key, "outer_adt": adt, "inner": inner["key"], "inner_adt": inner,
                    "mutex": mx[0]["name"], "cap": caps[0]["name"], "cvs": [c["name"] for c in cvs],
                    "heap": heap[0]["name"], "heap_ty": heap[0]["ty"], "size": size[0]["name"],
                    "closed": closed[0]["name"], "wrap": wrap,
                }
    return None


def run(F, rep):
    rep.explanation = EXPLANATION
    rep.undecided = UNDECIDED
    rep.assumptions = ["std::sync::Mutex gives mutual exclusion; Condvar::wait atomically releases and re-acquires",
                       "BinaryHeap::pop returns a maximum under the element's Ord",
                       "nightly rustc MIR (mir-opt-level=0) is faithful to the stable build"]
    R = discover(F)
    if not rep.floor("C06-ANCHOR", 1 if R else 0, 1, "monitor type (Mutex<state> + two Condvars + capacity)"):
        return
    outer, inner = R["outer"], R["inner"]
    wrap = R["wrap"]
    wf_item = wf_size = None
    if wrap:
        for f in wrap["variants"][0]["fields"]:
            if f["ty"] == "usize":
                wf_size = f["name"]
            else:
                wf_item = f["name"]
    ops = [f for f in F.funcs.values() if f.d.get("container", "").startswith(outer) and f.kind == "assocfn"
           and not f.d.get("trait")]
    opn = {f.key.rsplit("::", 1)[-1]: f for f in ops}
    rep.stat("operations", sorted(opn))

    # ------------------------------------------------------------ Q1 encapsulation
    inner_adt, outer_adt = R["inner_adt"], R["outer_adt"]
    rep.ob("C06-Q1", "monitor state type %s is private" % inner, not inner_adt["pub"], how="trivial")
    for f in outer_adt["variants"][0]["fields"]:
        rep.ob("C06-Q1", "field %s.%s is private" % (outer, f["name"]), not f["pub"], how="trivial",
               detail="a public field would let callers bypass the monitor")
    module = outer.rsplit("::", 1)[0]
    touch = 0
    for f in F.funcs.values():
        for b in f.blocks:
            hit = False
            for s in b["stmts"]:
                if s["k"] != "assign":
                    continue
                for pl in _places_of_stmt(s):
                    if any(isinstance(p, dict) and p.get("adt") == inner for p in pl["p"]):
                        hit = s
            if hit:
                touch += 1
                rep.ob("C06-Q1", "access to %s fields in %s" % (inner.rsplit("::", 1)[-1], f.key),
                       f.key.startswith(module + "::") or f.key.startswith("<" + module + "::"),
                       detail="monitor state may only be touched inside its module", site=site_of(f, hit),
                       key="C06-Q1 | state access | " + f.key)
                break
    rep.floor("C06-Q1", touch, 5, "bodies that project into the monitor state")
    unsafe_free = True  # MIR carries no unsafe marker; raw pointer derefs in the module would show as rawptr rvalues
    for f in ops:
        for b in f.blocks:
            for s in b["stmts"]:
                if s["k"] == "assign" and s["rv"]["k"] == "rawptr":
                    unsafe_free = False
    rep.ob("C06-Q1", "no raw-pointer access in queue operations", unsafe_free)

    # ------------------------------------------------------------ Q9: a cloned handle is the same monitor
    # Handles are cloned across threads; every handle must refer to the same mutex, the same two condition variables and the
    # same capacity.  In Clone::clone each field of the result comes from the field of the same name (a slip such as
    # `not_empty: self.not_full.clone()` leaves consumers parked on a condvar nobody notifies).
    for f in F.funcs.values():
        if f.d.get("trait") == "core::clone::Clone" and f.key.endswith("::clone") and (f.d.get("self_ty", "").startswith(outer) or f.d.get("container", "").find(outer.rsplit("::", 1)[-1]) >= 0):
            exc = Exprs(f)
            agg = None
            for b in f.blocks:
                for s_ in b["stmts"]:
                    if s_["k"] == "assign" and s_["rv"]["k"] == "agg" and s_["rv"].get("adt") == outer:
                        agg = s_["rv"]
            if agg is None:
                rep.ob("C06-Q9", "Clone for the queue builds the handle field by field", False, site="%s:%d" % (f.file, f.line_lo), key="C06-Q9 | clone | aggregate")
                continue
            bad = []
            for fname, op in zip(agg["fields"], agg["ops"]):
                e = exc.operand(op)
                srcs = {x[2] for x in walk(e) if isinstance(x, tuple) and x[0] == "field" and isinstance(x[2], str) and x[1] == ("param", "self")}
                if srcs != {fname}:
                    bad.append("%s <- %s" % (fname, sorted(srcs) or fmt(e)[:40]))
            rep.ob("C06-Q9", "a cloned handle shares every part of the monitor: each field is cloned from the field of the same name", not bad,
                   detail="; ".join(bad) if bad else "%d fields" % len(agg["fields"]), site="%s:%d" % (f.file, f.line_lo), key="C06-Q9 | clone | field-wise")

    # ------------------------------------------------------------ classify events
    def ccall(t, ex):
        c = t["callee"]
        args = [ex.operand(a) for a in t["args"]]
        if c.endswith("BinaryHeap::<T, A>::push") or c.endswith("BinaryHeap::<T>::push"):
            return ("heap_push", args)
        if re.search(r"BinaryHeap::<T(, A)?>::pop$", c):
            return ("heap_pop", (args, t["dest"]["l"]))
        if re.search(r"BinaryHeap::<T(, A)?>::(clear|drain|retain|append|extend|into_vec|into_sorted_vec|peek_mut)", c) or \
                (re.search(r"BinaryHeap", t.get("callee_disp", "")) and re.search(r"::(extend|from_iter)$", c)):
            return ("heap_other", c)
        if c.endswith("Condvar::wait") or re.search(r"Condvar::wait(_while|_timeout|_timeout_while)?$", c):
            return ("wait", (c, args[0] if args else None))
        if c.endswith("Condvar::notify_one"):
            return ("notify_one", args[0])
        if c.endswith("Condvar::notify_all"):
            return ("notify_all", args[0])
        if c.endswith("Mutex::<T>::lock"):
            return ("lock", args[0])
        return None

    def cassign(s, ex):
        pl = s["pl"]
        last = pl["p"][-1] if pl["p"] else None
        if isinstance(last, dict) and last.get("adt") == inner:
            return ("write_" + last["n"], ex.rvalue(s["rv"]))
        if pl["l"] == 0 and not pl["p"] and s["rv"]["k"] == "agg" and s["rv"]["ak"] == "adt":
            rv = s["rv"]
            a = [ex.operand(o) for o in rv["ops"]]
            return ("ret", (rv["var"], a))
        if pl["l"] == 0 and not pl["p"]:
            return ("ret", ("value", [ex.rvalue(s["rv"])]))
        return None

    def field_is(e, name):
        return isinstance(e, tuple) and e[0] == "field" and e[2] == name

    def cv_name(e):
        # &self.not_full through Arc deref
        if isinstance(e, tuple) and e[0] == "field" and e[1] == ("param", "self"):
            return e[2]
        return None

    pushers, pullers = [], []
    allpaths = {}
    for name, f in sorted(opn.items()):
        ex = Exprs(f)
        paths = enumerate_paths(f, max_back=1)
        evs = [path_events(f, p, ex, ccall, cassign) for p in paths]
        has = lambda fld: (lambda x: contains(x, lambda y: isinstance(y, tuple) and y[0] == "field" and y[2] == fld))
        inval = {"write_" + R["size"]: has(R["size"]), "write_" + R["closed"]: has(R["closed"]),
                 "heap_push": has(R["heap"]), "heap_pop": has(R["heap"]), "heap_other": has(R["heap"])}
        nall = len(evs)
        evs = [pe for pe in evs if feasible(pe, ("wait",), inval)]
        rep.stat("infeasible_paths_pruned_" + name, nall - len(evs))
        allpaths[name] = (f, ex, paths, evs)
        kinds = {e.kind for pe in evs for e in pe}
        if "heap_push" in kinds:
            pushers.append(name)
        if "heap_pop" in kinds:
            pullers.append(name)
    rep.stat("paths_enumerated", {n: len(v[2]) for n, v in allpaths.items()})
    rep.floor("C06-Q3", len(pushers), 2, "inserting operations (push, try_push)")
    rep.floor("C06-Q3", len(pullers), 2, "removing operations (pull, try_pull)")

    # which condvar does each side wait on
    wait_cv = {}
    for name, (f, ex, paths, evs) in allpaths.items():
        for pe in evs:
            for e in pe:
                if e.kind == "wait":
                    wait_cv.setdefault(name, set()).add(cv_name(e.data[1]))
    cv_pull = set().union(*[wait_cv.get(n, set()) for n in pullers]) if pullers else set()
    cv_push = set().union(*[wait_cv.get(n, set()) for n in pushers]) if pushers else set()
    rep.ob("C06-Q5", "consumers and producers wait on different condition variables",
           len(cv_pull) == 1 and len(cv_push) == 1 and cv_pull != cv_push and None not in cv_pull | cv_push,
           detail="pull waits on %s, push waits on %s" % (sorted(map(str, cv_pull)), sorted(map(str, cv_push))))
    cv_not_empty = next(iter(cv_pull)) if len(cv_pull) == 1 else None
    cv_not_full = next(iter(cv_push)) if len(cv_push) == 1 else None

    # ------------------------------------------------------------ per path rules
    for name, (f, ex, paths, evs) in sorted(allpaths.items()):
        params = f.arg_names()
        # a bulk insert: the heap push sits in a `for _ in 0..count` loop (count a parameter) that is left only by exhaustion
        gq = cfg_of(f)
        bulk = None
        for L in for_loops(f, ex):
            pb = [bi for bi, t in f.calls() if bi in L["body"] and ccall(t, ex) and ccall(t, ex)[0] == "heap_push"]
            if pb:
                rng = L.get("range")
                exits = {(b, s2) for b in L["body"] for s2 in gq.succ[b] if s2 not in L["body"] and not f.blocks[s2]["cleanup"]}
                bulk = {"body": L["body"], "range": rng, "exits": exits, "site": L["site"],
                        "ok": bool(rng) and strip_tags(rng[0]) == ("const", 0) and isinstance(strip_tags(rng[1]), tuple) and strip_tags(rng[1])[0] == "param" and len(exits) == 1}
        if bulk is not None:
            rep.ob("C06-Q3", "%s: bulk insert runs once per requested copy (for _ in 0..count, left only by exhaustion)" % name, bulk["ok"],
                   detail="range %s, %d exit edge(s)" % (bulk["range"] and (fmt(bulk["range"][0]), fmt(bulk["range"][1])), len(bulk["exits"])), site=bulk["site"],
                   key="C06-Q3 | %s | bulk loop" % f.key)
        for pi, pe in enumerate(evs):
            pdesc = "%s path#%d" % (name, pi)
            kinds = [e.kind for e in pe]
            rets = [e for e in pe if e.kind == "ret"]
            ret = rets[-1].data if rets else None
            npush = kinds.count("heap_push")
            npop = kinds.count("heap_pop")
            # Q2 accounting paired
            for i, e in enumerate(pe):
                if e.kind == "heap_push":
                    agg = e.data[1] if len(e.data) > 1 else None
                    size_e = None
                    if isinstance(agg, tuple) and agg[0] == "agg":
                        size_e = dict(agg[2]).get(wf_size)
                    nxt = _next_of(pe, i, ("write_" + R["size"], "wait", "return", "heap_push", "heap_pop"))
                    ok = nxt is not None and nxt.kind == "write_" + R["size"] and \
                        _is_add_of(nxt.data, R["size"], size_e)
                    if not ok and strip_tags(size_e) == ("const", 0) and (nxt is None or nxt.kind != "write_" + R["size"]):
                        ok = True        # an item recorded with size 0 adds nothing to the byte count
                    rep.ob("C06-Q2", "%s: insert followed by %s += pushed size" % (name, R["size"]), ok,
                           detail="path %s; next accounting event: %s" % (pdesc, nxt), site=e.site,
                           key="C06-Q2 | %s | insert accounting" % f.key)
                if e.kind == "heap_pop":
                    nxt = _next_of(pe, i, ("write_" + R["size"], "wait", "return", "heap_push", "heap_pop"))
                    ok = nxt is not None and nxt.kind == "write_" + R["size"] and \
                        _is_sub_of_popped(nxt.data, R["size"], wf_size)
                    rep.ob("C06-Q2", "%s: removal followed by %s -= removed size" % (name, R["size"]), ok,
                           detail="path %s; next accounting event: %s" % (pdesc, nxt), site=e.site,
                           key="C06-Q2 | %s | removal accounting" % f.key)
                if e.kind == "write_" + R["size"]:
                    prev = _prev_of(pe, i, ("heap_push", "heap_pop", "wait", "lock", "write_" + R["size"]))
                    ok = prev is not None and prev.kind in ("heap_push", "heap_pop")
                    rep.ob("C06-Q2", "%s: every write of %s belongs to an insert/removal" % (name, R["size"]), ok,
                           detail="path %s" % pdesc, site=e.site, key="C06-Q2 | %s | stray size write" % f.key)
                if e.kind == "heap_other":
                    rep.ob("C06-Q2", "%s: heap modified only by push/pop" % name, False, detail=str(e.data),
                           site=e.site, key="C06-Q2 | %s | other heap mutation" % f.key)
            # Q3 exactly once
            if name in pushers or name in pullers or npush or npop:
                if ret and ret[0] == "Ok":
                    item_ok = False
                    for e in pe:
                        if e.kind == "heap_push" and isinstance(e.data[1], tuple) and e.data[1][0] == "agg":
                            it = strip_tags(dict(e.data[1][2]).get(wf_item))
                            item_ok = it is not None and (it[0] == "param" or (bulk is not None and it[0] == "call" and re.search(r"Clone(>)?::clone$", it[1]) and it[2] and contains(it[2][0], lambda x: isinstance(x, tuple) and x[0] == "param") and not contains(it[2][0], lambda x: isinstance(x, tuple) and x[0] == "call")))
                    if bulk is not None and npush == 0:
                        item_ok = True       # the zero-copies path of a bulk insert
                    rep.ob("C06-Q3", "%s: Ok path inserts the argument exactly once%s" % (name, " per loop iteration" if bulk is not None else ""),
                           (npush == 1 or (bulk is not None and npush == 0)) and npop == 0 and item_ok, detail="%s: pushes=%d" % (pdesc, npush),
                           site=rets[-1].site, key="C06-Q3 | %s | Ok path" % f.key)
                elif ret and ret[0] == "Err":
                    rep.ob("C06-Q3", "%s: Err path inserts nothing" % name, npush == 0 and npop == 0,
                           detail="%s: pushes=%d" % (pdesc, npush), site=rets[-1].site,
                           key="C06-Q3 | %s | Err path" % f.key)
                elif ret and ret[0] == "Some":
                    val = ret[1][0] if ret[1] else None
                    from_pop = isinstance(val, tuple) and val[0] == "field" and val[2] == wf_item and \
                        contains(val, lambda x: isinstance(x, tuple) and x[0] == "call" and x[1].endswith("::pop"))
                    rep.ob("C06-Q3", "%s: Some(x) path removes exactly once and x is the removed item" % name,
                           npop == 1 and npush == 0 and from_pop, detail="%s: pops=%d value=%s" % (pdesc, npop, fmt(val)),
                           site=rets[-1].site, key="C06-Q3 | %s | Some path" % f.key)
                elif ret and ret[0] == "None":
                    rep.ob("C06-Q3", "%s: None path removes nothing" % name, npop == 0 and npush == 0,
                           detail=pdesc, site=rets[-1].site, key="C06-Q3 | %s | None path" % f.key)
            # Q5 wake-ups
            if npush == 1 and ret and ret[0] == "Ok":
                i = kinds.index("heap_push")
                ok = any(e.kind in ("notify_one", "notify_all") and cv_name(e.data) == cv_not_empty for e in pe[i:])
                why5 = pdesc
                if ok and bulk is not None:
                    # several items become available in one call: one notify_one wakes one consumer, the others sleep on
                    ok = any((e.kind == "notify_all" or (e.kind == "notify_one" and e.block in bulk["body"])) and cv_name(e.data) == cv_not_empty for e in pe[i:])
                    why5 = pdesc + ("" if ok else ": the loop can insert several items but consumers are woken with a single notify_one after it; every waiting consumer that could take one of the items must be woken (notify_all, or notify_one per insert)")
                rep.ob("C06-Q5", "%s: successful insert notifies the consumers' condvar" % name, ok,
                       detail=why5, site=pe[i].site, key="C06-Q5 | %s | notify after insert" % f.key)
            if npop == 1 and ret and ret[0] == "Some":
                i = kinds.index("heap_pop")
                ok = any(e.kind in ("notify_one", "notify_all") and cv_name(e.data) == cv_not_full for e in pe[i:])
                rep.ob("C06-Q5", "%s: successful removal notifies the producers' condvar" % name, ok,
                       detail=pdesc, site=pe[i].site, key="C06-Q5 | %s | notify after removal" % f.key)
            # Q6 / Q8 admission
            if npush >= 1:
                i = kinds.index("heap_push")
                last_wait = max([j for j in range(i) if pe[j].kind == "wait"] or [-1])
                conds = [e for e in pe[last_wait + 1:i] if e.kind == "cond"]
                closed_false = any(field_is(_strip_not(e.data[0])[0], R["closed"]) and
                                   _truth(e) is False for e in conds)
                rep.ob("C06-Q6", "%s: insert dominated by a test of %s == false after the last wait" % (name, R["closed"]),
                       closed_false, detail=pdesc, site=pe[i].site, key="C06-Q6 | %s | closed test before insert" % f.key)
                size_param = None
                agg = pe[i].data[1] if len(pe[i].data) > 1 else None
                if isinstance(agg, tuple) and agg[0] == "agg":
                    size_param = dict(agg[2]).get(wf_size)
                fits = False
                why = "no capacity test on this path"
                if strip_tags(size_param) == ("const", 0):
                    fits = True
                    why = "the item is recorded with size 0: it cannot push the byte count over the capacity"
                for e in conds:
                    r = _capacity_cond(e, R, size_param)
                    if r is True:
                        fits = True
                        why = "capacity test holds: " + fmt(e.data[0])
                    elif r == "empty":
                        fits = True
                        why = "queue empty (a lone item is always admitted)"
                rep.ob("C06-Q8", "%s: insert dominated by %s + size <= %s (or empty queue)" % (name, R["size"], R["cap"]),
                       fits, detail="%s: %s" % (pdesc, why), site=pe[i].site, key="C06-Q8 | %s | capacity test before insert" % f.key)
            if ret and ret[0] == "None" and name in pullers:
                # last cond before return must be "heap is empty" == true
                # after the last wait (the lock is held from there to the return) the path tests "heap is empty" and takes the
                # true arm; unrelated branches (diagnostics) in between do not matter
                lw = max([j for j, e in enumerate(pe) if e.kind == "wait"], default=-1)
                conds = [e for e in pe[lw + 1:] if e.kind == "cond"]
                ok = False
                for e in conds:
                    ce = e.data[0]
                    if _truth(e) is True and contains(ce, lambda x: isinstance(x, tuple) and x[0] == "call" and x[1].endswith("::is_empty")) \
                            and contains(ce, lambda x: field_is(x, R["heap"])):
                        ok = True
                rep.ob("C06-Q6", "%s: end-of-stream (None) only when the heap is empty" % name, ok, detail=pdesc,
                       site=rets[-1].site, key="C06-Q6 | %s | None only when empty" % f.key)
            # writes of closed
            for e in pe:
                if e.kind == "write_" + R["closed"]:
                    is_close = e.data == ("const", 1) and npush == 0 and npop == 0
                    rep.ob("C06-Q6", "%s: only close() writes %s (sets it to true)" % (name, R["closed"]),
                           is_close and name not in pushers + pullers, detail=pdesc, site=e.site,
                           key="C06-Q6 | %s | write of closed" % f.key)
                    i = pe.index(e)
                    alls = {cv_name(x.data) for x in pe[i:] if x.kind == "notify_all"}
                    rep.ob("C06-Q5", "%s: close wakes all waiters on both condvars" % name,
                           alls >= {cv_not_empty, cv_not_full} and None not in (cv_not_empty, cv_not_full),
                           detail="notify_all on %s" % sorted(map(str, alls)), site=e.site,
                           key="C06-Q5 | %s | close notifies all" % f.key)

        # Q4 waits re-test (CFG rule)
        g = cfg_of(f)
        for bi, t in f.calls():
            if re.search(r"Condvar::wait", t["callee"]):
                heads = g.in_loop(bi)
                ok = bool(heads)
                detail = "wait is not inside a loop: a spurious or stale wake-up would proceed without re-testing"
                if ok:
                    # the guard returned by wait is re-bound to the guard variable the predicate reads
                    detail = "wait in loop headed by bb%s" % heads
                    h = heads[-1]
                    # predicate re-evaluated: header must contain/lead to a switch that can exit the loop
                    loops = dict(g.loops())
                    body = loops[h]
                    exits = [b for b in body for s in g.succ[b] if s not in body]
                    ok = bool(exits) and all(g.dominates(h, b) for b in exits)
                rep.ob("C06-Q4", "%s: wait is re-tested in a loop" % name, ok, detail=detail, site=site_of(f, t),
                       key="C06-Q4 | %s | wait in loop" % f.key)
                # guard passed to wait is moved from the guard var and result reassigned to it
                gl = t["args"][1]["pl"]["l"] if len(t["args"]) > 1 and "pl" in t["args"][1] else None
                src = ex.operand(t["args"][1]) if len(t["args"]) > 1 else None
                rebound = False
                for b in f.blocks:
                    for s in b["stmts"]:
                        if s["k"] == "assign" and not s["pl"]["p"] and ("var", f.local_names().get(s["pl"]["l"])) == src:
                            e2 = ex.rvalue(s["rv"])
                            if contains(e2, lambda x: isinstance(x, tuple) and x[0] == "call" and "Condvar::wait" in x[1]):
                                rebound = True
                rep.ob("C06-Q4", "%s: guard returned by wait is re-bound to the guard the predicate reads" % name,
                       rebound, detail="guard %s" % fmt(src), site=site_of(f, t), key="C06-Q4 | %s | guard rebound" % f.key)
    nwaits = sum(1 for f in ops for _, t in f.calls() if re.search(r"Condvar::wait", t["callee"]))
    rep.floor("C06-Q4", nwaits, 2, "Condvar::wait sites")

    # capacity immutable
    for f in F.funcs.values():
        for b in f.blocks:
            for s in b["stmts"]:
                if s["k"] == "assign" and s["pl"]["p"]:
                    last = s["pl"]["p"][-1]
                    if isinstance(last, dict) and last.get("adt") == outer and last.get("n") == R["cap"]:
                        rep.ob("C06-Q8", "capacity field is never reassigned", False, site=site_of(f, s),
                               detail="write in " + f.key, key="C06-Q8 | %s | capacity write" % f.key)
    rep.ob("C06-Q8", "capacity field is written only by constructors (aggregate)", True, how="trivial")

    # ------------------------------------------------------------ Q7 priority
    rep.ob("C06-Q7", "heap field type is BinaryHeap of the size-carrying wrapper", wrap is not None and
           R["heap_ty"].startswith("alloc::collections::binary_heap::BinaryHeap<"), detail=R["heap_ty"])
    if wrap:
        wkey = wrap["key"]
        cmpf = [f for f in F.funcs.values() if f.key.startswith("<" + wkey) and f.key.endswith("as core::cmp::Ord>::cmp")]
        pcmp = [f for f in F.funcs.values() if f.key.startswith("<" + wkey) and f.key.endswith("as core::cmp::PartialOrd>::partial_cmp")]
        rep.floor("C06-Q7", len(cmpf), 1, "Ord impl of the heap element wrapper")
        for f in cmpf:
            ex = Exprs(f)
            calls = [t for _, t in f.calls()]
            ok = len(calls) == 1 and calls[0]["decl"] == "core::cmp::Ord::cmp"
            if ok:
                a = [ex.operand(x) for x in calls[0]["args"]]
                ok = a == [("field", ("param", "self"), wf_item), ("field", ("param", f.arg_names().get(2, "other")), wf_item)] \
                    and calls[0]["dest"]["l"] == 0
            rep.ob("C06-Q7", "wrapper Ord::cmp is exactly item.cmp(&other.item)", ok,
                   detail="calls: %s" % [c["callee_disp"] for c in calls], site="%s:%d" % (f.file, f.line_lo),
                   key="C06-Q7 | %s | cmp delegates to item" % f.key)
        for f in pcmp:
            calls = [t for _, t in f.calls()]
            ok = len(calls) == 1 and calls[0]["callee"].endswith("as core::cmp::Ord>::cmp") and calls[0]["callee"].startswith("<" + wkey)
            rep.ob("C06-Q7", "wrapper PartialOrd delegates to its Ord", ok, site="%s:%d" % (f.file, f.line_lo),
                   key="C06-Q7 | %s | partial_cmp delegates" % f.key)
        # derived PartialOrd/Ord on the wrapper would compare size too: must be hand-written (not derived)
        for im in F.impls:
            if im.get("adt") == wkey and im.get("trait") in ("core::cmp::Ord", "core::cmp::PartialOrd"):
                rep.ob("C06-Q7", "%s for wrapper is not derived (a derive would also compare the size)" % im["trait"],
                       not im["derived"], how="trivial", key="C06-Q7 | %s | not derived" % im["trait"])


# ---------------------------------------------------------------- helpers
def _places_of_stmt(s):
    yield s["pl"]
    rv = s["rv"]
    if "pl" in rv:
        yield rv["pl"]
    for k in ("op", "a", "b"):
        o = rv.get(k)
        if isinstance(o, dict) and "pl" in o:
            yield o["pl"]
    for o in rv.get("ops", []):
        if "pl" in o:
            yield o["pl"]


def _next_of(pe, i, kinds):
    for e in pe[i + 1:]:
        if e.kind in kinds:
            return e
    return None


def _prev_of(pe, i, kinds):
    for e in reversed(pe[:i]):
        if e.kind in kinds:
            return e
    return None


def _is_add_of(e, size_field, size_e):
    if not (isinstance(e, tuple) and e[0] == "bin" and e[1] == "Add"):
        return False
    ops = [e[2], e[3]]
    has_cur = any(isinstance(o, tuple) and o[0] == "field" and o[2] == size_field for o in ops)
    return has_cur and size_e is not None and size_e in ops


def _is_sub_of_popped(e, size_field, wf_size):
    if not (isinstance(e, tuple) and e[0] == "bin" and e[1] == "Sub"):
        return False
    a, b = e[2], e[3]
    cur = isinstance(a, tuple) and a[0] == "field" and a[2] == size_field
    popped = isinstance(b, tuple) and b[0] == "field" and b[2] == wf_size and \
        contains(b, lambda x: isinstance(x, tuple) and x[0] == "call" and x[1].endswith("::pop"))
    return cur and popped


def _strip_not(e):
    neg = False
    while isinstance(e, tuple) and e[0] == "un" and e[1] == "Not":
        e = e[2]
        neg = not neg
    return e, neg


def _truth(ev):
    t = cond_truth(ev)
    if t is None:
        return None
    e, neg = _strip_not(ev.data[0])
    return (not t) if neg else t


def _linear(e, R, size_param):
    """linear form over {cur,size,cap}: dict or None"""
    if not isinstance(e, tuple):
        return None
    if e[0] == "field" and e[2] == R["size"]:
        return {"cur": 1}
    if e[0] == "field" and e[2] == R["cap"]:
        return {"cap": 1}
    if size_param is not None and e == size_param:
        return {"size": 1}
    if e[0] == "const":
        return {"k": e[1]}
    if e[0] == "bin" and e[1] in ("Add", "Sub"):
        a, b = _linear(e[2], R, size_param), _linear(e[3], R, size_param)
        if a is None or b is None:
            return None
        out = dict(a)
        for k, v in b.items():
            out[k] = out.get(k, 0) + (v if e[1] == "Add" else -v)
        return out
    if e[0] == "call" and re.search(r"::(saturating_sub|wrapping_sub)$", e[1]) and len(e[2]) == 2:
        return _linear(("bin", "Sub", e[2][0], e[2][1]), R, size_param)
    if e[0] == "call" and re.search(r"::(saturating_add|wrapping_add)$", e[1]) and len(e[2]) == 2:
        return _linear(("bin", "Add", e[2][0], e[2][1]), R, size_param)
    return None


def _capacity_cond(ev, R, size_param):
    """True if this path condition implies cur + size <= cap; 'empty' if it says the heap is empty"""
    t = _truth(ev)
    if t is None:
        return None
    e, _ = _strip_not(ev.data[0])
    if isinstance(e, tuple) and e[0] == "call" and e[1].endswith("::is_empty") and \
            contains(e, lambda x: isinstance(x, tuple) and x[0] == "field" and x[2] == R["heap"]):
        return "empty" if t else None
    if not (isinstance(e, tuple) and e[0] == "bin" and e[1] in ("Lt", "Le")):
        return None
    a, b = _linear(e[2], R, size_param), _linear(e[3], R, size_param)
    if a is None or b is None:
        return None
    # a (op) b  <=>  d = a - b (op) 0
    d = dict(a)
    for k, v in b.items():
        d[k] = d.get(k, 0) - v
    d = {k: v for k, v in d.items() if v}
    op = e[1]
    if not t:
        # not (a < b) == b <= a ; not (a <= b) == b < a
        d = {k: -v for k, v in d.items()}
        op = "Le" if op == "Lt" else "Lt"
    # now d (op) 0 holds. want cur + size - cap <= 0
    want = {"cur": 1, "size": 1, "cap": -1}
    if {k: v for k, v in d.items() if k != "k"} == want and d.get("k", 0) >= 0:
        return True
    return None
