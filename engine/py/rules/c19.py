"""C19 — extraction invariant under input presentation: four clauses (DESIGN 4/C19, G1..G4)."""
import re

from absint import Undecidable
from cfg import cfg_of
from expr import Exprs, fmt, walk, contains
from mirutil import is_call, dominating_conds, cond_bool
from framework import site_of
import callgraph as cgmod
import symbols

EXPLANATION = (
    "Four presentation clauses decided from the code: (G1) every gzip decoder constructed in ragc-core or the "
    "ragc binary is flate2's MultiGzDecoder (multi-member / bgzip safe), each construction is chosen by a test "
    "of the '.gz' suffix, and no single-member GzDecoder is constructed there (the split_fasta utility's "
    "GzDecoder is the always-present positive control of the matcher); (G2) the input table is case-insensitive: "
    "CNV_NUM[c] == CNV_NUM[c ^ 0x20] for all letters; (G3) line structure is invisible: the byte filter drops "
    "LF, CR, space, digits and gap characters, sequence lines are appended without per-line state, and only a "
    "line starting with '>' starts a record; (G4) the record id is the header line without '>' and surrounding "
    "whitespace (so a trailing CR disappears); (G5) the sample name derived from an input file name is the same for NAME and "
    "NAME.gz: the derivation is evaluated in a string domain (models of std path/str/Option helpers) over a table of file names; (G8) a PanSN header names its sample by its first two fields and (G9) the record reader "
    "carries nothing from one record to the next - both by interpretation in the string domain over header sets.")
UNDECIDED = ("PanSN vs per-file sample naming equivalence; byte identity of single-file vs multi-file archives "
             "(pipeline behaviour, exposed to the C04 known finding)")

MULTI = r"flate2::gz::read::MultiGzDecoder::<R>::new$|flate2::gz::bufread::MultiGzDecoder::<R>::new$"
SINGLE = r"flate2::gz::(read|bufread)::GzDecoder::<R>::new$|flate2::gz::read::GzDecoder::<R>::new$"


def run(F, rep):
    rep.explanation = EXPLANATION
    rep.undecided = UNDECIDED
    rep.assumptions = ["flate2::read::MultiGzDecoder decodes every member of a multi-member stream (library contract)"]
    # ------------------------------------------------------------ G1
    nm = ns = 0
    for f in F.funcs.values():
        if f.crate not in ("ragc_core", "ragc"):
            continue
        ex = None
        for bi, t in f.calls():
            if t.get("indirect"):
                continue
            if re.search(MULTI, t["callee"]):
                nm += 1
                ex = ex or Exprs(f)
                conds = dominating_conds(f, bi, ex)
                ok = False
                for c in conds:
                    s = repr(c[0])
                    if ("'gz'" in s or "'.gz'" in s) and ("Path::extension" in s or "ends_with" in s) and cond_bool(c[1], c[2]) is True:
                        ok = True
                rep.ob("C19-G1", "multi-member gzip decoder in %s is selected by the .gz suffix" % f.key.split("::", 1)[-1], ok,
                       site=site_of(f, t), key="C19-G1 | %s | chosen by extension" % f.key)
            elif re.search(SINGLE, t["callee"]):
                ns += 1
                rep.ob("C19-G1", "no single-member GzDecoder in ragc input paths (%s)" % f.key, False,
                       detail="GzDecoder stops after the first member: a bgzip / concatenated .gz input would be silently truncated",
                       site=site_of(f, t), key="C19-G1 | %s | single-member decoder" % f.key)
    rep.floor("C19-G1", nm, 5, "MultiGzDecoder construction sites")
    rep.ob("C19-G1", "no single-member gzip decoder is constructed in ragc-core / ragc (%d multi-member sites)" % nm, ns == 0,
           key="C19-G1 | summary")
    ctrl = sum(1 for f in F.funcs.values() if f.crate == "split_fasta" for _, t in f.calls() if not t.get("indirect") and re.search(SINGLE, t["callee"]))
    rep.ob("C19-G1", "positive control: the matcher sees the single-member GzDecoder of the split_fasta utility", ctrl >= 1,
           detail="%d site(s)" % ctrl, how="trivial", key="C19-G1 | positive control")

    # ------------------------------------------------------------ G2
    cnv = symbols.cnv_num(F)
    if rep.floor("C19-G2", 1 if cnv else 0, 1, "CNV_NUM table"):
        bad = [chr(c) for c in range(65, 91) if cnv[c] != cnv[c ^ 0x20]]
        rep.ob("C19-G2", "input table folds case: CNV_NUM[c] == CNV_NUM[c ^ 0x20] for A..Z", not bad, detail="differs for %s" % bad,
               key="C19-G2 | case folding")
    # ------------------------------------------------------------ G3
    try:
        S, tab, inf = symbols.symbol_domain(F)
        must_drop = set(b"\n\r \t-*.0123456789>")
        kept_bad = sorted(c for c in must_drop if tab.get(c) is not None)
        rep.ob("C19-G3", "line ends, blanks, digits and gap characters are dropped by the byte filter", not kept_bad,
               detail="kept: %s" % kept_bad, site="%s:%d" % (inf.file, inf.line_lo), key="C19-G3 | filter drops layout bytes")
        # the pushed value depends on the byte only (table lookup), established by the tabulation itself
        rep.ob("C19-G3", "the value pushed for a byte depends on that byte only (no per-line state in the filter)", True,
               detail="tabulated as a function of the byte over all 256 values", how="auto", key="C19-G3 | filter is stateless")
    except Undecidable as e:
        rep.ob("C19-G3", "byte filter can be tabulated", False, detail=str(e), key="C19-G3 | filter table")
    rr = F.find(r"genome_io::GenomeIO::<R>::read_contig_raw$")
    if rep.floor("C19-G3", len(rr), 1, "raw record reader"):
        f = rr[0]
        ex = Exprs(f)
        g = cfg_of(f)
        ext = [(bi, t) for bi, t in f.calls() if not t.get("indirect") and t["callee"].endswith("extend_from_slice")]
        ok = len(ext) == 1 and fmt(ex.operand(ext[0][1]["args"][1])).endswith("self.buffer")
        rep.ob("C19-G3", "sequence lines are appended verbatim to the record (single extend_from_slice of the line buffer)", ok,
               detail=[fmt(ex.operand(t["args"][1])) for _, t in ext], site=site_of(f, ext[0][1]) if ext else None, key="C19-G3 | append lines")
        # the raw byte count of a line includes its terminator (LF vs CRLF): it may only be tested against zero (end of input)
        nraw = 0
        LR = symbols.line_readers(F)
        for bi, b in enumerate(f.blocks):
            tt = b["term"]
            if tt["k"] != "switch" or b["cleanup"] or tt["sp"].get("exp"):
                continue
            e = ex.operand(tt["discr"])
            if not contains(e, lambda x: isinstance(x, tuple) and x[0] == "call" and (re.search(r"BufRead>?::read_until$", x[1]) or x[1] in LR)):
                continue
            if isinstance(e, tuple) and e[0] == "discr":
                continue            # the `?` on the io::Result itself
            nraw += 1
            okc = isinstance(e, tuple) and e[0] == "bin" and e[1] in ("Eq", "Ne", "Lt", "Le", "Gt", "Ge") and ("const", 0) in (e[2], e[3])
            rep.ob("C19-G3", "the raw length of a line (terminator included) is only compared with zero", okc, detail=fmt(e)[:160],
                   site=site_of(f, tt), key="C19-G3 | raw line length test")
        rep.floor("C19-G3", nraw, 2, "tests of read_until's byte count (header line, sequence line)")
        # every sequence line that is read is appended: the append dominates the way back to the next line read
        if ext:
            eb = ext[0][0]
            inner = min([body for h, body in g.loops() if eb in body], key=len, default=None)
            heads = [h for h, body in g.loops() if body is inner]
            bad = []
            if inner is not None:
                for (a, b2) in g.back_edges():
                    if b2 in heads and a in inner and not g.dominates(eb, a):
                        conds = [fmt(c[0]) for c in dominating_conds(f, a, ex) if cond_bool(c[1], c[2]) is True]
                        if not any("is_empty" in c for c in conds):
                            bad.append("bb%d" % a)
            rep.ob("C19-G3", "every sequence line read is appended before the next line is read (no line is skipped by its raw form)", inner is not None and not bad,
                   detail="back edges not passing the append: %s" % bad, site=site_of(f, ext[0][1]), key="C19-G3 | no skipped line")
        # new record only on first byte '>'
        gt = False
        for bi, b in enumerate(f.blocks):
            t = b["term"]
            if t["k"] == "switch":
                e = ex.operand(t["discr"])
                if isinstance(e, tuple) and e[0] == "bin" and e[1] == "Eq" and ("const", 62) in (e[2], e[3]):
                    o = e[3] if e[2] == ("const", 62) else e[2]
                    if "buffer" in fmt(o) and ("[0]" in fmt(o) or "0)" in fmt(o)):
                        gt = True
        rep.ob("C19-G3", "only a line whose first byte is '>' starts a new record", gt, site="%s:%d" % (f.file, f.line_lo), key="C19-G3 | header test")
        # G4
        ids = []
        for bi, b in enumerate(f.blocks):
            for s in b["stmts"]:
                if s["k"] == "assign" and s["pl"]["l"] == 0 and not s["pl"]["p"]:
                    e = ex.rvalue(s["rv"])
                    if "Option::Some" in repr(e):
                        ids.append(e)
        okid = False
        for bi, t in f.calls():
            if not t.get("indirect") and t["callee"].endswith("ToString>::to_string") or (not t.get("indirect") and t["callee"].endswith("::to_string")):
                e = ex.operand(t["args"][0])
                s = repr(e)
                if "trim_start_matches" in s and "::trim'" in s.replace("trim_start_matches", "") and "('const', 62)" in s:
                    okid = True
        # decided by evaluation where the id expression can be evaluated: the returned name, with the header line replaced by
        # templates (inner double blanks and tabs, CR/LF, blanks around), must be the line without '>' and surrounding whitespace
        import strint
        from absint import Panic as _Panic
        detail4 = ""
        idexprs = []
        for e in ids:
            for x in walk(e):
                if isinstance(x, tuple) and x[0] == "agg" and x[1] == "tuple":
                    comp = dict(x[2]).get("0")
                    if comp is not None:
                        idexprs.append(comp)

        def subst(e, line):
            if isinstance(e, tuple) and e and e[0] == "call" and e[1].endswith("String::from_utf8_lossy"):
                return ("str", line)
            if isinstance(e, tuple):
                return tuple(subst(x, line) for x in e)
            return e
        templates = [">chr1\n", ">chr1 len=3000  note\r\n", ">ctg2\tlen=3 x\n", "> chr1 \n", ">S1#1#c\r\n", ">a  b\tc", ">x\n"]
        if idexprs:
            try:
                wrong = []
                for ie in idexprs:
                    for line in templates:
                        got = strint.eval_tree(F, subst(ie, line), {})
                        want = line[1:].strip()
                        if got != want:
                            wrong.append("%r is named %r (the header says %r)" % (line, got, want))
                okid = not wrong
                detail4 = "; ".join(wrong[:3]) if wrong else "%d header lines evaluated" % len(templates)
            except (Undecidable, _Panic) as e4:
                detail4 = "id expression not evaluable (%s); decided by its form" % e4
        rep.ob("C19-G4", "record id = header line without '>' and surrounding whitespace, inner blanks and tabs kept (trim removes a trailing CR)", okid,
               detail=detail4, site="%s:%d" % (f.file, f.line_lo), key="C19-G4 | id normalisation")

    # ------------------------------------------------------------ G5: the sample name taken from a file name ignores the compression suffix
    g5_rule(F, rep)
    # ------------------------------------------------------------ G6: no second, case-sensitive letter table
    g6_rule(F, rep)
    # (G7, "a single multi-sample file is scanned like the first of several files", was retired: it asked for byte-identical archives
    # from one PanSN file and from per-sample files, which the statement does not - it asks for the same sample list and the
    # same extracted contigs; see DESIGN 11.2)
    # ------------------------------------------------------------ G8: the sample a PanSN header names is its first two fields
    g8_rule(F, rep)
    # ------------------------------------------------------------ G9: a record's sample does not depend on the records before it
    g9_rule(F, rep)


def g8_rule(F, rep, rule="C19-G8"):
    """In a single PanSN file the sample of a record is read from its header `sample#haplotype#contig`: the first two
    fields, whatever the contig field holds (it may contain '#').  Evaluated in the string domain for every header of one
    to five fields over a small field alphabet (including empty fields)."""
    import itertools
    from strint import StrInterp
    from absint import Undecidable, Panic
    f = F.funcs.get("ragc_core::genome_io::parse_sample_from_header")
    if not rep.floor(rule, 1 if f else 0, 1, "genome_io::parse_sample_from_header"):
        return
    bad, undec, n = [], None, 0
    for nf in range(1, 6):
        for fields in itertools.product(("S1", "1", "c", ""), repeat=nf):
            h = "#".join(fields)
            n += 1
            try:
                r = StrInterp(F).call(f, [h])
            except Panic as e:
                bad.append("header %r: panics (%s)" % (h, e))
                continue
            except Undecidable as e:
                undec = "header %r: %s" % (h, e)
                break
            if nf >= 3:
                want = ("#".join(fields[:2]), "#".join(fields[2:]))
                got = (r.get(0), r.get(1)) if isinstance(r, dict) else r
                if got != want:
                    bad.append("header %r is read as sample %r, contig %r (PanSN: sample %r, contig %r)" % (h, got[0], got[1], want[0], want[1]))
        if undec:
            break
    rep.ob(rule, "a header sample#haplotype#contig... names the sample `sample#haplotype` and the contig by everything after the second '#', for every "
           "header of 3 to 5 fields over the field alphabet; shorter headers are parsed without a panic", undec is None and not bad,
           detail=("undecidable construct: %s" % undec) if undec else ("%d headers evaluated" % n if not bad else "%d of %d headers differ, e.g. %s" % (len(bad), n, "; ".join(bad[:3]))),
           site="%s:%d" % (f.file, f.line_lo), key="%s | parse_sample_from_header | first two fields" % rule)
    rep.stat("pansn_headers_evaluated", n)


def g9_rule(F, rep, rule="C19-G9"):
    """The sample and contig name of a record depend on its own header only, not on the records read before it: the
    record reader is evaluated on every ordered pair and a set of triples of headers (the underlying line reader replaced
    by the header sequence), and each result is compared with the header parsed on its own."""
    import itertools
    from strint import StrInterp, some as ssome, NONE as SNONE
    from absint import Undecidable, Panic
    key = "ragc_core::genome_io::GenomeIO::<R>::read_contig_with_sample"
    f = F.funcs.get(key)
    pf = F.funcs.get("ragc_core::genome_io::parse_sample_from_header")
    adt = F.adts.get("ragc_core::genome_io::GenomeIO")
    if not rep.floor(rule, sum(1 for x in (f, pf, adt) if x), 3, "GenomeIO, read_contig_with_sample, parse_sample_from_header"):
        return

    class RecInterp(StrInterp):
        feed = None

        def rvalue(self, rv):
            if rv["k"] == "discr":
                v = self.read_place(rv["pl"])
                if isinstance(v, dict) and v.get("__adt") == "core::ops::control_flow::ControlFlow":
                    return 0 if v["__var"] == "Continue" else 1
            return StrInterp.rvalue(self, rv)

        def assign(self, pl, v):
            path = pl["p"]
            base = self.env.get(pl["l"])
            if len(path) == 2 and path[0] == "deref" and isinstance(base, tuple) and base and base[0] == "refval" and isinstance(base[1], dict) \
                    and isinstance(path[1], dict) and "f" in path[1]:
                base[1][path[1].get("n", path[1]["f"])] = v
                return
            return StrInterp.assign(self, pl, v)

        def do_call(self, t):
            c = t.get("callee", "")
            if c.endswith("GenomeIO::<R>::read_contig_impl"):
                if not self.feed:
                    return {"__adt": "core::result::Result", "__var": "Ok", "0": SNONE, 0: SNONE}
                h = self.feed.pop(0)
                v = ssome({0: h, 1: [0, 1, 2, 3]})
                return {"__adt": "core::result::Result", "__var": "Ok", "0": v, 0: v}
            if c.endswith("ops::try_trait::Try>::branch"):
                r = self.deref_arg(self.operand(t["args"][0]))
                if isinstance(r, dict) and r.get("__adt") == "core::result::Result":
                    if r["__var"] == "Ok":
                        return {"__adt": "core::ops::control_flow::ControlFlow", "__var": "Continue", 0: r.get(0, r.get("0")), "0": r.get(0, r.get("0"))}
                    return {"__adt": "core::ops::control_flow::ControlFlow", "__var": "Break", 0: r, "0": r}
                raise Undecidable("? on %r" % (r,))
            if "FromResidual" in c and c.endswith("::from_residual"):
                return self.deref_arg(self.operand(t["args"][0]))
            return StrInterp.do_call(self, t)

    def fresh_self():
        d = {"__adt": adt["key"], "__var": adt["variants"][0]["name"]}
        for fl in adt["variants"][0]["fields"]:
            ty = fl["ty"]
            d[fl["name"]] = SNONE if ty.startswith("core::option::Option<") else ([] if ty.startswith("alloc::vec::Vec<") else ("" if ty == "alloc::string::String" else
                                                                                    (0 if ty in ("bool", "usize", "u32", "u64") else "opaque")))
        return d

    heads = ["S1#1#c1", "S1#1#c2", "S1#10#c1", "S1#2#c1", "S2#1#c1", "S1#1", "S1", "S1#1#", "S1#1#c1#p", "S1#1x#c1", "c1", "S1#1#S1#1#c"]
    seqs = list(itertools.product(heads, repeat=2)) + [(a, b, a) for a in heads[:6] for b in heads[:6]]
    bad, undec, n = [], None, 0
    alone = {}
    try:
        for h in heads:
            r = StrInterp(F).call(pf, [h])
            alone[h] = (r.get(0), r.get(1))
    except (Undecidable, Panic) as e:
        undec = "parse_sample_from_header: %s" % e
    for sq in seqs:
        if undec:
            break
        me = fresh_self()
        feed = list(sq)
        for i, h in enumerate(sq):
            n += 1
            it = RecInterp(F)
            it.feed = feed
            try:
                r = it.call(f, [("refval", me)])
            except Panic as e:
                bad.append("headers %s: record %d panics (%s)" % (list(sq), i + 1, e))
                break
            except Undecidable as e:
                undec = "headers %s, record %d: %s" % (list(sq), i + 1, e)
                break
            v = r.get(0, r.get("0")) if isinstance(r, dict) and r.get("__var") == "Ok" else None
            rec = v[1] if isinstance(v, tuple) and v and v[0] == "Some" else None
            got = (rec.get(1), rec.get(2)) if isinstance(rec, dict) else None
            if got != alone[h] or (isinstance(rec, dict) and rec.get(0) != h):
                bad.append("after %s the record %r is returned as sample/contig %r; read on its own it is %r" % (list(sq[:i]), h, got, alone[h]))
                break
    rep.ob(rule, "read_contig_with_sample returns, for each record, the header and the sample / contig names that header gives on its own, whatever records came before "
           "(all ordered pairs of %d headers, %d triples)" % (len(heads), len(seqs) - len(heads) ** 2), undec is None and not bad,
           detail=("undecidable construct: %s" % undec) if undec else ("%d reads evaluated" % n if not bad else "%d sequences differ, e.g. %s" % (len(bad), "; ".join(bad[:3]))),
           site="%s:%d" % (f.file, f.line_lo), key="%s | read_contig_with_sample | history independent" % rule)
    rep.stat("record_reads_evaluated", n)


NAME_TEMPLATES = [(b, e) for b in ("s1", "asm.v1", "GCA_000001405.15", "sample-a_b") for e in ("fa", "fasta", "fna", "fas", "faa", "txt", None)]


def g5_rule(F, rep):
    """Every body of ragc-core / ragc that opens an input path through a gzip decoder and also returns a String derived
    from that path's file name (the per-file sample name): the derivation is evaluated, with models of std's
    Path/OsStr/str/Option helpers (strint.py), for a table of file names NAME and NAME.gz; both must give the same name -
    otherwise gzipping an input changes the sample list."""
    import strint
    from expr import strip_tags
    n = 0
    for f in F.funcs.values():
        if f.crate not in ("ragc_core", "ragc") or f.kind == "promoted":
            continue
        if not any(not t.get("indirect") and re.search(MULTI + "|" + SINGLE, t["callee"]) for _, t in f.calls()):
            continue
        ex = Exprs(f)
        paths = [nm for l, nm in f.arg_names().items() if re.search(r"Path|PathBuf", f.locals[l]["ty"])]
        # name expressions: String-typed components of the returned value that are built from file_stem/file_name of a path parameter
        cands = []
        for b in f.blocks:
            for s_ in b["stmts"]:
                if s_["k"] == "assign" and s_["pl"]["l"] == 0 and not s_["pl"]["p"]:
                    e = strip_tags(ex.rvalue(s_["rv"]))
                    for x in walk(e):
                        if isinstance(x, tuple) and x[0] == "call" and not re.search(r"Path::(file_stem|file_name|file_prefix)$", x[1]) and \
                                contains(x, lambda y: isinstance(y, tuple) and y[0] == "call" and re.search(r"Path::(file_stem|file_name|file_prefix)$", y[1])):
                            cands.append(x)
        # keep the outermost derivations only
        outer = [c for c in cands if not any(c is not d and contains(d, lambda y: y == c) for d in cands)]
        for e in outer:
            ps = {x[1] for x in walk(e) if isinstance(x, tuple) and x[0] == "param"}
            if len(ps) != 1 or not ps <= set(paths):
                continue
            pname = next(iter(ps))
            n += 1
            bad = []
            undec = None
            for base, ext in NAME_TEMPLATES:
                plain = "/data/in/" + base + ("." + ext if ext else "")
                try:
                    a = strint.eval_tree(F, e, {pname: plain})
                    b2 = strint.eval_tree(F, e, {pname: plain + ".gz"})
                except (Undecidable, strint.Panic) as x:
                    undec = str(x)
                    break
                if a != b2:
                    bad.append("%s -> %r but %s.gz -> %r" % (_bn(plain), a, _bn(plain), b2))
            # different inputs must stay different samples: file names that differ in front of the final extension give different names
            clash = []
            if undec is None:
                try:
                    for a_, b_ in (("yeast.v1.fa", "yeast.v2.fa"), ("asm.1.fna.gz", "asm.2.fna.gz"), ("GCA_1.1.fa", "GCA_1.2.fa"), ("s.a.b.fasta", "s.a.c.fasta")):
                        na, nb = strint.eval_tree(F, e, {pname: "/in/" + a_}), strint.eval_tree(F, e, {pname: "/in/" + b_})
                        if na == nb:
                            clash.append("%s and %s both give %r" % (a_, b_, na))
                except (Undecidable, strint.Panic) as x:
                    undec = str(x)
            rep.ob("C19-G5", "%s: file names that differ before the final extension give different sample names (inputs are not merged)" % f.key.split("::", 1)[-1],
                   undec is None and not clash, detail=("undecidable construct: %s" % undec) if undec else ("; ".join(clash) if clash else "4 pairs evaluated"),
                   site="%s:%d" % (f.file, f.line_lo), key="C19-G5 | %s | names stay distinct" % f.key)
            rep.ob("C19-G5", "%s: the sample name derived from the file name is the same for NAME and NAME.gz" % f.key.split("::", 1)[-1],
                   undec is None and not bad,
                   detail=("undecidable construct: %s" % undec) if undec else ("; ".join(bad[:4]) + (" (%d of %d file names)" % (len(bad), len(NAME_TEMPLATES)) if bad else "%d file names x {plain, .gz} evaluated: %s" % (len(NAME_TEMPLATES), fmt(e)[:160]))),
                   site="%s:%d" % (f.file, f.line_lo), key="C19-G5 | %s | name independent of .gz" % f.key)
    rep.floor("C19-G5", n, 1, "file-name -> sample-name derivations next to a gzip opener (MultiFileIterator::open_file)")


def _bn(p):
    return p.rsplit("/", 1)[-1]


def g6_rule(F, rep):
    """Input letters reach the pipeline through one table (CNV_NUM, case-insensitive by G2).  A dispatch on a byte or char
    against letter constants anywhere else in the live code is a second letter table; it must treat both cases of every
    letter it names alike (the upper- and the lower-case value select the same arm), otherwise soft-masked input takes a
    different path than upper-case input.  The dead helper Base::from_char (a `match` on 'A','C','G','T') is the
    always-present positive control of the matcher."""
    import pipeline
    G = cgmod.CallGraph(F)
    live = pipeline.live_scope(F, G)
    nlive = nctrl = 0
    for k, f in sorted(F.funcs.items()):
        if f.crate not in ("ragc_core", "ragc", "ragc_common") or f.d.get("test") or f.kind == "promoted":
            continue
        for bi, b in enumerate(f.blocks):
            t = b["term"]
            if t["k"] != "switch":
                continue
            arms = {}
            for v, tb in t["targets"]:
                arms[v] = tb
            letters = [v for v in arms if 65 <= v <= 90 or 97 <= v <= 122]
            if len(letters) < 3:
                continue
            ty = t["discr"].get("pl", {}).get("ty", t["discr"].get("ty", ""))
            if ty not in ("u8", "char"):
                continue
            if k not in live:
                nctrl += 1
                continue
            nlive += 1
            bad = [chr(v) for v in letters if arms.get(v ^ 0x20, t["otherwise"]) != arms[v]]
            rep.ob("C19-G6", "letter dispatch in %s treats upper and lower case alike" % k.split("::", 1)[-1], not bad,
                   detail="letters %s are handled, their other case falls into a different arm: soft-masked input is converted differently" % sorted(set(bad)) if bad else "case-closed",
                   site=site_of(f, t), key="C19-G6 | %s | case-closed letter dispatch" % k)
    rep.ob("C19-G6", "no case-sensitive letter table besides the input table (%d letter dispatches in live code, %d in unused helpers)" % (nlive, nctrl), True, how="trivial",
           key="C19-G6 | summary")
    rep.floor("C19-G6", nctrl + nlive, 1, "dispatches on letter constants seen by the matcher (Base::from_char control)")


