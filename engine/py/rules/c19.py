"""C19 — extraction invariant under input presentation: four clauses (DESIGN 4/C19, G1..G4)."""
import re

from absint import Undecidable
from cfg import cfg_of
from expr import Exprs, fmt, walk, contains
from mirutil import is_call, dominating_conds, cond_bool
from framework import site_of
import callgraph as cgmod
import symbols

EXPLANATION = (
    "Four presentation clauses decided from the code: (G1) every gzip decoder constructed in ragc-core or the "
    "ragc binary is flate2's MultiGzDecoder (multi-member / bgzip safe), each construction is chosen by a test "
    "of the '.gz' suffix, and no single-member GzDecoder is constructed there (the split_fasta utility's "
    "GzDecoder is the always-present positive control of the matcher); (G2) the input table is case-insensitive: "
    "CNV_NUM[c] == CNV_NUM[c ^ 0x20] for all letters; (G3) line structure is invisible: the byte filter drops "
    "LF, CR, space, digits and gap characters, sequence lines are appended without per-line state, and only a "
    "line starting with '>' starts a record; (G4) the record id is the header line without '>' and surrounding "
    "whitespace (so a trailing CR disappears); (G5) the sample name derived from an input file name is the same for NAME and "
    "NAME.gz: the derivation is evaluated in a string domain (models of std path/str/Option helpers) over a table of file names.")
UNDECIDED = ("PanSN vs per-file sample naming equivalence; byte identity of single-file vs multi-file archives "
             "(pipeline behaviour, exposed to the C04 known finding)")

MULTI = r"flate2::gz::read::MultiGzDecoder::<R>::new$|flate2::gz::bufread::MultiGzDecoder::<R>::new$"
SINGLE = r"flate2::gz::(read|bufread)::GzDecoder::<R>::new$|flate2::gz::read::GzDecoder::<R>::new$"


def run(F, rep):
    rep.explanation = EXPLANATION
    rep.undecided = UNDECIDED
    rep.assumptions = ["flate2::read::MultiGzDecoder decodes every member of a multi-member stream (library contract)"]
    # ------------------------------------------------------------ G1
    nm = ns = 0
    for f in F.funcs.values():
        if f.crate not in ("ragc_core", "ragc"):
            continue
        ex = None
        for bi, t in f.calls():
            if t.get("indirect"):
                continue
            if re.search(MULTI, t["callee"]):
                nm += 1
                ex = ex or Exprs(f)
                conds = dominating_conds(f, bi, ex)
                ok = False
                for c in conds:
                    s = repr(c[0])
                    if ("'gz'" in s or "'.gz'" in s) and ("Path::extension" in s or "ends_with" in s) and cond_bool(c[1], c[2]) is True:
                        ok = True
                rep.ob("C19-G1", "multi-member gzip decoder in %s is selected by the .gz suffix" % f.key.split("::", 1)[-1], ok,
                       site=site_of(f, t), key="C19-G1 | %s | chosen by extension" % f.key)
            elif re.search(SINGLE, t["callee"]):
                ns += 1
                rep.ob("C19-G1", "no single-member GzDecoder in ragc input paths (%s)" % f.key, False,
                       detail="GzDecoder stops after the first member: a bgzip / concatenated .gz input would be silently truncated",
                       site=site_of(f, t), key="C19-G1 | %s | single-member decoder" % f.key)
    rep.floor("C19-G1", nm, 5, "MultiGzDecoder construction sites")
    rep.ob("C19-G1", "no single-member gzip decoder is constructed in ragc-core / ragc (%d multi-member sites)" % nm, ns == 0,
           key="C19-G1 | summary")
    ctrl = sum(1 for f in F.funcs.values() if f.crate == "split_fasta" for _, t in f.calls() if not t.get("indirect") and re.search(SINGLE, t["callee"]))
    rep.ob("C19-G1", "positive control: the matcher sees the single-member GzDecoder of the split_fasta utility", ctrl >= 1,
           detail="%d site(s)" % ctrl, how="trivial", key="C19-G1 | positive control")

    # ------------------------------------------------------------ G2
    cnv = symbols.cnv_num(F)
    if rep.floor("C19-G2", 1 if cnv else 0, 1, "CNV_NUM table"):
        bad = [chr(c) for c in range(65, 91) if cnv[c] != cnv[c ^ 0x20]]
        rep.ob("C19-G2", "input table folds case: CNV_NUM[c] == CNV_NUM[c ^ 0x20] for A..Z", not bad, detail="differs for %s" % bad,
               key="C19-G2 | case folding")
    # ------------------------------------------------------------ G3
    try:
        S, tab, inf = symbols.symbol_domain(F)
        must_drop = set(b"\n\r \t-*.0123456789>")
        kept_bad = sorted(c for c in must_drop if tab.get(c) is not None)
        rep.ob("C19-G3", "line ends, blanks, digits and gap characters are dropped by the byte filter", not kept_bad,
               detail="kept: %s" % kept_bad, site="%s:%d" % (inf.file, inf.line_lo), key="C19-G3 | filter drops layout bytes")
        # the pushed value depends on the byte only (table lookup), established by the tabulation itself
        rep.ob("C19-G3", "the value pushed for a byte depends on that byte only (no per-line state in the filter)", True,
               detail="tabulated as a function of the byte over all 256 values", how="auto", key="C19-G3 | filter is stateless")
    except Undecidable as e:
        rep.ob("C19-G3", "byte filter can be tabulated", False, detail=str(e), key="C19-G3 | filter table")
    rr = F.find(r"genome_io::GenomeIO::<R>::read_contig_raw$")
    if rep.floor("C19-G3", len(rr), 1, "raw record reader"):
        f = rr[0]
        ex = Exprs(f)
        g = cfg_of(f)
        ext = [(bi, t) for bi, t in f.calls() if not t.get("indirect") and t["callee"].endswith("extend_from_slice")]
        ok = len(ext) == 1 and fmt(ex.operand(ext[0][1]["args"][1])).endswith("self.buffer")
        rep.ob("C19-G3", "sequence lines are appended verbatim to the record (single extend_from_slice of the line buffer)", ok,
               detail=[fmt(ex.operand(t["args"][1])) for _, t in ext], site=site_of(f, ext[0][1]) if ext else None, key="C19-G3 | append lines")
        # the raw byte count of a line includes its terminator (LF vs CRLF): it may only be tested against zero (end of input)
        nraw = 0
        for bi, b in enumerate(f.blocks):
            tt = b["term"]
            if tt["k"] != "switch" or b["cleanup"] or tt["sp"].get("exp"):
                continue
            e = ex.operand(tt["discr"])
            if not contains(e, lambda x: isinstance(x, tuple) and x[0] == "call" and re.search(r"BufRead>?::read_until$", x[1])):
                continue
            if isinstance(e, tuple) and e[0] == "discr":
                continue            # the `?` on the io::Result itself
            nraw += 1
            okc = isinstance(e, tuple) and e[0] == "bin" and e[1] in ("Eq", "Ne", "Lt", "Le", "Gt", "Ge") and ("const", 0) in (e[2], e[3])
            rep.ob("C19-G3", "the raw length of a line (terminator included) is only compared with zero", okc, detail=fmt(e)[:160],
                   site=site_of(f, tt), key="C19-G3 | raw line length test")
        rep.floor("C19-G3", nraw, 2, "tests of read_until's byte count (header line, sequence line)")
        # every sequence line that is read is appended: the append dominates the way back to the next line read
        if ext:
            eb = ext[0][0]
            inner = min([body for h, body in g.loops() if eb in body], key=len, default=None)
            heads = [h for h, body in g.loops() if body is inner]
            bad = []
            if inner is not None:
                for (a, b2) in g.back_edges():
                    if b2 in heads and a in inner and not g.dominates(eb, a):
                        conds = [fmt(c[0]) for c in dominating_conds(f, a, ex) if cond_bool(c[1], c[2]) is True]
                        if not any("is_empty" in c for c in conds):
                            bad.append("bb%d" % a)
            rep.ob("C19-G3", "every sequence line read is appended before the next line is read (no line is skipped by its raw form)", inner is not None and not bad,
                   detail="back edges not passing the append: %s" % bad, site=site_of(f, ext[0][1]), key="C19-G3 | no skipped line")
        # new record only on first byte '>'
        gt = False
        for bi, b in enumerate(f.blocks):
            t = b["term"]
            if t["k"] == "switch":
                e = ex.operand(t["discr"])
                if isinstance(e, tuple) and e[0] == "bin" and e[1] == "Eq" and ("const", 62) in (e[2], e[3]):
                    o = e[3] if e[2] == ("const", 62) else e[2]
                    if "buffer" in fmt(o) and ("[0]" in fmt(o) or "0)" in fmt(o)):
                        gt = True
        rep.ob("C19-G3", "only a line whose first byte is '>' starts a new record", gt, site="%s:%d" % (f.file, f.line_lo), key="C19-G3 | header test")
        # G4
        ids = []
        for bi, b in enumerate(f.blocks):
            for s in b["stmts"]:
                if s["k"] == "assign" and s["pl"]["l"] == 0 and not s["pl"]["p"]:
                    e = ex.rvalue(s["rv"])
                    if "Option::Some" in repr(e):
                        ids.append(e)
        okid = False
        for bi, t in f.calls():
            if not t.get("indirect") and t["callee"].endswith("ToString>::to_string") or (not t.get("indirect") and t["callee"].endswith("::to_string")):
                e = ex.operand(t["args"][0])
                s = repr(e)
                if "trim_start_matches" in s and "::trim'" in s.replace("trim_start_matches", "") and "('const', 62)" in s:
                    okid = True
        rep.ob("C19-G4", "record id = header line without '>' and surrounding whitespace (trim removes a trailing CR)", okid,
               site="%s:%d" % (f.file, f.line_lo), key="C19-G4 | id normalisation")

    # ------------------------------------------------------------ G5: the sample name taken from a file name ignores the compression suffix
    g5_rule(F, rep)
    # ------------------------------------------------------------ G6: no second, case-sensitive letter table
    g6_rule(F, rep)
    # ------------------------------------------------------------ G7: a single multi-sample file is scanned like the first of several files
    g7_rule(F, rep)


NAME_TEMPLATES = [(b, e) for b in ("s1", "asm.v1", "GCA_000001405.15", "sample-a_b") for e in ("fa", "fasta", "fna", "fas", "faa", "txt", None)]


def g5_rule(F, rep):
    """Every body of ragc-core / ragc that opens an input path through a gzip decoder and also returns a String derived
    from that path's file name (the per-file sample name): the derivation is evaluated, with models of std's
    Path/OsStr/str/Option helpers (strint.py), for a table of file names NAME and NAME.gz; both must give the same name -
    otherwise gzipping an input changes the sample list."""
    import strint
    from expr import strip_tags
    n = 0
    for f in F.funcs.values():
        if f.crate not in ("ragc_core", "ragc") or f.kind == "promoted":
            continue
        if not any(not t.get("indirect") and re.search(MULTI + "|" + SINGLE, t["callee"]) for _, t in f.calls()):
            continue
        ex = Exprs(f)
        paths = [nm for l, nm in f.arg_names().items() if re.search(r"Path|PathBuf", f.locals[l]["ty"])]
        # name expressions: String-typed components of the returned value that are built from file_stem/file_name of a path parameter
        cands = []
        for b in f.blocks:
            for s_ in b["stmts"]:
                if s_["k"] == "assign" and s_["pl"]["l"] == 0 and not s_["pl"]["p"]:
                    e = strip_tags(ex.rvalue(s_["rv"]))
                    for x in walk(e):
                        if isinstance(x, tuple) and x[0] == "call" and not re.search(r"Path::(file_stem|file_name|file_prefix)$", x[1]) and \
                                contains(x, lambda y: isinstance(y, tuple) and y[0] == "call" and re.search(r"Path::(file_stem|file_name|file_prefix)$", y[1])):
                            cands.append(x)
        # keep the outermost derivations only
        outer = [c for c in cands if not any(c is not d and contains(d, lambda y: y == c) for d in cands)]
        for e in outer:
            ps = {x[1] for x in walk(e) if isinstance(x, tuple) and x[0] == "param"}
            if len(ps) != 1 or not ps <= set(paths):
                continue
            pname = next(iter(ps))
            n += 1
            bad = []
            undec = None
            for base, ext in NAME_TEMPLATES:
                plain = "/data/in/" + base + ("." + ext if ext else "")
                try:
                    a = strint.eval_tree(F, e, {pname: plain})
                    b2 = strint.eval_tree(F, e, {pname: plain + ".gz"})
                except (Undecidable, strint.Panic) as x:
                    undec = str(x)
                    break
                if a != b2:
                    bad.append("%s -> %r but %s.gz -> %r" % (_bn(plain), a, _bn(plain), b2))
            # different inputs must stay different samples: file names that differ in front of the final extension give different names
            clash = []
            if undec is None:
                try:
                    for a_, b_ in (("yeast.v1.fa", "yeast.v2.fa"), ("asm.1.fna.gz", "asm.2.fna.gz"), ("GCA_1.1.fa", "GCA_1.2.fa"), ("s.a.b.fasta", "s.a.c.fasta")):
                        na, nb = strint.eval_tree(F, e, {pname: "/in/" + a_}), strint.eval_tree(F, e, {pname: "/in/" + b_})
                        if na == nb:
                            clash.append("%s and %s both give %r" % (a_, b_, na))
                except (Undecidable, strint.Panic) as x:
                    undec = str(x)
            rep.ob("C19-G5", "%s: file names that differ before the final extension give different sample names (inputs are not merged)" % f.key.split("::", 1)[-1],
                   undec is None and not clash, detail=("undecidable construct: %s" % undec) if undec else ("; ".join(clash) if clash else "4 pairs evaluated"),
                   site="%s:%d" % (f.file, f.line_lo), key="C19-G5 | %s | names stay distinct" % f.key)
            rep.ob("C19-G5", "%s: the sample name derived from the file name is the same for NAME and NAME.gz" % f.key.split("::", 1)[-1],
                   undec is None and not bad,
                   detail=("undecidable construct: %s" % undec) if undec else ("; ".join(bad[:4]) + (" (%d of %d file names)" % (len(bad), len(NAME_TEMPLATES)) if bad else "%d file names x {plain, .gz} evaluated: %s" % (len(NAME_TEMPLATES), fmt(e)[:160]))),
                   site="%s:%d" % (f.file, f.line_lo), key="C19-G5 | %s | name independent of .gz" % f.key)
    rep.floor("C19-G5", n, 1, "file-name -> sample-name derivations next to a gzip opener (MultiFileIterator::open_file)")


def _bn(p):
    return p.rsplit("/", 1)[-1]


def g6_rule(F, rep):
    """Input letters reach the pipeline through one table (CNV_NUM, case-insensitive by G2).  A dispatch on a byte or char
    against letter constants anywhere else in the live code is a second letter table; it must treat both cases of every
    letter it names alike (the upper- and the lower-case value select the same arm), otherwise soft-masked input takes a
    different path than upper-case input.  The dead helper Base::from_char (a `match` on 'A','C','G','T') is the
    always-present positive control of the matcher."""
    import pipeline
    G = cgmod.CallGraph(F)
    live = pipeline.live_scope(F, G)
    nlive = nctrl = 0
    for k, f in sorted(F.funcs.items()):
        if f.crate not in ("ragc_core", "ragc", "ragc_common") or f.d.get("test") or f.kind == "promoted":
            continue
        for bi, b in enumerate(f.blocks):
            t = b["term"]
            if t["k"] != "switch":
                continue
            arms = {}
            for v, tb in t["targets"]:
                arms[v] = tb
            letters = [v for v in arms if 65 <= v <= 90 or 97 <= v <= 122]
            if len(letters) < 3:
                continue
            ty = t["discr"].get("pl", {}).get("ty", t["discr"].get("ty", ""))
            if ty not in ("u8", "char"):
                continue
            if k not in live:
                nctrl += 1
                continue
            nlive += 1
            bad = [chr(v) for v in letters if arms.get(v ^ 0x20, t["otherwise"]) != arms[v]]
            rep.ob("C19-G6", "letter dispatch in %s treats upper and lower case alike" % k.split("::", 1)[-1], not bad,
                   detail="letters %s are handled, their other case falls into a different arm: soft-masked input is converted differently" % sorted(set(bad)) if bad else "case-closed",
                   site=site_of(f, t), key="C19-G6 | %s | case-closed letter dispatch" % k)
    rep.ob("C19-G6", "no case-sensitive letter table besides the input table (%d letter dispatches in live code, %d in unused helpers)" % (nlive, nctrl), True, how="trivial",
           key="C19-G6 | summary")
    rep.floor("C19-G6", nctrl + nlive, 1, "dispatches on letter constants seen by the matcher (Base::from_char control)")


def g7_rule(F, rep):
    """One PanSN file and one file per sample must give the same archive, so the splitter scan has to look at the same
    sequences in both layouts: the first *sample*.  In create_archive the single-input arm must call the first-sample variant
    of the scan, and the all-contigs variant must be reachable only when there are several input files."""
    ca = F.funcs.get("ragc::create_archive")
    if not rep.floor("C19-G7", 1 if ca else 0, 1, "ragc::create_archive"):
        return
    ex = Exprs(ca)
    first = [(bi, t) for bi, t in ca.calls() if not t.get("indirect") and t["callee"].endswith("determine_splitters_streaming_first_sample")]
    allc = [(bi, t) for bi, t in ca.calls() if not t.get("indirect") and t["callee"].endswith("determine_splitters_streaming")]
    def one_input(bi, want):
        for c in dominating_conds(ca, bi, ex):
            sc = fmt(c[0])
            tv = cond_bool(c[1], c[2])
            if re.fullmatch(r"Eq\((1, \w+::len\(inputs\)|\w+::len\(inputs\), 1)\)", sc) and tv is want:
                return True
        return False
    ok1 = bool(first) and all(one_input(bi, True) for bi, _ in first)
    ok2 = all(one_input(bi, False) for bi, _ in allc)
    rep.ob("C19-G7", "create scans a single input file with the first-sample variant of the splitter scan (same sequences as the first of several files)", ok1,
           detail="%d call(s) of the first-sample scan, guarded by inputs.len() == 1: %s" % (len(first), ok1), site=site_of(ca, first[0][1]) if first else "%s:%d" % (ca.file, ca.line_lo),
           key="C19-G7 | create_archive | single file uses first-sample scan")
    rep.ob("C19-G7", "the all-contigs scan of the first file is used only when there are several input files", ok2,
           detail="%d call(s)" % len(allc), site=site_of(ca, allc[0][1]) if allc else "%s:%d" % (ca.file, ca.line_lo), key="C19-G7 | create_archive | all-contigs scan only for several files")
