"""C18 — behaviour independent of integer-overflow checking: overflow audit (DESIGN 4/C18)."""
import json
import os
import re

from cfg import cfg_of
from expr import Exprs, fmt
from audit import Auditor
from framework import site_of, VERIF
import callgraph as cgmod
import pipeline
import facts as factsmod

EXPLANATION = (
    "Every arithmetic site that the compiler guards with an overflow assertion (Add/Sub/Mul/Neg/Shl/Shr/Div/Rem with "
    "overflow-checks on) in the code reachable from the CLI's create/extract commands and from the public compressor, "
    "decompressor and archive APIs is enumerated from the MIR.  A site is discharged automatically when the branch "
    "conditions and loop bounds that dominate it imply the needed inequality (linear forms, min() expansion, "
    "is_empty / != 0 facts, prefix-mask tests), when interval arithmetic over casts, masks, remainders and typed "
    "leaves shows the result fits, when it is a pure loop counter, or (64-bit add/multiply of in-memory lengths) by "
    "the physical bound.  Every other site must have an entry with a reason in engine/tables/c18_sites.json, keyed "
    "(function, normalised expression); anything else is a violation.  (O3) no debug_assert / debug-only branch in "
    "that code, no per-profile overflow-checks override in the workspace manifest; the thorough tier diffs the "
    "MIR of the dev and release configurations body by body modulo the overflow assertions.")
UNDECIDED = ("that values stay inside the stated bounds B1/B2 and the valid parameter set (they are assumptions on the input "
             "spaces of C01/C04/C14); floating point behaviour; diagnostic commands (inspect, debug-cost)")

EXCLUDE = re.compile(r"^ragc::inspect::|^ragc::debug_cost_command")


def load_table():
    with open(os.path.join(VERIF, "engine", "tables", "c18_sites.json")) as fh:
        d = json.load(fh)
    tab = {(e["function"], e["site"]): e["reason"] for e in d["sites"]}
    # how many sites of the function each entry was confirmed for, and (optionally) the guard it was confirmed under
    META.clear()
    for e in d["sites"]:
        META[(e["function"], e["site"])] = (e.get("count", 1), e.get("under"))
        if e.get("callers"):
            CALLERS[(e["function"], e["site"])] = e["callers"]
    return tab


META = {}
CALLERS = {}
_CALLERS_CACHE = {}


def callers_satisfy_le(F, fkey, pa, pb, depth=0):
    """every call site of fkey passes arguments with  arg(pa) <= arg(pb)  according to the guards dominating the call"""
    ck = (id(F), fkey, pa, pb, "le")
    if ck in _CALLERS_CACHE:
        return _CALLERS_CACHE[ck]
    from mirutil import known_le0, linear, implies_le0, lin_sub, expand_min
    callee = F.funcs.get(fkey)
    names = {nm: l - 1 for l, nm in callee.arg_names().items()} if callee else {}
    if pa not in names or pb not in names:
        res = (False, "parameters %s / %s of %s not found" % (pa, pb, fkey))
    else:
        res = (True, "")
        for k, f in F.funcs.items():
            if f.kind == "promoted" or f.d.get("test"):
                continue
            ex = None
            for bi, t in f.calls():
                if t.get("indirect") or t["callee"] != fkey:
                    continue
                ex = ex or Exprs(f)
                a, b = ex.operand(t["args"][names[pa]]), ex.operand(t["args"][names[pb]])
                known = known_le0(f, bi, ex)
                ok = False
                # b may be min(x, y): a <= min(x, y) iff a <= x and a <= y
                bs = [b]
                if isinstance(b, tuple) and b[0] == "call" and re.search(r"cmp::(Ord::)?min$|::min$", b[1]) and len(b[2]) == 2:
                    bs = list(b[2])
                elif isinstance(b, tuple) and b[0] == "var":
                    from mirutil import _single_source
                    src = _single_source(f, ex, b[1])
                    if isinstance(src, tuple) and src[0] == "call" and re.search(r"cmp::(Ord::)?min$|::min$", src[1]) and len(src[2]) == 2:
                        bs = list(src[2])
                ok = all(implies_le0(known, lin_sub(linear(a), linear(x))) for x in bs)
                if not ok and isinstance(a, tuple) and a[0] == "param" and isinstance(b, tuple) and b[0] == "param" and depth < 4 and f.kind in ("fn", "assocfn"):
                    # the caller hands its own parameters through: the fact is one about *its* callers
                    ok, sub_why = callers_satisfy_le(F, k, a[1], b[1], depth + 1)
                    if not ok:
                        res = (False, sub_why)
                        break
                if not ok:
                    res = (False, "%s passes (%s, %s) without a dominating guard showing %s <= %s (%s)" % (k.split("::", 1)[-1], fmt(a)[:40], fmt(b)[:40], pa, pb, site_of(f, t)))
                    break
            if not res[0]:
                break
    _CALLERS_CACHE[ck] = res
    return res


def callers_satisfy(F, fkey, pname, ge):
    """A table entry whose reason is a fact about the callers: every call site of `fkey` must pass, for parameter
    `pname`, a value that the guards dominating the call show to be >= `ge`.  Returns (ok, description of the first
    call site that does not)."""
    ck = (id(F), fkey, pname, ge)
    if ck in _CALLERS_CACHE:
        return _CALLERS_CACHE[ck]
    from mirutil import known_le0, linear, implies_le0
    callee = F.funcs.get(fkey)
    pos = None
    if callee is not None:
        for l, nm in callee.arg_names().items():
            if nm == pname:
                pos = l - 1
    res = (False, "parameter %s of %s not found" % (pname, fkey))
    if pos is not None:
        res = (True, "")
        ncall = 0
        for k, f in F.funcs.items():
            if f.kind == "promoted" or f.d.get("test"):
                continue
            ex = None
            for bi, t in f.calls():
                if t.get("indirect") or t["callee"] != fkey:
                    continue
                ncall += 1
                ex = ex or Exprs(f)
                arg = ex.operand(t["args"][pos])
                known = known_le0(f, bi, ex)
                la = linear(arg)
                target = {kk: -v for kk, v in la.items() if kk != "1"}
                target["1"] = ge - la.get("1", 0)            # ge - arg <= 0
                if not implies_le0(known, target):
                    res = (False, "%s passes %s without a dominating guard showing it is >= %d (%s)" % (k.split("::", 1)[-1], fmt(arg)[:60], ge, site_of(f, t)))
                    break
            if not res[0]:
                break
        if res[0] and ncall == 0:
            res = (True, "no call sites")
    _CALLERS_CACHE[ck] = res
    return res


USED = {}


def audit_scope(F, keys, rep, table, armed=True):
    used = set()
    USED.clear()
    n = auto = tabled = 0
    # sites of the k-mer window bodies that the slot-domain evaluation (C20-K5/K6) executed for every k in 1..=32,
    # every fill level and every symbol without tripping the assert
    try:
        from rules import c20
        evaluated = c20.window_evaluated(F) if getattr(F, "cfg", "dev") == "dev" else set()
    except Exception as e:       # fail closed: without the evaluation the sites need a guard or a table entry
        evaluated = set()
    for k in sorted(keys):
        f = F.funcs[k]
        if f.crate not in ("ragc_core", "ragc_common", "ragc") or f.kind == "promoted":
            continue
        aud = None
        for bi, b in enumerate(f.blocks):
            t = b["term"]
            if b["cleanup"] or t["k"] != "assert" or t["ak"] != "overflow":
                continue
            if t["sp"].get("exp") and t["sp"].get("mac") in ("eprintln", "println", "format", "eprint", "print"):
                continue       # arithmetic inside a diagnostic print's arguments
            aud = aud or Auditor(f)
            n += 1
            ok, why = aud.discharge(bi, t, wide_ok=True)
            desc = aud.describe(t)
            nkey = aud.describe_norm(t)
            if not ok and (k, bi) in evaluated:
                ok, why = True, "evaluated in the 2-bit slot domain for every k in 1..=32, every fill level 0..=k and every symbol 0..3 (C20-K5/K6): the assert holds in all of them"
            if ok:
                auto += 1
                if armed:
                    rep.ob("C18-O", "%s in %s" % (desc[:120], k.split("::", 1)[-1]), True, detail=why, site=site_of(f, t), how="auto",
                           key="C18-O | %s | %s" % (k, desc))
                continue
            if (k, nkey) in table:
                cnt, under = META.get((k, nkey), (1, None))
                USED[(k, nkey)] = USED.get((k, nkey), 0) + 1
                conds_ok = True
                if under:
                    from mirutil import dominating_conds, cond_bool
                    conds_ok = any(cond_bool(c[1], c[2]) is True and re.search(under, fmt(c[0])) for c in dominating_conds(f, bi, aud.ex))
                cwhy = ""
                if conds_ok and (k, nkey) in CALLERS:
                    cs = CALLERS[(k, nkey)]
                    if "le" in cs:
                        conds_ok, cwhy = callers_satisfy_le(F, k, cs["le"][0], cs["le"][1])
                        what = "%s <= %s" % tuple(cs["le"])
                    else:
                        conds_ok, cwhy = callers_satisfy(F, k, cs["param"], cs["ge"])
                        what = "%s >= %d" % (cs["param"], cs["ge"])
                    if not conds_ok:
                        if armed:
                            rep.ob("C18-O", "%s in %s cannot overflow" % (desc[:160], k.split("::", 1)[-1]), False,
                                   detail="%s; the table entry relies on every caller passing %s, but %s" % (why, what, cwhy), site=site_of(f, t),
                                   key="C18-O | %s | %s" % (k, desc))
                        continue
                if USED[(k, nkey)] > cnt or not conds_ok:
                    if armed:
                        rep.ob("C18-O", "%s in %s cannot overflow" % (desc[:160], k.split("::", 1)[-1]), False,
                               detail="%s; the table entry for this expression was confirmed for %d site(s)%s of this function and does not cover this one" % (
                                   why, cnt, " under a guard matching /%s/" % under if under else ""), site=site_of(f, t), key="C18-O | %s | %s" % (k, desc))
                    continue
                tabled += 1
                used.add((k, nkey))
                if armed:
                    rep.ob("C18-O", "%s in %s" % (desc[:120], k.split("::", 1)[-1]), True, detail="table: " + table[(k, nkey)], site=site_of(f, t),
                           how="table", key="C18-O | %s | %s" % (k, desc))
                continue
            if armed:
                rep.ob("C18-O", "%s in %s cannot overflow" % (desc[:160], k.split("::", 1)[-1]), False,
                       detail="%s; with overflow checks this panics, without them it wraps silently" % why, site=site_of(f, t),
                       key="C18-O | %s | %s" % (k, desc))
            else:
                rep.note("not armed (outside the live scope): %s in %s at %s: %s" % (desc[:100], k, site_of(f, t), why))
    return n, auto, tabled, used


def run(F, rep):
    rep.explanation = EXPLANATION
    rep.undecided = UNDECIDED
    rep.assumptions = ["B0: no in-memory object has 2^63 bytes", "B1: every in-memory sequence (contig, segment, encoded buffer) has fewer than 2^31 elements",
                       "B2: fewer than 2^31 samples, contigs, segments, groups and packs",
                       "valid parameter set of C01: k in 9..32 (audit uses 1..32), min match 15..32, segment size 50..60000"]
    cfgname = getattr(F, "cfg", "dev")
    G = cgmod.CallGraph(F)
    live = {k for k in pipeline.live_scope(F, G) if not EXCLUDE.search(k)}
    if cfgname == "dev":
        table = load_table()
        n, auto, tabled, used = audit_scope(F, live, rep, table)
        rep.stat("overflow_sites", n)
        rep.stat("auto_discharged_sites", auto)
        rep.stat("table_discharged_sites", tabled)
        rep.floor("C18-O", n, 400, "overflow-checked arithmetic sites in the live scope")
        stale = [k for k in table if k not in used]
        for k in stale:
            rep.note("table entry not matched by any site (stale): %s | %s" % k)
        rep.stat("stale_table_entries", len(stale))
        if getattr(F, "tier", "quick") == "thorough":
            rest = {k for k in F.funcs if k not in live}
            n2, a2, t2, _ = audit_scope(F, rest, rep, table, armed=False)
            rep.stat("overflow_sites_outside_live_scope", n2)
        prio_rule(F, rep)
        # (FILE) the wholesale discharge of 64-bit length/offset arithmetic rests on a physical bound that values read from a file do
        # not obey: the arithmetic of the open path on file-derived values is audited with guards in C14 and is part of this property
        from rules import c14
        sub = type(rep)(rep.pid, rep.tier)
        sub.cfg = getattr(rep, "cfg", "dev")
        c14.run(F, sub)
        nf = 0
        for o in sub.obligations:
            if o["rule"] in ("C14-AUDIT", "C14-MISS") and re.search(r"^(Add|Sub|Mul|Shl|Shr|Neg|divzero|bounds)", o["instance"]):
                nf += 1
                rep.ob("C18-FILE", o["instance"], o["ok"], detail=o["detail"], site=o["site"], how=o["how"], key=o["key"].replace(o["rule"], "C18-FILE"))
        rep.floor("C18-FILE", nf, 5, "arithmetic / bounds sites of the open path on file-derived values (shared with C14)")
        # O3: debug-only code
        nd = 0
        for k in sorted(live):
            f = F.funcs[k]
            for bi, b in enumerate(f.blocks):
                if b["cleanup"]:
                    continue
                t = b["term"]
                mac = t["sp"].get("mac", "") if t["sp"].get("exp") else ""
                if mac.startswith("debug_assert"):
                    nd += 1
                    rep.ob("C18-O3", "no debug_assert in %s" % k.split("::", 1)[-1], False,
                           detail="debug_assert! is compiled only with debug assertions: behaviour differs between profiles", site=site_of(f, t),
                           key="C18-O3 | %s | debug_assert" % k)
        rep.ob("C18-O3", "no debug_assert in the live scope (%d bodies)" % len(live), nd == 0, key="C18-O3 | summary")
        # manifest: no per-profile overflow-checks / debug-assertions override
        import framework as fw
        bad = []
        for root, dirs, files in os.walk(fw.repo_root()):
            dirs[:] = [d for d in dirs if d not in ("target", ".git")]
            for fn in files:
                if fn == "Cargo.toml" or fn == "config.toml":
                    txt = open(os.path.join(root, fn)).read()
                    for m in re.finditer(r"^\s*(overflow-checks|debug-assertions)\s*=\s*(\w+)", txt, re.M):
                        bad.append("%s: %s = %s" % (os.path.relpath(os.path.join(root, fn), fw.repo_root()), m.group(1), m.group(2)))
        rep.ob("C18-O3", "no profile overrides of overflow-checks / debug-assertions in the workspace manifests", not bad, detail=str(bad),
               key="C18-O3 | manifests")
    elif cfgname == "rel":
        # diff against dev: same calls and same branching, modulo overflow asserts
        dev = factsmod.Facts(F.all_dirs["dev"])
        ndiff = 0
        ncmp = 0
        for k in sorted(live):
            a, b = dev.funcs.get(k), F.funcs.get(k)
            if a is None or b is None:
                continue
            ncmp += 1
            sa, sb = _skeleton(a), _skeleton(b)
            if sa != sb:
                ndiff += 1
                rep.ob("C18-O3", "dev and release MIR of %s agree modulo overflow assertions" % k.split("::", 1)[-1], False,
                       detail="calls/branches differ: dev %d items, rel %d items; first difference: %s" % (len(sa), len(sb), _first_diff(sa, sb)),
                       site="%s:%d" % (a.file, a.line_lo), key="C18-O3 | %s | profile diff" % k)
        rep.ob("C18-O3", "dev and release MIR agree modulo overflow assertions in %d bodies" % ncmp, ndiff == 0, key="C18-O3 | profile diff summary")
        rep.floor("C18-O3", ncmp, 300, "bodies compared between profiles")


def _skeleton(f):
    """order-insensitive multiset of calls and switch shapes (block order can differ between configs)"""
    out = []
    for b in f.blocks:
        if b["cleanup"]:
            continue
        t = b["term"]
        if t["k"] == "call":
            out.append("call " + (t.get("callee") or "indirect"))
        elif t["k"] == "switch":
            out.append("switch %d" % len(t["targets"]))
        elif t["k"] == "assert" and t["ak"] not in ("overflow", "other"):
            # "other" = the misaligned / null pointer checks rustc adds with debug assertions (UB checks, no behaviour)
            out.append("assert " + t["ak"])
    return sorted(out)


def _first_diff(a, b):
    sa, sb = list(a), list(b)
    from collections import Counter
    d = (Counter(sa) - Counter(sb)) + (Counter(sb) - Counter(sa))
    return list(d.items())[:3]


def prio_rule(F, rep):
    """C18-PRIO: the sync-token priority boost fits: priorities start at most i32::MAX - boost and only decrease"""
    from expr import walk
    I32MAX = (1 << 31) - 1
    ctor = F.funcs.get(pipeline.SQC + "with_splitters_internal")
    push = F.funcs.get(pipeline.SQC + "push")
    if not rep.floor("C18-PRIO", sum(1 for x in (ctor, push) if x), 2, "compressor constructor and push"):
        return
    ex = Exprs(ctor)
    start = None
    for b in ctor.blocks:
        for s in b["stmts"]:
            if s["k"] == "assign" and s["rv"]["k"] == "agg" and s["rv"].get("adt", "").endswith("StreamingQueueCompressor"):
                d = dict(zip(s["rv"]["fields"], [ex.operand(o) for o in s["rv"]["ops"]]))
                e = d.get("next_priority")
                for x in walk(e):
                    if isinstance(x, tuple) and x[0] == "call" and x[1].endswith("Mutex::<T>::new"):
                        from audit import interval
                        iv = interval(Exprs(ctor, keep_casts=True).operand(_arg_of(ctor, x)) if False else x[2][0])
                        if iv and iv[0] == iv[1]:
                            start = iv[0]
    exp = Exprs(push)
    boosts = []
    for b in push.blocks:
        for s in b["stmts"]:
            if s["k"] == "assign" and s["rv"]["k"] == "agg" and s["rv"].get("adt", "").endswith("ContigTask"):
                d = dict(zip(s["rv"]["fields"], [exp.operand(o) for o in s["rv"]["ops"]]))
                pr = d.get("sample_priority")
                if isinstance(pr, tuple) and pr[0] == "bin" and pr[1] == "Add":
                    for o in (pr[2], pr[3]):
                        if o[0] == "const" and isinstance(o[1], int):
                            boosts.append(o[1])
    # every write to the priority state in push is a decrement
    dec_only = True
    for f in [push] + F.closures_of(push.key):
        e2 = Exprs(f)
        for b in f.blocks:
            for s in b["stmts"]:
                if s["k"] == "assign" and s["pl"]["p"] == ["deref"] and s["pl"]["ty"] == "i32" and not s["sp"].get("exp"):
                    v = e2.rvalue(s["rv"])
                    if not (isinstance(v, tuple) and v[0] == "bin" and v[1] == "Sub" and v[3] == ("const", 1)):
                        dec_only = False
    ok = start is not None and bool(boosts) and all(start + bst <= I32MAX for bst in boosts) and dec_only
    rep.ob("C18-PRIO", "sample priorities start low enough for the sync-token boost and only decrease", ok,
           detail="start %s, boosts %s, i32::MAX %d, writes are decrements: %s" % (start, boosts, I32MAX, dec_only),
           site="%s:%d" % (ctor.file, ctor.line_lo), key="C18-PRIO | start + boost <= i32::MAX")
    rep.floor("C18-PRIO", len(boosts), 2, "boosted sync-token priorities in push")


def _arg_of(f, x):
    return None
