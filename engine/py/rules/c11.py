"""C11 — splitter selection: structural clauses (DESIGN 4/C11, P1..P5)."""
import re

from cfg import cfg_of
from expr import Exprs, fmt, walk, contains, strip_tags
from mirutil import is_call, dominating_conds, cond_bool, for_loops, effect_profile, profile_diff, erase_vars, local_updates
from framework import site_of
import callgraph as cgmod
import pipeline

EXPLANATION = (
    "(P1) every k-mer window created in splitter selection, k-mer enumeration, segmentation and the compressor is in "
    "canonical mode and its value is read through data()/data_canonical(), which strand symmetry and agreement "
    "between selection and segmentation need; (P2) singleton detection sees sorted input: every "
    "remove_non_singletons call and duplicate scan is dominated by a sort of the same vector; (P3) parallel k-mer "
    "collection is merged order-insensitively: rayon results are gathered by an indexed collect and then sorted or "
    "poured into sets, with no for_each over shared state; (P4) the in-memory, streaming and first-sample variants "
    "run the same pipeline (enumerate, sort, keep singletons, second pass) and the two second-pass bodies test the "
    "same conditions (window full, distance >= segment size, candidate membership, right-most candidate at the "
    "end); (P5) all results are sets, so contig order cannot show in them.  The value-level laws (subset of "
    "singletons, spacing >= segment size) are not decided.  (P9) the end of the reference sample is found by the "
    "PanSN prefix of each record's own header (C19-G8/G9 shared); (P10) the three variants are interpreted on small "
    "references: same sets from all three, unchanged by later samples, equal to a from-scratch count, order- and strand-independent.")
UNDECIDED = "that splitters are singletons and that interior segments have at least segment-size bases (value-level laws)"

SP = "ragc_core::splitters::"
SORT = re.compile(r"::(radix_sort_unstable|sort|sort_unstable|sort_by\w*|sort_unstable_by\w*|par_sort\w*)$")


def _reaches(g, a, b, within):
    seen, st = set(), [a]
    while st:
        x = st.pop()
        if x == b:
            return True
        if x in seen:
            continue
        seen.add(x)
        st.extend(s for s in g.succ[x] if s in within or s == b)
    return False


def run(F, rep):
    rep.explanation = EXPLANATION
    rep.undecided = UNDECIDED
    rep.assumptions = ["rayon's indexed collect preserves the order of its input; radix_sort_unstable sorts"]
    G = cgmod.CallGraph(F)
    live = pipeline.live_scope(F, G)
    # ------------------------------------------------------------ P9: where the reference sample ends
    # The first-sample variant of the scan stops at the first record whose sample differs from the first record's: the three
    # variants see the same reference only if a record's sample is the PanSN prefix sample#haplotype of its own header
    # (C19-G8 / G9's evaluations of the header parser and the record reader, shared)
    if getattr(F, "cfg", "dev") == "dev":
        from rules import c19
        c19.g8_rule(F, rep, "C11-P9")
        c19.g9_rule(F, rep, "C11-P9")
    # ------------------------------------------------------------ P10: the three variants on small references
    if getattr(F, "cfg", "dev") == "dev":
        variants_rule(F, rep)
    # ------------------------------------------------------------ P1
    nk = 0
    for f in F.funcs.values():
        if f.crate != "ragc_core" or "legacy" in f.key or f.kind == "promoted" or "::ffi::" in f.key or "_ffi::" in f.key:
            continue
        if not re.search(r"^ragc_core::(splitters|kmer_extract|segment|agc_compressor)::", f.key):
            continue
        ex = None
        for bi, t in f.calls():
            if not t.get("indirect") and t["callee"] == "ragc_core::kmer::Kmer::new":
                ex = ex or Exprs(f)
                mode = ex.operand(t["args"][1])
                nk += 1
                ok = isinstance(mode, tuple) and mode[0] == "agg" and mode[1].endswith("KmerMode::Canonical")
                rep.ob("C11-P1", "k-mer window in %s is canonical" % f.key.split("::", 1)[-1], ok, detail=fmt(mode), site=site_of(f, t), key="C11-P1 | %s | canonical mode" % f.key)
            if not t.get("indirect") and re.search(r"kmer::Kmer::(data_dir|data_rc)$", t["callee"]) and f.key in live and not t["sp"].get("exp"):
                rep.ob("C11-P1", "%s reads the k-mer value through data()/data_canonical()" % f.key.split("::", 1)[-1], False, detail=t["callee"], site=site_of(f, t),
                       key="C11-P1 | %s | strand-specific read" % f.key)
    rep.floor("C11-P1", nk, 8, "Kmer::new sites in selection / enumeration / segmentation / compressor")
    # P7: strand symmetry and agreement of the variants presuppose that the canonical value of a window is exact: C20-K5/K6/K1
    from rules import c20
    sub = type(rep)(rep.pid, rep.tier)
    sub.cfg = getattr(rep, "cfg", "dev")
    c20.run(F, sub)
    n7 = 0
    for o in sub.obligations:
        if o["rule"] in ("C20-K5", "C20-K6", "C20-K1"):
            n7 += 1
            rep.ob("C11-P7", o["instance"], o["ok"], detail=o["detail"], site=o["site"], how=o["how"], key=o["key"].replace(o["rule"], "C11-P7/" + o["rule"][4:]))
    rep.floor("C11-P7", n7, 8, "k-mer window clauses shared with C20")

    # ------------------------------------------------------------ P8: no sentinel k-mer in a compare-with-predecessor scan
    # Every u64 is a legal k-mer value (0 is poly-A, u64::MAX is poly-T at k = 32), so a scan over sorted k-mers that
    # compares each element with the previous one must not start `previous` at an integer constant: the first element
    # equal to that constant would be taken for a repeat.  (Index-based scans and Option-typed predecessors are fine.)
    np8 = 0
    for f in F.funcs.values():
        if not re.search(r"^ragc_core::(splitters|kmer_extract)::", f.key) or f.kind == "promoted" or f.d.get("test"):
            continue
        exf = Exprs(f)
        loops = for_loops(f, exf)
        if not loops:
            continue
        ups = local_updates(f, exf)
        for L in loops:
            item_vars = set()
            for nm, bi, e, er in ups:
                # `prev = item` inside the loop: the assigned value is the loop's element
                if bi in L["body"] and f.locals[_local_of(f, nm)]["ty"] == "u64" and contains(e, lambda x: isinstance(x, tuple) and x[0] == "call" and x[1].endswith("Iterator>::next")):
                    item_vars.add(nm)
            for nm in sorted(item_vars):
                compared = False
                for b in L["body"]:
                    t = f.blocks[b]["term"]
                    if t["k"] == "switch":
                        ce = exf.operand(t["discr"])
                        if isinstance(ce, tuple) and ce[0] == "bin" and ce[1] in ("Eq", "Ne") and ("var", nm) in (ce[2], ce[3]):
                            compared = True
                if not compared:
                    continue
                np8 += 1
                inits = [e for n2, bi, e, er in ups if n2 == nm and bi not in L["body"]]
                bad = [e for e in inits if isinstance(e, tuple) and e[0] == "const" and isinstance(e[1], int)]
                rep.ob("C11-P8", "%s: the predecessor `%s` of a compare-with-previous scan over k-mers does not start at a sentinel k-mer value" % (f.key.split("::", 1)[-1], nm),
                       not bad, detail="initial value %s is itself a legal k-mer: a first element equal to it counts as a repeat" % [fmt(e) for e in bad] if bad else "initial values: %s" % [fmt(e)[:40] for e in inits],
                       site=L["site"], key="C11-P8 | %s | sentinel predecessor" % f.key)
    rep.stat("compare_with_previous_scans", np8)

    # ------------------------------------------------------------ P2
    ns = 0
    for f in F.funcs.values():
        if not re.search(r"^ragc_core::(splitters|kmer_extract)::", f.key) or f.kind == "promoted":
            continue
        ex = None
        g = None
        for bi, t in f.calls():
            if t.get("indirect") or not re.search(r"kmer_extract::remove_non_singletons\w*$", t["callee"]):
                continue
            ex = ex or Exprs(f)
            g = g or cfg_of(f)
            ns += 1
            v = strip_tags(ex.operand(t["args"][0]))
            sorts = [b2 for b2, t2 in f.calls() if not t2.get("indirect") and SORT.search(t2["callee"]) and strip_tags(ex.operand(t2["args"][0])) == v]
            ok = any(g.dominates(s, bi) for s in sorts)
            # nothing appends to the vector between the sort and the call
            grow = [b2 for b2, t2 in f.calls() if not t2.get("indirect") and re.search(r"::(push|extend\w*|append|insert)$", t2["callee"]) and strip_tags(ex.operand(t2["args"][0])) == v]
            if ok:
                s0 = [s for s in sorts if g.dominates(s, bi)][-1]
                between = g.reachable_from(s0) & g.can_reach([bi])
                ok = not any(b2 in between and b2 != s0 for b2 in grow)
            rep.ob("C11-P2", "singleton filter in %s runs on a vector that was sorted and not extended afterwards" % f.key.split("::", 1)[-1], ok, site=site_of(f, t),
                   key="C11-P2 | %s | sorted before remove_non_singletons" % f.key)
            # the duplicate scan (adjacent-equal loop) is also after the sort
    rep.floor("C11-P2", ns, 3, "remove_non_singletons call sites")

    # ------------------------------------------------------------ P3
    npar = 0
    for f in F.funcs.values():
        if not re.search(r"^ragc_core::(splitters|kmer_extract)::", f.key) or f.kind == "promoted":
            continue
        for bi, t in f.calls():
            if t.get("indirect"):
                continue
            c = t["callee"]
            if re.search(r"ParallelIterator>?::(for_each|for_each_with|for_each_init|try_for_each)$", c):
                rep.ob("C11-P3", "no parallel for_each (shared mutation in arrival order) in %s" % f.key.split("::", 1)[-1], False, site=site_of(f, t),
                       key="C11-P3 | %s | par for_each" % f.key)
            if re.search(r"ParallelIterator>?::collect$|FromParallelIterator", c):
                npar += 1
                ty = t["dest"]["ty"]
                ok = ty.startswith("alloc::vec::Vec<") or "HashSet" in ty or "BTree" in ty
                rep.ob("C11-P3", "parallel results in %s are gathered by an indexed collect (or into a set)" % f.key.split("::", 1)[-1], ok, detail=ty[:80], site=site_of(f, t),
                       key="C11-P3 | %s | indexed collect" % f.key)
    rep.floor("C11-P3", npar, 2, "parallel collects in splitter selection")

    # ------------------------------------------------------------ P4
    variants = ["determine_splitters", "determine_splitters_streaming", "determine_splitters_streaming_first_sample"]
    sk = {}
    for n in variants:
        f = F.funcs.get(SP + n)
        if not f:
            continue
        seq = []
        order = sorted(f.calls())
        clos = {c.key: c for c in F.closures_of(f.key)}
        for bi, t in order:
            if t.get("indirect") or t["sp"].get("exp"):
                continue
            c = t["callee"]
            if re.search(r"kmer_extract::(enumerate_kmers|remove_non_singletons)$|splitters::find_actual_splitters_in_contig(_named)?$", c):
                seq.append(c.rsplit("::", 1)[-1].replace("_named", ""))
            elif SORT.search(c):
                seq.append("sort")
            elif re.search(r"(map|filter_map|flat_map)$", c):
                # a closure passed to an adaptor: splice in the pipeline steps it calls
                for a in t["args"]:
                    ck = f.locals[a["pl"]["l"]].get("closure") if a["k"] in ("move", "copy") and "pl" in a else None
                    if ck in clos:
                        for _, t2 in clos[ck].calls():
                            if re.search(r"kmer_extract::(enumerate_kmers|remove_non_singletons)$|splitters::find_actual_splitters_in_contig(_named)?$", t2.get("callee", "")):
                                seq.append(t2["callee"].rsplit("::", 1)[-1].replace("_named", ""))
        sk[n] = seq
    rep.stat("variant_skeletons", sk)
    want = ["enumerate_kmers", "sort", "remove_non_singletons", "find_actual_splitters_in_contig"]
    rep.floor("C11-P4", len(sk), 3, "splitter selection variants")
    for n, seq in sk.items():
        rep.ob("C11-P4", "%s runs enumerate -> sort -> keep singletons -> second pass" % n, seq == want, detail=str(seq), key="C11-P4 | %s | skeleton" % n)
    # second-pass siblings test the same conditions
    a, b = F.funcs.get(SP + "find_actual_splitters_in_contig"), F.funcs.get(SP + "find_actual_splitters_in_contig_named")
    if rep.floor("C11-P4", sum(1 for x in (a, b) if x), 2, "second-pass bodies"):
        def conds(f):
            ex = Exprs(f)
            out = set()
            for blk in f.blocks:
                t = blk["term"]
                if t["k"] == "switch" and not t["sp"].get("exp") and not blk["cleanup"]:
                    s = fmt(erase_vars(strip_tags(ex.operand(t["discr"]))))
                    if s.startswith("discr("):
                        continue
                    out.add(s)
            return out
        ca, cb = conds(a), conds(b)
        need = {"Lt(3, (next($) as Some).0)", "Kmer::is_full($)", "Le(segment_size, $)"}
        rep.ob("C11-P4", "both second-pass bodies test: base > 3, window full, distance >= segment size, candidate membership",
               need <= ca and need <= cb and any("contains(candidates" in x for x in ca) and any("contains(candidates" in x for x in cb),
               detail="only in one: %s" % sorted(ca ^ cb), site="%s:%d" % (a.file, a.line_lo), key="C11-P4 | second pass | same conditions")
        pa, pb = effect_profile(a), effect_profile(b)
        dd = profile_diff(pa, pb)
        rep.ob("C11-P4", "both second-pass bodies perform the same state updates under the same guards (window reset, recent-k-mer list cleared on a non-ACGT base and after a split, ...)",
               not dd and sum(pa.values()) >= 12, detail="(in-memory / streaming) %s" % dd[:4] if dd else "%d updates each" % sum(pa.values()),
               site="%s:%d" % (b.file, b.line_lo), key="C11-P4 | second pass | same state updates")
        for f, pf in ((a, pa), (b, pb)):
            resets = [g for (g, eff), n in pf.items() if eff == "call Kmer::reset($)"]
            miss = [g for g in resets if not pf.get((g, "call Vec::clear($)"))]
            rep.ob("C11-P4", "%s: whenever the window restarts (non-ACGT base, or after a split) the list of recent k-mers is cleared too, so the end-of-contig search cannot reach across the restart" % f.key.rsplit("::", 1)[-1],
                   len(resets) >= 2 and not miss, detail="restart without clear under %s" % [[c[:50] for c, _ in g] for g in miss] if miss else "%d restarts" % len(resets),
                   site="%s:%d" % (f.file, f.line_lo), key="C11-P4 | %s | restart clears recent list" % f.key)
        for f in (a, b):
            ex = Exprs(f)
            revs = [L for L in for_loops(f, ex) if contains(L["source"], lambda x: isinstance(x, tuple) and x[0] == "call" and re.search(r"Iterator>?::rev$", x[1]))]
            rep.ob("C11-P4", "%s picks the right-most candidate at the contig end (reverse scan of the recent k-mers)" % f.key.rsplit("::", 1)[-1], len(revs) == 1,
                   site="%s:%d" % (f.file, f.line_lo), key="C11-P4 | %s | end candidate" % f.key)
    # ------------------------------------------------------------ P6: counting pass and second pass see the same windows
    # Both scan every base of every contig and act when the window is full.  A scanner may skip a contig only when
    # it is shorter than k (no window at all): any other shortcut makes the singleton counts and the second pass
    # disagree about which k-mers exist.
    from mirutil import cond_to_le0, implies_le0, linear, lin_sub
    scanners = [f for f in F.funcs.values() if re.search(r"^ragc_core::(kmer_extract::enumerate_kmers|splitters::find_actual_splitters_in_contig(_named)?)$", f.key)]
    rep.floor("C11-P6", len(scanners), 3, "k-mer scanners (counting pass, two second-pass bodies)")
    for f in scanners:
        ex = Exprs(f)
        g = cfg_of(f)
        name = f.key.rsplit("::", 1)[-1]
        ins = [bi for bi, t in f.calls() if not t.get("indirect") and t["callee"].endswith("kmer::Kmer::insert")]
        L = [x for x in for_loops(f, ex) if ins and ins[0] in x["body"]]
        if not L:
            rep.ob("C11-P6", "%s scans the contig in a loop" % name, False, key="C11-P6 | %s | loop" % f.key)
            continue
        L = min(L, key=lambda x: len(x["body"]))
        src = fmt(strip_tags(L["source"]))
        whole = "contig" in src and not re.search(r"::(skip|take|step_by|windows|chunks|rev)\b|Range", src)
        rep.ob("C11-P6", "%s feeds every base of the contig to the window, in order" % name, whole, detail=src[:120], site=L["site"], key="C11-P6 | %s | whole contig" % f.key)
        # exits that bypass the loop
        head = L["head"]
        seen, st = set(), [0]
        while st:
            b = st.pop()
            if b in seen or b == head or f.blocks[b]["cleanup"]:
                continue
            seen.add(b)
            st.extend(g.succ[b])
        rets = [b for b in seen if f.blocks[b]["term"]["k"] == "return"]
        bad = []
        nby = 0
        if rets:
            # blocks from which the return is reachable without the loop: the guards are the switches with one arm inside and one arm outside
            can_ret = set()
            st = list(rets)
            while st:
                b = st.pop()
                if b in can_ret:
                    continue
                can_ret.add(b)
                st.extend(p for p in g.pred[b] if p in seen)
            kname = None
            for bi, t in f.calls():
                if not t.get("indirect") and t["callee"].endswith("kmer::Kmer::new"):
                    ke = strip_tags(ex.operand(t["args"][0]))
                    ps = [x for x in walk(ke) if isinstance(x, tuple) and x[0] == "param"]
                    kname = ps[0] if ps else None
            for b in sorted(seen):
                tt = f.blocks[b]["term"]
                if tt["k"] != "switch" or tt["sp"].get("exp"):
                    continue
                arms = [(v, tb) for v, tb in tt["targets"]] + [(None, tt["otherwise"])]
                byp = [(v, tb) for v, tb in arms if tb in can_ret and tb != head and not _reaches(g, tb, head, seen)]
                goes = [(v, tb) for v, tb in arms if tb == head or _reaches(g, tb, head, seen)]
                if not (byp and goes):
                    continue
                nby += 1
                e = strip_tags(ex.operand(tt["discr"]))
                truth = None
                if len(tt["targets"]) == 1 and tt["targets"][0][0] == 0:
                    truth = byp[0][0] is None          # targets [0 -> false arm], otherwise = true arm
                lens = [x for x in walk(e) if isinstance(x, tuple) and ((x[0] == "call" and x[1].endswith("::len")) or x[0] == "len") and "contig" in fmt(x)]
                ok = False
                if truth is not None and lens and kname is not None:
                    known = cond_to_le0(e, truth) + [{repr(kname): -1, "1": 1}]
                    target = lin_sub(linear(lens[0]), linear(kname))
                    target["1"] = target.get("1", 0) + 1           # len - k + 1 <= 0
                    ok = implies_le0(known, target, unsigned=True)
                if not ok:
                    bad.append("%s is %s" % (fmt(e)[:80], truth))
        rep.ob("C11-P6", "%s skips a contig only when it is shorter than k" % name, not bad, detail="shortcut taken when: %s" % bad if bad else "%d shortcut(s), each implies len < k" % nby,
               site="%s:%d" % (f.file, f.line_lo), key="C11-P6 | %s | shortcut" % f.key)

    # ------------------------------------------------------------ P5
    for n in variants + ["two_pass_splitter_discovery"]:
        f = F.funcs.get(SP + n)
        if f:
            ret = f.d.get("sig", "").split("->")[-1]
            rep.ob("C11-P5", "%s returns sets" % n, "AHashSet<u64>" in ret and "Vec<u64>" not in ret, detail=ret.strip()[:120], how="trivial", key="C11-P5 | %s" % n)


def _local_of(f, name):
    for l, n in f.local_names().items():
        if n == name:
            return l
    return 0


def variants_rule(F, rep, rule="C11-P10"):
    """The in-memory, streaming and first-sample variants are interpreted (feedint.FeedInterp: the FASTA reader replaced by a feed
    of records, hash sets as sets, rayon's indexed iterators as ordered iterators) on small random references - contigs with N,
    repeats, a duplicated contig, a contig shorter than k - for k in 2..4 and two segment sizes:
      * all three return the same (splitters, singletons, duplicates); the first-sample variant is given the reference followed
        by the records of two more samples, which must not change its result;
      * singletons / duplicates are the canonical k-mers occurring exactly once / more than once in the reference (from-scratch
        oracle), they are disjoint, and the splitters are singletons;
      * reversing the contig order and reverse-complementing a contig leaves singletons and duplicates unchanged."""
    import random
    from feedint import FeedInterp
    from absint import Undecidable, Panic
    from rules.c20 import _canon_windows
    S = "ragc_core::splitters::"
    mem, stream, first = F.funcs.get(S + "determine_splitters"), F.funcs.get(S + "determine_splitters_streaming"), F.funcs.get(S + "determine_splitters_streaming_first_sample")
    if not rep.floor(rule, sum(1 for x in (mem, stream, first) if x), 3, "the three splitter-selection variants"):
        return

    def sets(r):
        if isinstance(r, dict) and r.get("__var") == "Ok":
            r = r.get(0, r.get("0"))
        if isinstance(r, dict) and r.get("__var") == "Err":
            return "Err"
        return tuple(frozenset(r[i]["__set"]) for i in range(3))

    def run(f, args, feed):
        it = FeedInterp(F, max_steps=3000000)
        it.world = {"feed": feed}
        return sets(it.call(f, args))
    rnd = random.Random(11)
    bad = {"agree": [], "later": [], "oracle": [], "order": []}
    undec, n = None, 0
    try:
        for trial in range(36):
            k = 2 + trial % 3
            seg = (3, 6)[(trial // 3) % 2]
            nc = 1 + rnd.randrange(3)
            contigs = []
            for ci in range(nc):
                L = rnd.choice((k - 1, k, k + 2, 9, 14, 20))
                c = [rnd.randrange(4) for _ in range(L)]
                if L > 6 and rnd.random() < 0.4:
                    c[rnd.randrange(L)] = 4
                contigs.append(c)
            if nc > 1 and rnd.random() < 0.3:
                contigs[-1] = list(contigs[0])
            ref = [("R#1#c%d" % i, "R#1", "c%d" % i, c) for i, c in enumerate(contigs)]
            others = [("S%d#1#c%d" % (si, i), "S%d#1" % si, "c%d" % i, [rnd.randrange(4) for _ in range(rnd.choice((9, 14, 20)))]) for si in (2, 3) for i in range(2)]
            others[0] = (others[0][0], others[0][1], others[0][2], list(contigs[0][1:]) + [rnd.randrange(4) for _ in range(5)])
            n += 1
            a = run(mem, [("refval", [list(c) for c in contigs]), k, seg], [])
            b = run(stream, ["/ref.fa", k, seg], ref)
            c1 = run(first, ["/ref.fa", k, seg], ref)
            c2 = run(first, ["/all.fa", k, seg], ref + others)
            tag = "k=%d, segment size %d, contigs %s" % (k, seg, contigs)
            if not (a == b == c1):
                bad["agree"].append("%s: in-memory %s, streaming %s, first-sample %s" % (tag, _szs(a), _szs(b), _szs(c1)))
            if c1 != c2:
                bad["later"].append("%s: %s for the reference alone, %s when the records of later samples follow" % (tag, _szs(c1), _szs(c2)))
            cnt = {}
            for cg in contigs:
                for v in _canon_windows(cg, k):
                    cnt[v] = cnt.get(v, 0) + 1
            single, dup = frozenset(v for v, m in cnt.items() if m == 1), frozenset(v for v, m in cnt.items() if m > 1)
            if a != "Err" and not (a[1] == single and a[2] == dup and not (a[1] & a[2]) and a[0] <= a[1]):
                bad["oracle"].append("%s: %d singletons (expected %d), %d duplicates (expected %d), splitters within singletons: %s" % (tag, len(a[1]), len(single), len(a[2]), len(dup), a[0] <= a[1]))
            rc = [list(cg) for cg in contigs[::-1]]
            rc[0] = [(3 - x) if x < 4 else x for x in rc[0][::-1]]
            a2 = run(mem, [("refval", rc), k, seg], [])
            if a != "Err" and a2 != "Err" and (a[1], a[2]) != (a2[1], a2[2]):
                bad["order"].append("%s: singletons/duplicates change when the contigs are reversed and one is reverse-complemented" % tag)
    except Panic as e:
        bad["agree"].append("panics: %s" % e)
    except Undecidable as e:
        undec = str(e)
    site = "%s:%d" % (first.file, first.line_lo)
    for key, text in (("agree", "the in-memory, streaming and first-sample variants return the same sets for the same reference"),
                      ("later", "the first-sample variant's result does not depend on the records that follow the first sample"),
                      ("oracle", "singletons and duplicates are the canonical k-mers occurring once / more than once, are disjoint, and splitters are singletons"),
                      ("order", "singletons and duplicates do not depend on contig order or orientation")):
        rep.ob(rule, text + " (%d small references evaluated)" % n, undec is None and not bad[key],
               detail=("undecidable construct: %s" % undec) if undec else ("; ".join(bad[key][:2]) if bad[key] else "%d references" % n), site=site,
               key="%s | variants | %s" % (rule, key))
    rep.stat("splitter_references_evaluated", n)


def _szs(t):
    return t if t == "Err" else "(%d splitters, %d singletons, %d duplicates)" % (len(t[0]), len(t[1]), len(t[2]))
