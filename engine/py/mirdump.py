#!/usr/bin/env python3
"""debug helper: print functions matching a regex in readable MIR text (current tree)"""
import sys, facts, framework
F = facts.Facts(framework.ensure_facts("dev"))
import expr; expr.FACTS = F
for f in F.find(sys.argv[1]):
    print(facts.dump(f, cleanup=len(sys.argv) > 2))
    print()
