#!/usr/bin/env python3
"""debug helper: print functions matching a regex in readable MIR text"""
import sys, facts
d = sys.argv[1]
F = facts.Facts(d)
for f in F.find(sys.argv[2]):
    print(facts.dump(f, cleanup=len(sys.argv) > 3))
    print()
