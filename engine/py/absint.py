"""Finite-domain evaluation of small scalar MIR bodies (DESIGN 3.10 / 3.11).

An interpreter of the extracted IR over concrete scalar values, used to turn tiny pure
helpers over a finite domain (per-base maps over u8, dispatch predicates, ordering
functions) into tables.  It reads the IR; it does not run compiled ragc code.  The
supported instruction set is deliberately small; anything else raises Undecidable
(fail closed, with the site named).

Values: python ints (wrapped to the type width), tuples/structs as dicts, references
as ("ref", local, proj) or ("refval", value).
"""
import re

from audit import INT_BITS


class Undecidable(Exception):
    pass


class Panic(Exception):
    pass


def wrap(v, ty):
    if ty == "bool":
        return 1 if v else 0
    b = INT_BITS.get(ty)
    if b is None:
        return v
    m = (1 << b) - 1
    v &= m
    if ty.startswith("i") and v >> (b - 1):
        v -= 1 << b
    return v


def f64_of_bits(bits):
    import struct
    return struct.unpack("<d", struct.pack("<Q", bits & ((1 << 64) - 1)))[0]


def float_to_int(v, ty):
    """`as` from f64: truncate toward zero, saturate, NaN -> 0"""
    b = INT_BITS[ty]
    lo, hi = (-(1 << (b - 1)), (1 << (b - 1)) - 1) if ty.startswith("i") else (0, (1 << b) - 1)
    if v != v:
        return 0
    if v == float("inf"):
        return hi
    if v == float("-inf"):
        return lo
    return max(lo, min(hi, int(v)))


def float_binop(base, a, b):
    """IEEE-754 binary64 (a Python float is one): the four operations and the six comparisons"""
    if base == "Add":
        return a + b
    if base == "Sub":
        return a - b
    if base == "Mul":
        return a * b
    if base == "Div":
        if b == 0.0:
            if a == 0.0 or a != a:
                return float("nan")
            import math
            return math.copysign(float("inf"), a) * math.copysign(1.0, b)
        return a / b
    if base in ("Lt", "Le", "Gt", "Ge", "Eq", "Ne"):
        return 1 if {"Lt": a < b, "Le": a <= b, "Gt": a > b, "Ge": a >= b, "Eq": a == b, "Ne": a != b}[base] else 0
    raise Undecidable("float binop %s" % base)


class Interp:
    def __init__(self, F, max_steps=20000, depth=0):
        self.F = F
        self.max_steps = max_steps
        self.depth = depth

    # ------------------------------------------------------------ entry points
    def call(self, func, args):
        """evaluate a whole body; args: list of values for _1.._n"""
        env = {}
        for i, a in enumerate(args):
            env[i + 1] = a
        return self.run(func, env, 0, None)

    def run(self, func, env, start_block, stop):
        """run from start_block; `stop(block, term, env, self)` may return a value to end the run"""
        self.func = func
        self.env = env
        b = start_block
        steps = 0
        while True:
            steps += 1
            if steps > self.max_steps:
                raise Undecidable("step limit in %s" % func.key)
            blk = func.blocks[b]
            for s in blk["stmts"]:
                if s["k"] == "assign":
                    self.assign(s["pl"], self.rvalue(s["rv"]))
                elif s["k"] == "setdiscr":
                    raise Undecidable("set discriminant in %s" % func.key)
            t = blk["term"]
            if stop is not None:
                r = stop(b, t, self)
                if r is not None:
                    return r
            k = t["k"]
            if k == "goto":
                b = t["t"]
            elif k == "return":
                return env.get(0)
            elif k == "switch":
                v = self.operand(t["discr"])
                if isinstance(v, dict) or isinstance(v, tuple):
                    raise Undecidable("switch on non-scalar")
                nb = t["otherwise"]
                for val, tb in t["targets"]:
                    if val == v:
                        nb = tb
                        break
                b = nb
            elif k == "assert":
                c = self.operand(t["cond"])
                if bool(c) != t["expected"]:
                    raise Panic("%s:%s %s" % (t["sp"]["file"], t["sp"]["line"], t["ak"]))
                if getattr(self, "trace", None) is not None:
                    self.trace.add((func.key, b))
                b = t["t"]
            elif k == "call":
                v = self.do_call(t)
                self.assign(t["dest"], v)
                if t["t"] is None:
                    raise Panic("diverging call")
                b = t["t"]
            elif k == "drop":
                b = t["t"]
            elif k == "unreachable":
                raise Panic("unreachable")
            else:
                raise Undecidable("terminator %s in %s" % (k, func.key))

    # ------------------------------------------------------------ places
    def read_place(self, pl):
        if pl["l"] not in self.env:
            raise Undecidable("read of uninitialised _%d in %s" % (pl["l"], self.func.key))
        v = self.env[pl["l"]]
        for pr in pl["p"]:
            v = self.project(v, pr)
        return v

    def project(self, v, pr):
        if pr == "deref":
            if isinstance(v, tuple) and v[0] == "ref":
                x = self.env.get(v[1])
                for p2 in v[2]:
                    x = self.project(x, p2)
                return x
            if isinstance(v, tuple) and v[0] == "refval":
                return v[1]
            raise Undecidable("deref of non-reference")
        if isinstance(pr, dict):
            if "f" in pr:
                if isinstance(v, dict):
                    key = pr.get("n", pr["f"])
                    if key in v:
                        return v[key]
                    if pr["f"] in v:
                        return v[pr["f"]]
                    if str(pr["f"]) in v:
                        return v[str(pr["f"])]
                raise Undecidable("field %s of %r" % (pr, type(v)))
            if "idx" in pr:
                i = self.env[pr["idx"]]
                if isinstance(v, list):
                    if not 0 <= i < len(v):
                        raise Panic("index out of bounds")
                    return v[i]
                raise Undecidable("index into non-array")
            if "cidx" in pr:
                if isinstance(v, list):
                    return v[-pr["cidx"] if pr.get("from_end") else pr["cidx"]]
            if "dc" in pr:
                return v
        raise Undecidable("projection %r" % (pr,))

    def assign(self, pl, v):
        if not pl["p"]:
            self.env[pl["l"]] = v
            return
        # field write into a local aggregate / through a reference
        base = self.env.get(pl["l"])
        path = list(pl["p"])
        if path and path[0] == "deref" and isinstance(base, tuple) and base[0] == "ref":
            target = {"l": base[1], "p": list(base[2]) + path[1:]}
            return self.assign(target, v)
        if base is None:
            base = {}
            self.env[pl["l"]] = base
        cur = base
        for pr in path[:-1]:
            if isinstance(pr, dict) and "f" in pr and isinstance(cur, dict):
                key = pr.get("n", pr["f"])
                cur = cur.setdefault(key, {})
            else:
                raise Undecidable("write through projection %r" % (pr,))
        last = path[-1]
        if isinstance(last, dict) and "f" in last and isinstance(cur, dict):
            cur[last.get("n", last["f"])] = v
        else:
            raise Undecidable("write through projection %r" % (last,))

    # ------------------------------------------------------------ operands
    def operand(self, o):
        k = o["k"]
        if k in ("copy", "move"):
            return self.read_place(o["pl"])
        if k == "const":
            if "int" in o:
                if o.get("ty") == "f64":
                    return f64_of_bits(o["int"])
                if o.get("ty") == "f32":
                    raise Undecidable("f32 constant")
                return o["int"]
            if "fn" in o:
                return ("fn", o["fn"])
            if "item" in o and "promoted" in o:
                key = "%s::{promoted#%d}" % (o["item"], o["promoted"])
                pf = self.F.funcs.get(key)
                if pf is None:
                    raise Undecidable("promoted %s missing" % key)
                sub = Interp(self.F, self.max_steps, self.depth + 1)
                r = sub.call(pf, [])
                # a promoted returns a reference to its own local: materialise the value
                if isinstance(r, tuple) and r[0] == "ref":
                    x = sub.env.get(r[1])
                    for p2 in r[2]:
                        x = sub.project(x, p2)
                    return ("refval", x)
                return r
            if "bytes" in o:
                if o["ty"].startswith("&"):
                    return ("refval", list(o["bytes"]))
                return list(o["bytes"])
            if "item" in o:
                c = self.F.consts.get(o["item"])
                if c and "int" in c:
                    if c.get("ty") == "f64":
                        return f64_of_bits(c["int"])
                    if c.get("ty") == "f32":
                        raise Undecidable("f32 constant")
                    return c["int"]
                if c and "bytes" in c:
                    return list(c["bytes"])
                raise Undecidable("const item %s" % o["item"])
            if o.get("zst") or o["ty"] == "()":
                return {}
            raise Undecidable("constant of type %s" % o["ty"])
        raise Undecidable("operand kind %s" % k)

    def rvalue(self, rv):
        k = rv["k"]
        if k == "use":
            return self.operand(rv["op"])
        if k == "ref" or k == "rawptr":
            pl = rv["pl"]
            # &(*x) == x
            if pl["p"] and pl["p"][-1] == "deref" and len(pl["p"]) == 1:
                return self.env[pl["l"]]
            return ("ref", pl["l"], tuple_json(pl["p"]))
        if k == "binop":
            return self.binop(rv["op"], self.operand(rv["a"]), self.operand(rv["b"]), rv["ty"])
        if k == "unop":
            a = self.operand(rv["a"])
            if rv["op"] == "Not":
                return wrap(~a, rv["ty"]) if rv["ty"] != "bool" else (0 if a else 1)
            if rv["op"] == "Neg":
                return wrap(-a, rv["ty"])
            raise Undecidable("unop %s" % rv["op"])
        if k == "cast":
            v = self.operand(rv["op"])
            if rv["ck"] in ("IntToInt",):
                return wrap(v, rv["ty"])
            if rv["ck"] == "IntToFloat" and rv["ty"] == "f64" and isinstance(v, int):
                return float(v)          # round-to-nearest-even, as `as f64`
            if rv["ck"] == "FloatToInt" and isinstance(v, float) and rv["ty"] in INT_BITS:
                return float_to_int(v, rv["ty"])
            if rv["ck"].startswith("PointerCoercion") or rv["ck"] in ("PtrToPtr", "Transmute"):
                return v
            raise Undecidable("cast %s" % rv["ck"])
        if k == "agg":
            ops = [self.operand(o) for o in rv["ops"]]
            if rv["ak"] == "array":
                return ops
            if rv["ak"] == "tuple":
                return {i: v for i, v in enumerate(ops)}
            if rv["ak"] == "adt":
                d = {"__adt": rv["adt"], "__var": rv["var"]}
                for i, v in enumerate(ops):
                    d[rv["fields"][i] if i < len(rv.get("fields", [])) else i] = v
                return d
            raise Undecidable("aggregate %s" % rv["ak"])
        if k == "discr":
            v = self.read_place(rv["pl"])
            if isinstance(v, dict) and "__var" in v:
                adt = v["__adt"]
                if adt == "core::option::Option":
                    return 0 if v["__var"] == "None" else 1
                if adt == "core::cmp::Ordering":
                    return {"Less": -1, "Equal": 0, "Greater": 1}[v["__var"]]
                if adt == "core::result::Result":
                    return 0 if v["__var"] == "Ok" else 1
                a = self.F.adts.get(adt)
                if a is not None and a["kind"] == "Enum":
                    # field-less local enum without explicit discriminants: index of the variant
                    names = [x["name"] for x in a["variants"]]
                    if v["__var"] in names and all(not x["fields"] for x in a["variants"]):
                        return names.index(v["__var"])
            raise Undecidable("discriminant of %r" % (v,))
        if k == "repeat":
            v = self.operand(rv["op"])
            n = int(re.sub(r"_\w+$", "", rv["n"]))
            if isinstance(v, (list, dict)):
                import copy
                return [copy.deepcopy(v) for _ in range(n)]        # `[[0; 4]; 256]`: 256 arrays, not one array 256 times
            return [v] * n
        raise Undecidable("rvalue %s" % k)

    def binop(self, op, a, b, ty):
        wo = op.endswith("WithOverflow")
        base = op[:-len("WithOverflow")] if wo else op
        if isinstance(a, float) and isinstance(b, float) and ty == "f64":
            return float_binop(base, a, b)
        if not isinstance(a, int) or not isinstance(b, int):
            raise Undecidable("binop on non-scalar")
        if base == "Add":
            r = a + b
        elif base == "Sub":
            r = a - b
        elif base == "Mul":
            r = a * b
        elif base == "Div":
            if b == 0:
                raise Panic("div by zero")
            r = int(a / b) if (a < 0) != (b < 0) else a // b
        elif base == "Rem":
            if b == 0:
                raise Panic("rem by zero")
            r = a - b * (int(a / b) if (a < 0) != (b < 0) else a // b)
        elif base == "BitAnd":
            r = a & b
        elif base == "BitOr":
            r = a | b
        elif base == "BitXor":
            r = a ^ b
        elif base in ("Shl", "ShlUnchecked"):
            r = a << (b & (INT_BITS.get(ty, 64) - 1))
        elif base in ("Shr", "ShrUnchecked"):
            r = a >> (b & (INT_BITS.get(ty, 64) - 1))
        elif base == "Lt":
            return 1 if a < b else 0
        elif base == "Le":
            return 1 if a <= b else 0
        elif base == "Gt":
            return 1 if a > b else 0
        elif base == "Ge":
            return 1 if a >= b else 0
        elif base == "Eq":
            return 1 if a == b else 0
        elif base == "Ne":
            return 1 if a != b else 0
        elif base == "Cmp":
            return {"__adt": "core::cmp::Ordering", "__var": "Less" if a < b else ("Equal" if a == b else "Greater")}
        else:
            raise Undecidable("binop %s" % op)
        w = wrap(r, ty)
        if wo:
            return {0: w, 1: 1 if w != r else 0}
        return w

    # ------------------------------------------------------------ calls
    def deref_arg(self, v):
        while isinstance(v, tuple) and v and v[0] in ("ref", "refval"):
            if v[0] == "refval":
                v = v[1]
            else:
                x = self.env.get(v[1])
                for p2 in v[2]:
                    x = self.project(x, p2)
                v = x
        return v

    def do_call(self, t):
        if t.get("indirect"):
            raise Undecidable("indirect call")
        c = t["callee"]
        if c.endswith("hint::black_box") and len(t["args"]) == 1:
            return self.operand(t["args"][0])
        if t["sp"].get("exp") and t["sp"].get("mac") in ("eprintln", "println", "eprint", "print", "format", "debug", "trace", "log") or \
                re.search(r"std::io::(stdio::)?_e?print$|core::fmt::rt::Argument::<'_>::new_\w+$|core::fmt::Arguments::<'_>::new\w*$|fmt::Arguments::<'a>::new\w*$", c):
            # diagnostics: the printed value is irrelevant to the table; its result is an opaque token
            return ("opaque", c)
        args = [self.operand(a) for a in t["args"]]
        f = self.F.funcs.get(c)
        if f is not None and f.crate in ("ragc_core", "ragc_common", "ragc"):
            if self.depth > 8:
                raise Undecidable("call depth")
            sub = Interp(self.F, self.max_steps, self.depth + 1)
            sub.trace = getattr(self, "trace", None)
            # pass references by value (callee derefs them)
            r = sub.call(f, [self._byval(a) for a in args])
            return r
        if re.search(r"RangeInclusive::<\w+>::contains", c) or re.search(r"RangeInclusive<\w+>.*::contains", c):
            r, x = self.deref_arg(args[0]), self.deref_arg(args[1])
            return 1 if (r["start"] <= x <= r["end"] and not r.get("exhausted", 0)) else 0
        if re.search(r"range::Range::<\w+>::contains|Range<\w+>.*::contains", c):
            r, x = self.deref_arg(args[0]), self.deref_arg(args[1])
            return 1 if r["start"] <= x < r["end"] else 0
        if c.endswith("RangeInclusive::<Idx>::new"):
            return {"__adt": "core::ops::range::RangeInclusive", "__var": "RangeInclusive", "start": args[0], "end": args[1], "exhausted": 0}
        if re.search(r"core::cmp::(Ord::min|min)$|::min$", c) and len(args) == 2 and all(isinstance(self.deref_arg(a), int) for a in args):
            return min(self.deref_arg(args[0]), self.deref_arg(args[1]))
        if re.search(r"core::cmp::(Ord::max|max)$|::max$", c) and len(args) == 2 and all(isinstance(self.deref_arg(a), int) for a in args):
            return max(self.deref_arg(args[0]), self.deref_arg(args[1]))
        if re.search(r"core::cmp::impls::<impl core::cmp::(Partial)?Ord for \w+>::(lt|le|gt|ge)$", c):
            a, b = self.deref_arg(args[0]), self.deref_arg(args[1])
            op = c.rsplit("::", 1)[-1]
            return 1 if {"lt": a < b, "le": a <= b, "gt": a > b, "ge": a >= b}[op] else 0
        if re.search(r"core::cmp::impls::<impl core::cmp::PartialEq(<\w+>)? for \w+>::(eq|ne)$", c):
            a, b = self.deref_arg(args[0]), self.deref_arg(args[1])
            return 1 if ((a == b) == c.endswith("eq")) else 0
        if re.search(r"core::cmp::impls::<impl core::cmp::Ord for \w+>::cmp$", c):
            a, b = self.deref_arg(args[0]), self.deref_arg(args[1])
            return {"__adt": "core::cmp::Ordering", "__var": "Less" if a < b else ("Equal" if a == b else "Greater")}
        if re.search(r"core::num::<impl u8>::(to_ascii_uppercase|to_ascii_lowercase|is_ascii_\w+)$", c):
            x = self.deref_arg(args[0])
            op = c.rsplit("::", 1)[-1]
            ch = chr(x)
            if op == "to_ascii_uppercase":
                return ord(ch.upper()) if x < 128 else x
            if op == "to_ascii_lowercase":
                return ord(ch.lower()) if x < 128 else x
            tests = {"is_ascii_alphabetic": x < 128 and ch.isalpha(), "is_ascii_uppercase": x < 128 and ch.isupper(),
                     "is_ascii_lowercase": x < 128 and ch.islower(), "is_ascii_digit": x < 128 and ch.isdigit(),
                     "is_ascii_whitespace": ch in " \t\n\r\x0c", "is_ascii": x < 128}
            if op in tests:
                return 1 if tests[op] else 0
        if c.endswith("core::ops::deref::Deref>::deref") or c.endswith("core::clone::Clone>::clone") or c.endswith("core::clone::Clone::clone"):
            return self.deref_arg(args[0]) if "clone" in c else args[0]
        if re.search(r"slice::<impl \[T\]>::len$|Vec::<T, A>::len$", c):
            v = self.deref_arg(args[0])
            if isinstance(v, list):
                return len(v)
        if re.search(r"ops::index::Index<I> for \[T; N\]>::index$|ops::index::Index<I> for \[T\]>::index$|<\[T\] as core::ops::index::Index<I>>::index$", c) and len(args) == 2:
            v, r = self.deref_arg(args[0]), self.deref_arg(args[1])
            if isinstance(v, list) and isinstance(r, int):
                if not 0 <= r < len(v):
                    raise Panic("index out of bounds")
                return ("refval", v[r])
            if isinstance(v, list) and isinstance(r, dict) and not r.get("__adt", "").endswith("Inclusive"):
                lo, hi = r.get("start", 0), r.get("end", len(v))
                if isinstance(lo, int) and isinstance(hi, int):
                    if not 0 <= lo <= hi <= len(v):
                        raise Panic("slice range out of bounds")
                    return ("refval", v[lo:hi])
        if re.search(r"slice::<impl \[T\]>::get$", c) and len(args) == 2:
            v, i = self.deref_arg(args[0]), self.deref_arg(args[1])
            if isinstance(v, list) and isinstance(i, int):
                if 0 <= i < len(v):
                    return {"__adt": "core::option::Option", "__var": "Some", 0: ("refval", v[i]), "0": ("refval", v[i])}
                return {"__adt": "core::option::Option", "__var": "None"}
        if re.search(r"core::option::Option::<&'?\w* ?T>::(copied|cloned)$|core::option::Option::<&T>::(copied|cloned)$", c):
            o = self.deref_arg(args[0])
            if isinstance(o, dict) and o.get("__adt") == "core::option::Option":
                if o.get("__var") != "Some":
                    return o
                val = self.deref_arg(o.get(0, o.get("0")))
                return {"__adt": "core::option::Option", "__var": "Some", 0: val, "0": val}
        if re.search(r"core::option::Option::<T>::(unwrap_or|unwrap_or_default|unwrap|expect|is_some|is_none)$", c):
            o = self.deref_arg(args[0])
            if isinstance(o, dict) and o.get("__adt") == "core::option::Option":
                op = c.rsplit("::", 1)[-1]
                is_some = o.get("__var") == "Some"
                val = o.get(0, o.get("0"))
                if op in ("is_some", "is_none"):
                    return 1 if is_some == (op == "is_some") else 0
                if op == "unwrap_or":
                    return val if is_some else args[1]
                if op == "unwrap_or_default":
                    return val if is_some else 0
                if not is_some:
                    raise Panic("unwrap on None")
                return val
        m_ = re.search(r"core::num::<impl (u\d+|usize)>::(wrapping_shl|wrapping_shr|wrapping_mul|saturating_add|saturating_mul|checked_add|checked_sub|checked_mul|checked_shl|checked_shr|"
                       r"leading_zeros|trailing_zeros|count_ones|count_zeros|pow|rotate_left|rotate_right|swap_bytes|abs_diff|min|max|is_power_of_two|next_power_of_two)$", c)
        if m_ and all(isinstance(self.deref_arg(x), int) for x in args):
            ty, op = m_.group(1), m_.group(2)
            bits = INT_BITS.get(ty, 64)
            mask = (1 << bits) - 1
            v = [self.deref_arg(x) for x in args]
            a = v[0]
            b = v[1] if len(v) > 1 else None
            opt = lambda ok, val: {"__adt": "core::option::Option", "__var": "Some", 0: val, "0": val} if ok else {"__adt": "core::option::Option", "__var": "None"}
            if op == "wrapping_shl":
                return (a << (b & (bits - 1))) & mask
            if op == "wrapping_shr":
                return a >> (b & (bits - 1))
            if op == "wrapping_mul":
                return (a * b) & mask
            if op == "saturating_add":
                return min(a + b, mask)
            if op == "saturating_mul":
                return min(a * b, mask)
            if op == "checked_add":
                return opt(a + b <= mask, a + b)
            if op == "checked_sub":
                return opt(a >= b, a - b)
            if op == "checked_mul":
                return opt(a * b <= mask, a * b)
            if op == "checked_shl":
                return opt(b < bits, (a << (b & (bits - 1))) & mask)
            if op == "checked_shr":
                return opt(b < bits, a >> (b & (bits - 1)))
            if op == "leading_zeros":
                return bits - a.bit_length()
            if op == "trailing_zeros":
                return bits if a == 0 else (a & -a).bit_length() - 1
            if op == "count_ones":
                return bin(a).count("1")
            if op == "count_zeros":
                return bits - bin(a).count("1")
            if op == "pow":
                r = a ** b
                if r > mask:
                    raise Panic("pow overflows")
                return r
            if op == "rotate_left":
                b %= bits
                return ((a << b) | (a >> (bits - b))) & mask if b else a
            if op == "rotate_right":
                b %= bits
                return ((a >> b) | (a << (bits - b))) & mask if b else a
            if op == "swap_bytes":
                return int.from_bytes(a.to_bytes(bits // 8, "big"), "little")
            if op == "abs_diff":
                return abs(a - b)
            if op == "min":
                return min(a, b)
            if op == "max":
                return max(a, b)
            if op == "is_power_of_two":
                return 1 if a and not (a & (a - 1)) else 0
            if op == "next_power_of_two":
                return 1 if a <= 1 else 1 << (a - 1).bit_length()
        if re.search(r"core::num::<impl (u\d+|usize)>::(wrapping_sub|wrapping_add|saturating_sub)$", c):
            a, b = args
            ty = re.search(r"impl (u\d+|usize)", c).group(1)
            op = c.rsplit("::", 1)[-1]
            if op == "wrapping_sub":
                return wrap(a - b, ty)
            if op == "wrapping_add":
                return wrap(a + b, ty)
            return max(a - b, 0)
        raise Undecidable("call to %s at %s:%s" % (c, t["sp"]["file"], t["sp"]["line"]))

    def _byval(self, v):
        if isinstance(v, tuple) and v and v[0] == "ref":
            return ("refval", self.deref_arg(v))
        return v


def tuple_json(p):
    out = []
    for x in p:
        out.append(x if not isinstance(x, dict) else x)
    return tuple(_freeze(x) for x in out)


def _freeze(x):
    return x


def tabulate(F, func, domain=range(256), prefix_args=(), by_ref=False):
    """table of a one-scalar-argument body: value -> result (or 'PANIC')"""
    out = {}
    for v in domain:
        it = Interp(F)
        arg = ("refval", v) if by_ref else v
        try:
            out[v] = it.call(func, list(prefix_args) + [arg])
        except Panic as e:
            out[v] = "PANIC"
    return out
