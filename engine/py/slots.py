"""Abstract interpretation of packed k-mer arithmetic in the *2-bit slot domain* (C20-K5/K6).

A 64-bit word is abstracted as 32 slots of two bits, slot 0 being the most significant pair (the k-mer words of
ragc are left-aligned).  A slot holds either a constant 0..3 or `table[s]` for a symbolic base s in {0,1,2,3}
(`table` a 4-tuple: (0,1,2,3) is the base itself, (3,2,1,0) its complement, anything else whatever a per-base
helper computes).  Transfer functions are exact or refuse:

  x << 2c, x >> 2c      slots move, zeros enter (an odd shift is refused)
  x + y, x | y, x ^ y   slot-wise when one side of every slot is the constant 0 (no carry can occur)
  x & m                 slot-wise when every slot of the constant m is 00 or 11
  f(x)                  a local scalar helper applied to a word whose only non-zero slot is the lowest one is
                        tabulated over the four values that slot can take (finite domain, DESIGN 3.10)

Everything else on a symbolic word raises Undecidable (fail closed).  Integers that are not words (k, the fill
level, shift amounts, the mask) stay concrete: the rules enumerate k = 1..=32 and every fill level, which is the
complete parameter space of the property.  This is an interpreter of the extracted MIR over an abstract domain;
it does not run ragc code.
"""
import re

from absint import Interp, Undecidable, Panic, wrap

NS = 32
IDENT = (0, 1, 2, 3)


class Word:
    __slots__ = ("s",)

    def __init__(self, s):
        assert len(s) == NS
        self.s = tuple(s)

    @staticmethod
    def of_int(v):
        v &= (1 << 64) - 1
        return Word([(v >> (62 - 2 * i)) & 3 for i in range(NS)])

    @staticmethod
    def sym(ident, slot=NS - 1, table=IDENT):
        s = [0] * NS
        s[slot] = (ident, tuple(table))
        return Word(s)

    def is_const(self):
        return all(isinstance(x, int) for x in self.s)

    def to_int(self):
        v = 0
        for x in self.s:
            v = (v << 2) | x
        return v

    def __eq__(self, o):
        return isinstance(o, Word) and self.s == o.s

    def __hash__(self):
        return hash(self.s)

    def __repr__(self):
        def one(x):
            if isinstance(x, int):
                return str(x)
            ident, t = x
            return ("%s" % ident) if t == IDENT else ("~%s" % ident) if t == (3, 2, 1, 0) else "%s%r" % (ident, t)
        n = NS
        while n > 0 and self.s[n - 1] == 0:
            n -= 1
        return "[" + " ".join(one(x) for x in self.s[:n]) + (" 0*%d" % (NS - n) if n < NS else "") + "]"


class SByte:
    """one byte of a slot word: four slots, most significant pair first"""
    __slots__ = ("s",)

    def __init__(self, s):
        assert len(s) == 4
        self.s = tuple(s)

    def is_const(self):
        return all(isinstance(x, int) for x in self.s)

    def to_int(self):
        v = 0
        for x in self.s:
            v = (v << 2) | x
        return v

    def __eq__(self, o):
        return isinstance(o, SByte) and self.s == o.s

    def __hash__(self):
        return hash(self.s)

    def __repr__(self):
        return "b" + repr(self.s)


def table_lookup(table, b):
    """table[b] for a 256-entry constant table and a symbolic byte: exact when every output slot of the table is a function
    of exactly one input slot (a slot permutation with a per-slot map, like a byte-wise reverse complement)"""
    if b.is_const():
        return table[b.to_int()]
    if len(table) != 256:
        raise Undecidable("symbolic index into a table of %d entries" % len(table))
    out = []
    for j in range(4):                      # output slot j (0 = most significant pair)
        found = None
        for p in range(4):                  # depends only on input slot p?
            ok = True
            m = {}
            for v in range(256):
                iv = (v >> (6 - 2 * p)) & 3
                ov = (table[v] >> (6 - 2 * j)) & 3
                if m.setdefault(iv, ov) != ov:
                    ok = False
                    break
            if ok:
                found = (p, tuple(m[i] for i in range(4)))
                break
        if found is None:
            raise Undecidable("constant table is not a slot-wise map: output slot %d mixes several input slots" % j)
        p, t = found
        x = b.s[p]
        if isinstance(x, int):
            out.append(t[x])
        else:
            ident, t0 = x
            out.append((ident, tuple(t[t0[i]] for i in range(4))))
    return SByte(out)


def lift(v):
    if isinstance(v, Word):
        return v
    if isinstance(v, int):
        return Word.of_int(v)
    raise Undecidable("not a word: %r" % (v,))


def _slotwise(a, b, op):
    out = []
    for x, y in zip(a.s, b.s):
        if isinstance(x, int) and isinstance(y, int):
            if op == "Add":
                if x + y > 3:
                    raise Undecidable("constants in one slot add up to more than 3 (carry)")
                out.append(x + y)
            elif op == "BitOr":
                out.append(x | y)
            elif op == "BitXor":
                out.append(x ^ y)
            elif op == "BitAnd":
                out.append(x & y)
        elif op == "BitAnd":
            c, s = (x, y) if isinstance(x, int) else (y, x)
            if isinstance(c, int):
                if c == 3:
                    out.append(s)
                elif c == 0:
                    out.append(0)
                else:
                    raise Undecidable("mask cuts through a slot")
            elif x == y:
                out.append(x)
            else:
                raise Undecidable("& of two symbolic slots")
        else:
            if x == 0:
                out.append(y)
            elif y == 0:
                out.append(x)
            elif op == "BitOr" and x == y:
                out.append(x)
            else:
                raise Undecidable("%s of two occupied slots (%r, %r): carry / overlap" % (op, x, y))
    return Word(out)


class SlotInterp(Interp):
    """absint.Interp whose u64 values may be Words."""

    def binop(self, op, a, b, ty):
        if isinstance(a, SByte) or isinstance(b, SByte):
            # the bounds check of a table lookup: a byte is below 256
            if op == "Lt" and isinstance(a, SByte) and isinstance(b, int) and b >= 256:
                return 1
            if isinstance(a, SByte) and a.is_const():
                return self.binop(op, a.to_int(), b, ty)
            if isinstance(b, SByte) and b.is_const():
                return self.binop(op, a, b.to_int(), ty)
            raise Undecidable("%s on a symbolic byte" % op)
        if not isinstance(a, Word) and not isinstance(b, Word):
            return Interp.binop(self, op, a, b, ty)
        wo = op.endswith("WithOverflow")
        base = op[:-len("WithOverflow")] if wo else op
        if base in ("Shl", "Shr", "ShlUnchecked", "ShrUnchecked"):
            if isinstance(b, Word):
                if not b.is_const():
                    raise Undecidable("symbolic shift amount")
                b = b.to_int()
            if ty != "u64":
                raise Undecidable("shift of a symbolic %s" % ty)
            b &= 63
            if b % 2:
                raise Undecidable("odd shift of a slot word")
            c = b // 2
            s = a.s
            if base.startswith("Shl"):
                r = Word(list(s[c:]) + [0] * c)
            else:
                r = Word([0] * c + list(s[:NS - c]))
            return r
        if base in ("Add", "BitOr", "BitXor", "BitAnd"):
            if ty != "u64":
                raise Undecidable("%s on a symbolic %s" % (base, ty))
            r = _slotwise(lift(a), lift(b), base)
            if wo:
                return {0: r, 1: 0}          # no slot carries, so the sum fits
            return r
        raise Undecidable("%s on a symbolic word" % op)

    def project(self, v, pr):
        if isinstance(pr, dict) and "idx" in pr and isinstance(self.env.get(pr["idx"]), SByte):
            tbl = v
            while isinstance(tbl, tuple) and tbl and tbl[0] == "refval":
                tbl = tbl[1]
            if isinstance(tbl, list) and all(isinstance(x, int) for x in tbl):
                return table_lookup(tbl, self.env[pr["idx"]])
            raise Undecidable("symbolic index into a non-constant array")
        return Interp.project(self, v, pr)

    def assign(self, pl, v):
        path = pl["p"]
        if path and isinstance(path[-1], dict) and "idx" in path[-1]:
            tgt = self.read_place({"l": pl["l"], "p": path[:-1]})
            i = self.env[path[-1]["idx"]]
            if isinstance(tgt, list) and isinstance(i, int):
                if not 0 <= i < len(tgt):
                    raise Panic("index out of bounds")
                tgt[i] = v
                return
        return Interp.assign(self, pl, v)

    def rvalue(self, rv):
        if rv["k"] == "cast":
            v = self.operand(rv["op"])
            if isinstance(v, SByte):
                if rv["ck"] == "IntToInt":
                    return v          # widening a byte keeps its four slots (used as an index or re-narrowed)
                raise Undecidable("cast %s of a symbolic byte" % rv["ck"])
            if isinstance(v, Word):
                if rv["ck"] == "IntToInt" and rv["ty"] in ("u64", "i64"):
                    return v
                raise Undecidable("cast of a symbolic word to %s" % rv["ty"])
        if rv["k"] == "unop":
            v = self.operand(rv["a"])
            if isinstance(v, Word):
                raise Undecidable("unary %s on a symbolic word" % rv["op"])
        return Interp.rvalue(self, rv)

    def do_call(self, t):
        if t.get("indirect"):
            raise Undecidable("indirect call")
        c = t["callee"]
        if c.endswith("core::iter::traits::collect::IntoIterator>::into_iter") and len(t["args"]) == 1:
            v = self.operand(t["args"][0])
            if isinstance(v, dict) and v.get("__adt", "").endswith("ops::range::Range"):
                return v             # a range is its own iterator
            raise Undecidable("into_iter on something that is not a range")
        if re.search(r"Iterator for core::ops::range::Range<\w+>>::next$", c):
            r = self.operand(t["args"][0])
            if not (isinstance(r, tuple) and r[0] == "ref"):
                raise Undecidable("Range::next on a non-local range")
            rng = self.deref_arg(r)
            st, en = rng["start"], rng["end"]
            if not isinstance(st, int) or not isinstance(en, int):
                raise Undecidable("symbolic range")
            if st < en:
                self.assign({"l": r[1], "p": list(r[2]) + [{"f": 0, "n": "start"}]}, st + 1)
                return {"__adt": "core::option::Option", "__var": "Some", 0: st}
            return {"__adt": "core::option::Option", "__var": "None"}
        args = [self.operand(a) for a in t["args"]]
        m_ = re.search(r"core::num::<impl u64>::(to_be_bytes|from_be_bytes|to_le_bytes|from_le_bytes)$", c)
        if m_ and args and (isinstance(self.deref_arg(args[0]), (Word, list))):
            op = m_.group(1)
            a0 = self.deref_arg(args[0])
            if op.startswith("to_") and isinstance(a0, Word):
                bs = [SByte(a0.s[4 * i:4 * i + 4]) for i in range(8)]
                bs = [b.to_int() if b.is_const() else b for b in bs]
                return bs if op == "to_be_bytes" else bs[::-1]
            if op.startswith("from_") and isinstance(a0, list) and len(a0) == 8:
                bs = a0 if op == "from_be_bytes" else a0[::-1]
                slots = []
                for b in bs:
                    if isinstance(b, SByte):
                        slots.extend(b.s)
                    elif isinstance(b, int):
                        slots.extend([(b >> 6) & 3, (b >> 4) & 3, (b >> 2) & 3, b & 3])
                    else:
                        raise Undecidable("from_be_bytes of %r" % (b,))
                w = Word(slots)
                return w.to_int() if w.is_const() else w
        m_ = re.search(r"core::num::<impl u64>::(rotate_right|rotate_left)$", c)
        if m_ and len(args) == 2 and isinstance(args[0], Word) and isinstance(args[1], int):
            n = args[1] % 64
            if n % 2:
                raise Undecidable("rotation of a symbolic word by an odd number of bits")
            q = (n // 2) % NS
            sl = list(args[0].s)
            if m_.group(1) == "rotate_right":
                sl = sl[NS - q:] + sl[:NS - q] if q else sl      # slot 0 is the most significant: the low slots come round to the top
            else:
                sl = sl[q:] + sl[:q]
            w = Word(sl)
            return w.to_int() if w.is_const() else w
        if any(isinstance(a, Word) and not a.is_const() for a in args):
            f = self.F.funcs.get(c)
            if f is not None and f.crate in ("ragc_core", "ragc_common") and len(args) == 1:
                w = args[0]
                occupied = [i for i, x in enumerate(w.s) if x != 0]
                if occupied == [NS - 1]:
                    ident, table = w.s[NS - 1]
                    res = []
                    for v in range(4):
                        si = Interp(self.F, self.max_steps, self.depth + 1)
                        si.trace = getattr(self, "trace", None)
                        r = si.call(f, [table[v]])
                        if not isinstance(r, int) or not 0 <= r <= 3:
                            raise Undecidable("%s(%d) = %r does not fit a 2-bit slot" % (c, table[v], r))
                        res.append(r)
                    return Word.sym(ident, NS - 1, tuple(res))
            if f is not None and f.crate in ("ragc_core", "ragc_common"):
                return self._local_call(f, args)
            if re.search(r"core::cmp::(Ord::min|min|Ord::max|max)$", c):
                raise Undecidable("order of symbolic words")
            raise Undecidable("call to %s with a symbolic word" % c)
        f = self.F.funcs.get(c)
        if f is not None and f.crate in ("ragc_core", "ragc_common"):
            return self._local_call(f, args)
        return Interp.do_call(self, t)

    def _local_call(self, f, args):
        """call a local body; a reference to a struct is passed as a reference to the *same* cell (python dicts alias),
        so that a `&mut self` callee's writes are seen by the caller; other references are passed by value"""
        if self.depth > 8:
            raise Undecidable("call depth")
        sub = SlotInterp(self.F, self.max_steps, self.depth + 1)
        sub.trace = getattr(self, "trace", None)
        env = {}
        for i, a in enumerate(args):
            if isinstance(a, tuple) and a and a[0] == "ref":
                tgt = self.deref_arg(a)
                if isinstance(tgt, dict):
                    env[9000 + i] = tgt
                    env[i + 1] = ("ref", 9000 + i, ())
                    continue
                env[i + 1] = ("refval", tgt)
            else:
                env[i + 1] = a
        return sub.run(f, env, 0, None)


def window_words(k, n, comp):
    """abstract state after n <= k inserts of w1..wn: forward word and reverse-complement word"""
    d = [0] * NS
    r = [0] * NS
    for i in range(n):
        d[i] = ("w%d" % (i + 1), IDENT)
        r[i] = ("w%d" % (n - i), tuple(comp))
    return Word(d), Word(r)
