"""Discharge of panic-capable arithmetic/index sites (shared by C14 and C18).

A site is an `Assert` terminator (overflow / bounds / division).  It is discharged
automatically when
  * the assert condition folds to a constant,
  * interval arithmetic over the reconstructed operand trees (casts from narrower types,
    masks, remainders, shifts, constants, lengths compared by guards) shows the result fits, or
  * the branch conditions dominating the site imply the needed inequality (linear forms).
Everything else is returned as undischarged; the caller consults its table or reports.
"""
import re

from expr import Exprs, fmt
from mirutil import known_le0, linear, lin_sub, implies_le0

INT_BITS = {"u8": 8, "u16": 16, "u32": 32, "u64": 64, "u128": 128, "usize": 64,
            "i8": 8, "i16": 16, "i32": 32, "i64": 64, "i128": 128, "isize": 64}


def ty_range(ty):
    if ty == "bool":
        return (0, 1)
    if ty == "char":
        return (0, 0x10FFFF)
    b = INT_BITS.get(ty)
    if b is None:
        return None
    if ty.startswith("u"):
        return (0, (1 << b) - 1)
    return (-(1 << (b - 1)), (1 << (b - 1)) - 1)


def interval(e, depth=0):
    """(lo, hi) of an expression tree built with keep_casts=True, or None"""
    if not isinstance(e, tuple) or depth > 30:
        return None
    k = e[0]
    if k == "const" and isinstance(e[1], int):
        return (e[1], e[1])
    if k == "cast":
        inner = interval(e[1], depth + 1)
        src = ty_range(e[3]) if len(e) > 3 else None
        dst = ty_range(e[2])
        cand = inner or src
        if cand and dst and dst[0] <= cand[0] and cand[1] <= dst[1]:
            return cand
        if inner and src and src[0] <= inner[0] and inner[1] <= src[1] and dst and dst[0] <= inner[0] and inner[1] <= dst[1]:
            return inner
        return dst
    if k == "bin":
        op = e[1]
        a, b = interval(e[2], depth + 1), interval(e[3], depth + 1)
        if op == "BitAnd":
            c = [x for x in (a, b) if x and x[0] == x[1] and x[0] >= 0]
            if c:
                return (0, min(x[1] for x in c))
            return None
        if op == "Rem" and b and b[0] == b[1] and b[0] > 0:
            if a and a[0] >= 0:
                return (0, min(a[1], b[0] - 1))
            return (-(b[0] - 1), b[0] - 1) if a is None else (0, b[0] - 1)
        if op == "Shr" and a and b and b[0] == b[1] and a[0] >= 0:
            return (a[0] >> b[0], a[1] >> b[0])
        if op == "Div" and a and b and b[0] == b[1] and b[0] > 0 and a[0] >= 0:
            return (a[0] // b[0], a[1] // b[0])
        if a is None or b is None:
            return None
        if op == "Add":
            return (a[0] + b[0], a[1] + b[1])
        if op == "Sub":
            return (a[0] - b[1], a[1] - b[0])
        if op == "Mul":
            c = [a[0] * b[0], a[0] * b[1], a[1] * b[0], a[1] * b[1]]
            return (min(c), max(c))
        if op == "Shl" and b[0] == b[1] and a[0] >= 0:
            return (a[0] << b[0], a[1] << b[0])
        if op in ("Lt", "Le", "Eq", "Ne"):
            return (0, 1)
        return None
    if k == "un" and e[1] == "Not":
        return None
    if k == "discr":
        return (0, 255)
    if k == "call":
        c = e[1]
        if re.search(r"::(min)$", c) and len(e[2]) == 2:
            a, b = interval(e[2][0], depth + 1), interval(e[2][1], depth + 1)
            his = [x[1] for x in (a, b) if x]
            los = [x[0] for x in (a, b) if x]
            if his:
                return (min(los) if len(los) == 2 else 0, min(his))
        if re.search(r"core::num::<impl u(8|16|32|64|size)>::(count_ones|leading_zeros|trailing_zeros)$", c):
            return (0, 128)
    return None


def const_fold(e):
    iv = interval(e)
    if iv and iv[0] == iv[1]:
        return iv[0]
    if isinstance(e, tuple) and e[0] == "bin" and e[1] in ("Lt", "Le", "Eq", "Ne"):
        a, b = interval(e[2]), interval(e[3])
        if a and b:
            if e[1] == "Lt":
                if a[1] < b[0]:
                    return 1
                if a[0] >= b[1]:
                    return 0
            if e[1] == "Le":
                if a[1] <= b[0]:
                    return 1
                if a[0] > b[1]:
                    return 0
    return None


class Auditor:
    def __init__(self, func):
        self.f = func
        self.ex = Exprs(func)
        self.exk = Exprs(func, keep_casts=True)
        self._known = {}

    def known(self, bi):
        if bi not in self._known:
            self._known[bi] = known_le0(self.f, bi, self.ex)
        return self._known[bi]

    def describe(self, t):
        ak = t["ak"]
        if ak == "overflow":
            a = fmt(self.ex.operand(t["a"]))
            b = fmt(self.ex.operand(t["b"])) if "b" in t else ""
            return "%s(%s%s) on %s" % (t["op"], a, ", " + b if b else "", t["ty"].rsplit("::", 1)[-1])
        if ak == "bounds":
            return "index %s < len %s" % (fmt(self.ex.operand(t["index"])), fmt(self.ex.operand(t["len"])))
        if ak in ("divzero", "remzero"):
            return "%s by %s" % (ak, fmt(self.ex.operand(t["a"])))
        return ak

    def discharge(self, bi, t):
        """returns (ok, reason)"""
        ak = t["ak"]
        ex, exk = self.ex, self.exk
        # constant condition
        c = const_fold(exk.operand(t["cond"]))
        if c is not None and bool(c) == t["expected"]:
            return True, "assert condition is constant"
        if ak == "overflow":
            op = t["op"]
            ty = t["ty"]
            tr = ty_range(ty)
            if op in ("Shl", "Shr"):
                # cond is `shift < bits`
                return False, "shift amount not constant"
            a, b = exk.operand(t["a"]), exk.operand(t["b"]) if "b" in t else None
            if op == "Neg":
                ia = interval(a)
                if ia and tr and -ia[1] >= tr[0] and -ia[0] <= tr[1]:
                    return True, "operand interval %s" % (ia,)
                return False, "negation may overflow"
            ia, ib = interval(a), interval(b)
            if ia and ib and tr:
                res = interval(("bin", op, a, b))
                if res and tr[0] <= res[0] and res[1] <= tr[1]:
                    return True, "interval %s %s %s fits %s" % (ia, op, ib, ty)
            if op == "Sub":
                la, lb = linear(ex.operand(t["a"])), linear(ex.operand(t["b"]))
                target = lin_sub(lb, la)          # b - a <= 0
                if implies_le0(self.known(bi), target):
                    return True, "dominating guard implies %s <= %s" % (fmt(ex.operand(t["b"])), fmt(ex.operand(t["a"])))
                # lower bound known from intervals: a >= lo_a, b <= hi_b
                if ia and ib and ia[0] >= ib[1]:
                    return True, "intervals"
            if op == "Add" and tr:
                # a + b <= max: guard implies a + b - max <= 0 ?
                la, lb = linear(ex.operand(t["a"])), linear(ex.operand(t["b"]))
                s = dict(la)
                for k, v in lb.items():
                    s[k] = s.get(k, 0) + v
                s["1"] = s.get("1", 0) - tr[1]
                if implies_le0(self.known(bi), s):
                    return True, "dominating guard bounds the sum"
            return False, "no dominating guard or interval bounds it"
        if ak == "bounds":
            idx, ln = exk.operand(t["index"]), exk.operand(t["len"])
            ii, il = interval(idx), interval(ln)
            if ii and il and ii[1] < il[0]:
                return True, "index interval %s below length %s" % (ii, il)
            target = lin_sub(linear(ex.operand(t["index"])), linear(ex.operand(t["len"])))
            target["1"] = target.get("1", 0) + 1      # idx - len + 1 <= 0
            if implies_le0(self.known(bi), target):
                return True, "dominating guard implies index < len"
            return False, "index not bounded by a dominating guard"
        if ak in ("divzero", "remzero"):
            ia = interval(exk.operand(t["a"]))
            if ia and (ia[0] > 0 or ia[1] < 0):
                return True, "divisor is a non-zero constant"
            # guard: divisor != 0 / > 0
            for k in self.known(bi):
                pass
            d = linear(ex.operand(t["a"]))
            neg = {kk: -v for kk, v in d.items()}
            neg["1"] = neg.get("1", 0) + 1          # 1 - d <= 0  <=> d >= 1
            if implies_le0(self.known(bi), neg):
                return True, "dominating guard implies divisor >= 1"
            return False, "divisor may be zero"
        return False, "unrecognised assert kind"
