"""Discharge of panic-capable arithmetic/index sites (shared by C14 and C18).

A site is an `Assert` terminator (overflow / bounds / division).  It is discharged
automatically when
  * the assert condition folds to a constant,
  * interval arithmetic over the reconstructed operand trees (casts from narrower types,
    masks, remainders, shifts, constants, lengths compared by guards) shows the result fits, or
  * the branch conditions dominating the site imply the needed inequality (linear forms).
Everything else is returned as undischarged; the caller consults its table or reports.
"""
import re

from expr import Exprs, fmt
from mirutil import known_le0, linear, lin_sub, implies_le0

INT_BITS = {"u8": 8, "u16": 16, "u32": 32, "u64": 64, "u128": 128, "usize": 64,
            "i8": 8, "i16": 16, "i32": 32, "i64": 64, "i128": 128, "isize": 64}


def ty_range(ty):
    if ty == "bool":
        return (0, 1)
    if ty == "char":
        return (0, 0x10FFFF)
    b = INT_BITS.get(ty)
    if b is None:
        return None
    if ty.startswith("u"):
        return (0, (1 << b) - 1)
    return (-(1 << (b - 1)), (1 << (b - 1)) - 1)


def interval(e, depth=0, env=None):
    """(lo, hi) of an expression tree built with keep_casts=True, or None.
    env: repr(atom without casts) -> (lo, hi) bounds derived from dominating guards"""
    if not isinstance(e, tuple) or depth > 30:
        return None
    k = e[0]
    if env:
        r = env.get(repr(_strip_casts(e)))
        if r is not None:
            base = _interval0(e, depth, env)
            if base is None:
                return r
            return (max(r[0], base[0]), min(r[1], base[1]))
    return _interval0(e, depth, env)


def _strip_casts(e):
    if isinstance(e, tuple):
        if e and e[0] == "cast":
            return _strip_casts(e[1])
        return tuple(_strip_casts(x) if isinstance(x, tuple) else x for x in e)
    return e


def _interval0(e, depth=0, env=None):
    k = e[0]
    if k == "const" and isinstance(e[1], int):
        return (e[1], e[1])
    if k == "cast":
        inner = interval(e[1], depth + 1, env)
        src = ty_range(e[3]) if len(e) > 3 else None
        dst = ty_range(e[2])
        cand = inner or src
        if cand and dst and dst[0] <= cand[0] and cand[1] <= dst[1]:
            return cand
        if inner and src and src[0] <= inner[0] and inner[1] <= src[1] and dst and dst[0] <= inner[0] and inner[1] <= dst[1]:
            return inner
        return dst
    if k == "bin":
        op = e[1]
        a, b = interval(e[2], depth + 1, env), interval(e[3], depth + 1, env)
        if op == "BitAnd":
            c = [x for x in (a, b) if x and x[0] == x[1] and x[0] >= 0]
            if c:
                return (0, min(x[1] for x in c))
            return None
        if op == "Rem" and b and b[0] == b[1] and b[0] > 0:
            if a and a[0] >= 0:
                return (0, min(a[1], b[0] - 1))
            return (-(b[0] - 1), b[0] - 1) if a is None else (0, b[0] - 1)
        if op == "Shr" and a and b and b[0] == b[1] and a[0] >= 0:
            return (a[0] >> b[0], a[1] >> b[0])
        if op == "Div" and a and b and b[0] == b[1] and b[0] > 0 and a[0] >= 0:
            return (a[0] // b[0], a[1] // b[0])
        if a is None or b is None:
            return None
        if op == "Add":
            return (a[0] + b[0], a[1] + b[1])
        if op == "Sub":
            return (a[0] - b[1], a[1] - b[0])
        if op == "Mul":
            c = [a[0] * b[0], a[0] * b[1], a[1] * b[0], a[1] * b[1]]
            return (min(c), max(c))
        if op == "Shl" and b[0] == b[1] and a[0] >= 0:
            return (a[0] << b[0], a[1] << b[0])
        if op == "Shl" and a[0] >= 0 and 0 <= b[1] < 128:
            # a negative or too large shift amount is an overflow site of its own (audited there)
            return (a[0] << max(0, b[0]), a[1] << b[1])
        if op in ("Lt", "Le", "Eq", "Ne"):
            return (0, 1)
        return None
    if k == "un" and e[1] == "Not":
        return None
    if k == "discr":
        return (0, 255)
    if k == "call":
        c = e[1]
        if re.search(r"::(min)$", c) and len(e[2]) == 2:
            a, b = interval(e[2][0], depth + 1, env), interval(e[2][1], depth + 1, env)
            his = [x[1] for x in (a, b) if x]
            los = [x[0] for x in (a, b) if x]
            if his:
                return (min(los) if len(los) == 2 else 0, min(his))
        if re.search(r"core::num::<impl u(8|16|32|64|size)>::(count_ones|leading_zeros|trailing_zeros)$", c):
            return (0, 128)
    return None


def const_fold(e):
    iv = interval(e)
    if iv and iv[0] == iv[1]:
        return iv[0]
    if isinstance(e, tuple) and e[0] == "bin" and e[1] in ("Lt", "Le", "Eq", "Ne"):
        a, b = interval(e[2]), interval(e[3])
        if a and b:
            if e[1] == "Lt":
                if a[1] < b[0]:
                    return 1
                if a[0] >= b[1]:
                    return 0
            if e[1] == "Le":
                if a[1] <= b[0]:
                    return 1
                if a[0] > b[1]:
                    return 0
    return None


class Auditor:
    def __init__(self, func):
        self.f = func
        self.ex = Exprs(func)
        self.exk = Exprs(func, keep_casts=True)
        self._known = {}
        self._loops = None
        self._counters = None

    # ------------------------------------------------------------ facts
    def loop_facts(self, bi):
        """inequalities that hold inside for-loops: `for i in a..b` gives a <= i < b;
        `for (i, x) in v.iter().enumerate()` gives i + 1 <= len(v)"""
        from mirutil import for_loops
        from expr import walk, strip_tags
        if self._loops is None:
            self._loops = for_loops(self.f, self.ex)
        out = []
        for L in self._loops:
            if bi not in L["body"]:
                continue
            nb = L["next_block"]
            t = self.f.blocks[nb]["term"]
            item = ("field", ("variant", self.ex.call(t), "Some"), "0")
            src = L["source"]
            if L["range"]:
                lo, hi = linear(L["range"][0]), linear(L["range"][1])
                li = linear(item)
                out.append(lin_sub(lo, li))                       # lo - i <= 0
                f2 = lin_sub(li, hi)
                f2["1"] = f2.get("1", 0) + 1
                out.append(f2)                                    # i - hi + 1 <= 0
            elif isinstance(src, tuple) and src[0] == "call" and re.search(r"Iterator>?::enumerate$", src[1]):
                inner = src[2][0]
                base = None
                if isinstance(inner, tuple) and inner[0] == "call" and re.search(r"::(iter|iter_mut|into_iter)$", inner[1]):
                    base = inner[2][0]
                elif isinstance(inner, tuple):
                    base = inner
                if base is not None:
                    idx = ("field", item, "0")
                    li = linear(idx)
                    for lenfn in ("core::slice::<impl [T]>::len", "alloc::vec::Vec::<T, A>::len"):
                        f3 = lin_sub(li, {repr(("call", lenfn, (base,))): 1})
                        f3["1"] = f3.get("1", 0) + 1
                        out.append(f3)                            # i + 1 - len <= 0
        return out

    def known(self, bi):
        if bi not in self._known:
            k = known_le0(self.f, bi, self.ex)
            k.extend(self.loop_facts(bi))
            self._known[bi] = k
        return self._known[bi]

    def leaf_env(self):
        """type ranges of named integer locals (parameters and variables)"""
        if getattr(self, "_leaf", None) is None:
            env = {}
            f = self.f
            argc = f.d["arg_count"]
            for l, nm in f.local_names().items():
                r = ty_range(f.locals[l]["ty"])
                if r is None:
                    continue
                kind = "param" if 0 < l <= argc else "var"
                env[repr((kind, nm))] = r
            self._leaf = env
        return self._leaf

    def env(self, bi):
        """atom -> (lo, hi) from the types of named locals and from single-atom guards"""
        env = dict(self.leaf_env())
        for k in self.known(bi):
            if isinstance(k, tuple):
                k = k[1]
            atoms = [a for a in k if a != "1"]
            if len(atoms) != 1:
                continue
            a = atoms[0]
            c = k.get("1", 0)
            co = k[a]
            lo, hi = env.get(a, (-(1 << 127), (1 << 127)))
            if not isinstance(co, int) or co == 0:
                continue
            if co > 0:          # co*a + c <= 0  ->  a <= floor(-c/co)
                hi = min(hi, (-c) // co)
            else:               # -|co|*a + c <= 0 -> a >= ceil(c/|co|)
                lo = max(lo, -((-c) // (-co)))
            env[a] = (lo, hi)
        # prefix-mask tests: (x & m) == c with m = the high bits of a byte  =>  c <= x <= c + (0xff ^ m)
        from mirutil import ATOM_EXPR
        for a, (lo, hi) in list(env.items()):
            e = ATOM_EXPR.get(a)
            if lo == hi and isinstance(e, tuple) and e[0] == "bin" and e[1] == "BitAnd":
                for m, x in ((e[2], e[3]), (e[3], e[2])):
                    if isinstance(m, tuple) and m[0] == "const" and isinstance(m[1], int) and 0 < m[1] < 256:
                        low = 255 ^ m[1]
                        if (low + 1) & low == 0 and lo & low == 0:
                            old = env.get(repr(x), (0, 255))
                            env[repr(x)] = (max(old[0], lo), min(old[1], lo + low))
        return env

    def counters(self):
        """locals used as pure counters: every definition is a constant < 2^16 or `self + small const`"""
        if self._counters is None:
            cs = set()
            f = self.f
            for l, ds in self.ex.defs.items():
                nm = f.local_names().get(l)
                if not nm:
                    continue
                ok = bool(ds)
                for d in ds:
                    if d[0] != "rv":
                        ok = False
                        break
                    e = self.ex.rvalue(d[3])
                    if e[0] == "const" and isinstance(e[1], int) and abs(e[1]) < (1 << 16):
                        continue
                    if e[0] == "bin" and e[1] == "Add" and ("var", nm) in (e[2], e[3]):
                        o = e[3] if e[2] == ("var", nm) else e[2]
                        if o[0] == "const" and isinstance(o[1], int) and 0 <= o[1] <= 16:
                            continue
                    ok = False
                    break
                if ok:
                    cs.add(nm)
            self._counters = cs
        return self._counters

    def describe(self, t):
        ak = t["ak"]
        if ak == "overflow":
            a = fmt(self.ex.operand(t["a"]))
            b = fmt(self.ex.operand(t["b"])) if "b" in t else ""
            return "%s(%s%s) on %s" % (t["op"], a, ", " + b if b else "", t["ty"].rsplit("::", 1)[-1])
        if ak == "bounds":
            return "index %s < len %s" % (fmt(self.ex.operand(t["index"])), fmt(self.ex.operand(t["len"])))
        if ak in ("divzero", "remzero"):
            return "%s by %s" % (ak, fmt(self.ex.operand(t["a"])))
        return ak

    def describe_norm(self, t, upvars=True):
        """descriptor used as table key: names of locals and of captured variables are erased (a rename must not change a verdict)"""
        def erase(e):
            if isinstance(e, tuple):
                if e and e[0] == "var":
                    return ("var", "$")
                if e and e[0] == "upvar" and upvars:
                    return ("var", "$")
                return tuple(erase(x) if isinstance(x, tuple) else x for x in e)
            return e
        from expr import strip_tags
        ak = t["ak"]
        if ak == "overflow":
            a = fmt(erase(strip_tags(self.ex.operand(t["a"]))))
            b = fmt(erase(strip_tags(self.ex.operand(t["b"])))) if "b" in t else ""
            return "%s(%s%s) on %s" % (t["op"], a, ", " + b if b else "", t["ty"].rsplit("::", 1)[-1])
        return self.describe(t)

    def _op_unsigned(self, opnd):
        if opnd["k"] in ("copy", "move"):
            ty = opnd["pl"].get("ty") or self.f.locals[opnd["pl"]["l"]]["ty"]
            return ty in ("u8", "u16", "u32", "u64", "u128", "usize")
        if opnd["k"] == "const":
            return isinstance(opnd.get("v", opnd.get("int", 0)), int) and opnd.get("v", opnd.get("int", 0)) >= 0
        return False

    def discharge(self, bi, t, wide_ok=False):
        """returns (ok, reason).  wide_ok: 64-bit Add/Mul on lengths/offsets are discharged by the
        physical bound (no object has 2^63 bytes)."""
        ak = t["ak"]
        ex, exk = self.ex, self.exk
        env = self.env(bi)
        c = const_fold(exk.operand(t["cond"]))
        if c is not None and bool(c) == t["expected"]:
            return True, "assert condition is constant"
        if ak == "overflow":
            op = t["op"]
            ty = t["ty"]
            tr = ty_range(ty)
            unsigned = ty.startswith("u")
            a = exk.operand(t["a"])
            b = exk.operand(t["b"]) if "b" in t else None
            def clamp(iv, opnd):
                # an unsigned operand is >= 0: a subtraction inside it that could wrap is a site of its own
                if iv and self._op_unsigned(opnd) and iv[0] < 0 <= iv[1]:
                    return (0, iv[1])
                return iv
            if op in ("Shl", "Shr"):
                ib = clamp(interval(b, env=env), t["b"])
                bits = INT_BITS.get(ty, 64)
                if ib and 0 <= ib[0] and ib[1] < bits:
                    return True, "shift amount in %s" % (ib,)
                if self._op_unsigned(t["b"]):
                    lb = dict(linear(ex.operand(t["b"])))
                    lb["1"] = lb.get("1", 0) - (bits - 1)
                    if implies_le0(self.known(bi), lb, unsigned=True):
                        return True, "dominating guard implies shift amount < %d" % bits
                return False, "shift amount not bounded below the bit width"
            if op == "Neg":
                ia = interval(a, env=env)
                if ia and tr and -ia[1] >= tr[0] and -ia[0] <= tr[1]:
                    return True, "operand interval %s" % (ia,)
                return False, "negation may overflow"
            if op in ("Div", "Rem"):
                ib = interval(b, env=env)
                if ib and (ib[0] > 0 or (ib[1] < 0 and ib[0] != -1 and ib[1] != -1)):
                    return True, "divisor interval %s (MIN / -1 impossible)" % (ib,)
                return False, "signed division may overflow"
            ia, ib = clamp(interval(a, env=env), t["a"]), clamp(interval(b, env=env), t["b"])
            if ia and ib and tr:
                res = _interval0(("bin", op, ("const", 0), ("const", 0)), 0, None)
                lohi = None
                if op == "Add":
                    lohi = (ia[0] + ib[0], ia[1] + ib[1])
                elif op == "Sub":
                    lohi = (ia[0] - ib[1], ia[1] - ib[0])
                elif op == "Mul":
                    cands = [ia[0] * ib[0], ia[0] * ib[1], ia[1] * ib[0], ia[1] * ib[1]]
                    lohi = (min(cands), max(cands))
                if lohi and tr[0] <= lohi[0] and lohi[1] <= tr[1]:
                    return True, "interval %s %s %s fits %s" % (ia, op, ib, ty)
            if op in ("Sub", "Add") and ty in ("i64", "isize") and wide_ok:
                def from_len(x):
                    return isinstance(x, tuple) and ((x[0] == "cast" and len(x) > 3 and x[3] in ("usize", "u64", "u32", "u16", "u8")) or
                                                     (x[0] == "const" and isinstance(x[1], int) and abs(x[1]) < (1 << 62)))
                if from_len(a) and from_len(b):
                    return True, "signed 64-bit %s of two in-memory lengths (each < 2^63 by the physical limit)" % op
            if op == "Sub":
                la, lb = linear(ex.operand(t["a"])), linear(ex.operand(t["b"]))
                target = lin_sub(lb, la)          # b - a <= 0
                if unsigned and implies_le0(self.known(bi), target, unsigned=True):
                    return True, "dominating guard / loop bound implies %s <= %s" % (fmt(ex.operand(t["b"])), fmt(ex.operand(t["a"])))
                if not unsigned and tr and ia and ib is None:
                    pass
                return False, "no dominating guard or interval shows %s <= %s" % (fmt(ex.operand(t["b"])), fmt(ex.operand(t["a"])))
            if op in ("Add", "Mul") and wide_ok and ty in ("usize", "u64", "i64", "isize"):
                return True, "64-bit %s of in-memory lengths/offsets/counters: bounded by the physical limit (no object of 2^63 bytes)" % op
            if op == "Add" and tr:
                # pure counter + small constant
                ea, eb = ex.operand(t["a"]), ex.operand(t["b"])
                for x, y in ((ea, eb), (eb, ea)):
                    if isinstance(x, tuple) and x[0] == "var" and x[1] in self.counters() and y[0] == "const" and isinstance(y[1], int) and 0 <= y[1] <= 16:
                        return True, "counter `%s` (starts at a small constant, only incremented by <= 16 per loop iteration): bounded by the number of in-memory items (< 2^31)" % x[1]
                la, lb = linear(ea), linear(eb)
                s2 = dict(la)
                for k2, v in lb.items():
                    s2[k2] = s2.get(k2, 0) + v
                s2["1"] = s2.get("1", 0) - tr[1]
                if implies_le0(self.known(bi), s2, unsigned=unsigned):
                    return True, "dominating guard bounds the sum"
            return False, "no dominating guard or interval bounds it"
        if ak == "bounds":
            idx, ln = exk.operand(t["index"]), exk.operand(t["len"])
            ii, il = interval(idx, env=env), interval(ln, env=env)
            if ii and il and ii[1] < il[0]:
                return True, "index interval %s below length %s" % (ii, il)
            target = lin_sub(linear(ex.operand(t["index"])), linear(ex.operand(t["len"])))
            target["1"] = target.get("1", 0) + 1      # idx - len + 1 <= 0
            if implies_le0(self.known(bi), target):
                return True, "dominating guard implies index < len"
            return False, "index not bounded by a dominating guard"
        if ak in ("divzero", "remzero"):
            ia = interval(exk.operand(t["a"]), env=env)
            if ia and (ia[0] > 0 or ia[1] < 0):
                return True, "divisor is non-zero (%s)" % (ia,)
            d = linear(ex.operand(t["a"]))
            neg = {kk: -v for kk, v in d.items()}
            neg["1"] = neg.get("1", 0) + 1          # 1 - d <= 0  <=> d >= 1
            if implies_le0(self.known(bi), neg):
                return True, "dominating guard implies divisor >= 1"
            return False, "divisor may be zero"
        return False, "unrecognised assert kind"
