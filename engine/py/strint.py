"""Finite-domain evaluation of *name derivations* (C19-G5): pure expressions over a file path built from
std's Path / OsStr / str / Option helpers and closures, evaluated for a finite set of file-name templates.

Same idea as absint (DESIGN 3.10): the IR is interpreted, ragc is not run.  Values: python str for &str, String,
OsStr, Path; ("Some", v) / ("None",) for Option; bool.  The std helpers are modelled by their documented
meaning (below); anything not modelled raises Undecidable (fail closed, the construct is named).
"""
import re

from absint import Interp, Undecidable, Panic

NONE = ("None",)


def some(v):
    return ("Some", v)


def _basename(p):
    p = p.rstrip("/")
    return p.rsplit("/", 1)[-1]


def path_file_name(p):
    b = _basename(p)
    if b in ("", "..", "."):
        return NONE
    return some(b)


def path_file_stem(p):
    fn = path_file_name(p)
    if fn == NONE:
        return NONE
    b = fn[1]
    if "." not in b[1:]:
        return some(b)               # no extension, or a dot file
    return some(b.rsplit(".", 1)[0])


def path_extension(p):
    fn = path_file_name(p)
    if fn == NONE:
        return NONE
    b = fn[1]
    if "." not in b[1:]:
        return NONE
    return some(b.rsplit(".", 1)[1])


def _p(x):
    """a pattern argument: char constant (tagged or as its code point) or string"""
    if isinstance(x, tuple) and x and x[0] == "char":
        return x[1]
    if isinstance(x, int) and not isinstance(x, bool):
        return chr(x)
    return x


def _last(c):
    return c.rsplit("::", 1)[-1]


class StrInterp(Interp):
    """absint.Interp with string values; used for closure bodies"""

    def operand(self, o):
        if o["k"] == "const" and "bytes" in o and o.get("ty", "").replace("&'static ", "&") in ("&str",):
            return bytes(o["bytes"]).decode("utf-8", "replace")
        if o["k"] == "const" and o.get("ty") == "char" and "int" in o:
            return ("char", chr(o["int"]))
        return Interp.operand(self, o)

    def rvalue(self, rv):
        if rv["k"] == "agg" and rv.get("ak") == "closure":
            return {"__closure": rv["closure"], "caps": [self.operand(o) for o in rv["ops"]]}
        if rv["k"] == "agg" and rv.get("ak") == "adt" and rv.get("adt") == "core::option::Option":
            ops = [self.operand(o) for o in rv["ops"]]
            return some(ops[0]) if rv["var"] == "Some" else NONE
        if rv["k"] == "discr":
            v = self.read_place(rv["pl"])
            if isinstance(v, tuple) and v and v[0] in ("Some", "None"):
                return 1 if v[0] == "Some" else 0
        return Interp.rvalue(self, rv)

    def project(self, v, pr):
        if isinstance(v, tuple) and v and v[0] == "Some" and isinstance(pr, dict):
            if "dc" in pr:
                return v
            if "f" in pr:
                return v[1]
        if isinstance(v, str) and pr == "deref":
            return v
        if isinstance(v, dict) and "__closure" in v and isinstance(pr, dict) and "f" in pr:
            return v["caps"][pr["f"]]
        return Interp.project(self, v, pr)

    def do_call(self, t):
        if t.get("indirect"):
            raise Undecidable("indirect call")
        args = [self.deref_arg(self.operand(a)) for a in t["args"]]
        return apply_model(self.F, t["callee"], args, "%s:%s" % (t["sp"]["file"], t["sp"]["line"]))


def call_closure(F, clo, args):
    if isinstance(clo, dict) and "__closure" in clo:
        f = F.funcs.get(clo["__closure"])
        if f is None:
            raise Undecidable("closure body %s missing" % clo["__closure"])
        it = StrInterp(F)
        return it.call(f, [clo] + list(args))
    if isinstance(clo, tuple) and clo and clo[0] == "fn":
        return apply_model(F, clo[1], list(args), "fn item")
    raise Undecidable("not a closure: %r" % (clo,))


def apply_model(F, c, a, where):
    n = _last(c)
    if c.endswith("hint::black_box") and len(a) == 1:
        return a[0]
    if re.search(r"std::path::Path::file_stem$", c):
        return path_file_stem(a[0])
    if re.search(r"std::path::Path::file_name$", c):
        return path_file_name(a[0])
    if re.search(r"std::path::Path::file_prefix$", c):
        fn = path_file_name(a[0])
        if fn == NONE:
            return NONE
        b = fn[1]
        return some(b if "." not in b[1:] else b[0] + b[1:].split(".", 1)[0])
    if re.search(r"std::path::Path::extension$", c):
        return path_extension(a[0])
    if re.search(r"std::path::Path::(new|as_os_str|to_path_buf)$|path::PathBuf::(from|as_path)$|OsStr::(new|to_os_string)$|OsString::(as_os_str)$", c):
        return a[0]
    if re.search(r"OsStr::to_str$|std::path::Path::to_str$", c):
        return some(a[0])
    if re.search(r"(OsStr|Path)::to_string_lossy$", c):
        return a[0]
    if re.search(r"Option::<T>::and_then$", c):
        return call_closure(F, a[1], [a[0][1]]) if a[0] != NONE else NONE
    if re.search(r"Option::<T>::map$", c):
        return some(call_closure(F, a[1], [a[0][1]])) if a[0] != NONE else NONE
    if re.search(r"Option::<T>::filter$", c):
        return a[0] if a[0] != NONE and call_closure(F, a[1], [a[0][1]]) else NONE
    if re.search(r"Option::<T>::unwrap_or_else$", c):
        return a[0][1] if a[0] != NONE else call_closure(F, a[1], [])
    if re.search(r"Option::<T>::(unwrap_or)$", c):
        return a[0][1] if a[0] != NONE else a[1]
    if re.search(r"Option::<T>::(unwrap|expect)$", c):
        if a[0] == NONE:
            raise Panic("unwrap on None at %s" % where)
        return a[0][1]
    if re.search(r"Option::<T>::(is_some|is_none)$", c):
        return 1 if (a[0] != NONE) == (n == "is_some") else 0
    if re.search(r"str::<impl str>::trim_end_matches$|str>::trim_end_matches$", c):
        s, pat = a[0], a[1]
        pat = _p(pat)
        if not isinstance(pat, str):
            raise Undecidable("trim_end_matches with a non-literal pattern at %s" % where)
        while pat and s.endswith(pat):
            s = s[:-len(pat)]
        return s
    if re.search(r"str::<impl str>::trim_start_matches$", c):
        s, pat = a[0], a[1]
        pat = _p(pat)
        while pat and s.startswith(pat):
            s = s[len(pat):]
        return s
    if re.search(r"str::<impl str>::strip_suffix$", c):
        pat = _p(a[1])
        return some(a[0][:-len(pat)]) if pat and a[0].endswith(pat) else (some(a[0]) if pat == "" else NONE)
    if re.search(r"str::<impl str>::strip_prefix$", c):
        pat = _p(a[1])
        return some(a[0][len(pat):]) if a[0].startswith(pat) else NONE
    if re.search(r"str::<impl str>::(ends_with|starts_with|contains)$", c):
        pat = _p(a[1])
        return 1 if {"ends_with": a[0].endswith(pat), "starts_with": a[0].startswith(pat), "contains": pat in a[0]}[n] else 0
    if re.search(r"str::<impl str>::(trim|trim_end|trim_start)$", c):
        return {"trim": a[0].strip(), "trim_end": a[0].rstrip(), "trim_start": a[0].lstrip()}[n]
    if re.search(r"str::<impl str>::(to_lowercase|to_ascii_lowercase)$", c):
        return a[0].lower()
    if re.search(r"str::<impl str>::(to_uppercase|to_ascii_uppercase)$", c):
        return a[0].upper()
    if re.search(r"str::<impl str>::len$|String::len$", c):
        return len(a[0].encode())
    if re.search(r"str::<impl str>::is_empty$|String::is_empty$", c):
        return 1 if a[0] == "" else 0
    if re.search(r"(ToString>::to_string|ToString::to_string|ToOwned>::to_owned|ToOwned::to_owned|String::from|Into<\w+>>::into|From<[^>]*>>::from|Clone>::clone|Clone::clone|String::as_str|Deref>::deref|AsRef<[^>]*>>::as_ref|Borrow<[^>]*>>::borrow|str::<impl str>::to_owned|str::<impl str>::to_string|String::as_ref|Cow<'_, B>::(into_owned|to_string)|into_owned)$", c):
        return a[0]
    if re.search(r"cmp::PartialEq(<[^>]*>)?( for [^>]*)?>::(eq|ne)$", c) and len(a) == 2:
        return 1 if ((a[0] == a[1]) == (n == "eq")) else 0
    r = _text_models(c, a, n, where)
    if r is not _NOMODEL:
        return r
    f = F.funcs.get(c)
    if f is not None and f.crate in ("ragc_core", "ragc_common", "ragc"):
        return StrInterp(F).call(f, a)
    raise Undecidable("no model for %s at %s" % (c, where))


_NOMODEL = object()


def _pat(x, where):
    x = x[1] if isinstance(x, tuple) and x and x[0] == "char" else x
    if isinstance(x, int):
        x = chr(x)
    if not isinstance(x, str) or x == "":
        raise Undecidable("non-literal or empty pattern at %s" % where)
    return x


def decode_fmt_template(tpl, args, where):
    """core::fmt::Arguments::new(template, args): 0 ends; 1..=127 a literal of that many bytes; 0x80 a literal with a
    16-bit length; 0xC0 the next argument with default formatting.  Anything else (width, precision, positional
    arguments) is not modelled."""
    out, i, ai = [], 0, 0
    tpl = list(tpl)
    while i < len(tpl):
        b = tpl[i]
        i += 1
        if b == 0:
            break
        if 1 <= b <= 0x7F:
            out.append(bytes(tpl[i:i + b]).decode("utf-8", "replace"))
            i += b
        elif b == 0x80:
            ln = tpl[i] | (tpl[i + 1] << 8)
            i += 2
            out.append(bytes(tpl[i:i + ln]).decode("utf-8", "replace"))
            i += ln
        elif b == 0xC0:
            if ai >= len(args):
                raise Undecidable("format template names more arguments than given at %s" % where)
            v = args[ai]
            ai += 1
            if not (isinstance(v, tuple) and v and v[0] == "fmtarg"):
                raise Undecidable("format argument that is not Display/Debug of a string or integer at %s" % where)
            out.append(v[1])
        else:
            raise Undecidable("format placeholder with options (0x%02X) at %s" % (b, where))
    return "".join(out)


def _text_models(c, a, n, where):
    if re.search(r"str::<impl str>::(split|rsplit)$", c) and isinstance(a[0], str):
        parts = a[0].split(_pat(a[1], where))
        return {"__strs": parts[::-1] if n == "rsplit" else parts, "pos": 0}
    if re.search(r"str::<impl str>::(splitn|rsplitn)$", c) and isinstance(a[0], str) and isinstance(a[1], int):
        if a[1] == 0:
            return {"__strs": [], "pos": 0}
        pat = _pat(a[2], where)
        parts = a[0].split(pat, a[1] - 1) if n == "splitn" else a[0].rsplit(pat, a[1] - 1)[::-1]
        return {"__strs": parts, "pos": 0}
    if re.search(r"str::<impl str>::split_whitespace$", c) and isinstance(a[0], str):
        return {"__strs": a[0].split(), "pos": 0}
    if re.search(r"str::<impl str>::(split_once|rsplit_once)$", c) and isinstance(a[0], str):
        pat = _pat(a[1], where)
        if pat not in a[0]:
            return NONE
        x, y = a[0].split(pat, 1) if n == "split_once" else a[0].rsplit(pat, 1)
        return some({0: x, 1: y})
    if re.search(r"str::<impl str>::(find|rfind)$", c) and isinstance(a[0], str):
        pat = _pat(a[1], where)
        i = a[0].find(pat) if n == "find" else a[0].rfind(pat)
        return some(len(a[0][:i].encode())) if i >= 0 else NONE
    if re.search(r"str::<impl str>::matches$", c) and isinstance(a[0], str):
        pat = _pat(a[1], where)
        return {"__strs": [pat] * a[0].count(pat), "pos": 0}
    if re.search(r"Iterator::collect$", c) and isinstance(a[0], dict) and "__strs" in a[0]:
        return list(a[0]["__strs"][a[0]["pos"]:])
    if re.search(r"Iterator::count$", c) and isinstance(a[0], dict) and "__strs" in a[0]:
        return len(a[0]["__strs"]) - a[0]["pos"]
    if re.search(r"Iterator>::next$|Iterator::next$|DoubleEndedIterator>::next_back$", c) and isinstance(a[0], dict) and "__strs" in a[0]:
        it = a[0]
        if n == "next_back":
            if it["pos"] < len(it["__strs"]):
                return some(it["__strs"].pop())
            return NONE
        if it["pos"] < len(it["__strs"]):
            it["pos"] += 1
            return some(it["__strs"][it["pos"] - 1])
        return NONE
    if re.search(r"Iterator::nth$", c) and isinstance(a[0], dict) and "__strs" in a[0] and isinstance(a[1], int):
        it = a[0]
        rest = it["__strs"][it["pos"]:]
        if a[1] < len(rest):
            it["pos"] += a[1] + 1
            return some(rest[a[1]])
        it["pos"] = len(it["__strs"])
        return NONE
    if re.search(r"Iterator::last$", c) and isinstance(a[0], dict) and "__strs" in a[0]:
        rest = a[0]["__strs"][a[0]["pos"]:]
        return some(rest[-1]) if rest else NONE
    if re.search(r"Iterator::(skip|take)$", c) and isinstance(a[0], dict) and "__strs" in a[0] and isinstance(a[1], int):
        rest = a[0]["__strs"][a[0]["pos"]:]
        return {"__strs": rest[a[1]:] if n == "skip" else rest[:a[1]], "pos": 0}
    if re.search(r"(Vec::<T(, A)?>|slice::<impl \[T\]>)::len$", c) and isinstance(a[0], list):
        return len(a[0])
    if re.search(r"(Vec::<T(, A)?>|slice::<impl \[T\]>)::is_empty$", c) and isinstance(a[0], list):
        return 1 if not a[0] else 0
    if re.search(r"(Vec::<T(, A)?>|slice::<impl \[T\]>)::(first|last)$", c) and isinstance(a[0], list):
        return some(a[0][0 if n == "first" else -1]) if a[0] else NONE
    if re.search(r"slice::<impl \[T\]>::get$", c) and isinstance(a[0], list) and isinstance(a[1], int):
        return some(a[0][a[1]]) if 0 <= a[1] < len(a[0]) else NONE
    if re.search(r"Index<I>>::index$|Index<I> for [^>]*>::index$", c) and isinstance(a[0], (list, str)):
        v, r = a[0], a[1]
        if isinstance(v, str):
            v = v.encode()
        if isinstance(r, int):
            if isinstance(a[0], str):
                raise Undecidable("integer index into a string at %s" % where)
            if not 0 <= r < len(v):
                raise Panic("index out of bounds at %s" % where)
            return v[r]
        if isinstance(r, dict):
            lo, hi = r.get("start", 0), r.get("end", len(v))
            if r.get("__adt", "").endswith("RangeInclusive") or r.get("__adt", "").endswith("RangeToInclusive"):
                raise Undecidable("inclusive range at %s" % where)
            if not (isinstance(lo, int) and isinstance(hi, int)):
                raise Undecidable("symbolic range at %s" % where)
            if not 0 <= lo <= hi <= len(v):
                raise Panic("range out of bounds at %s" % where)
            return v[lo:hi].decode("utf-8", "replace") if isinstance(a[0], str) else list(v[lo:hi])
    if re.search(r"slice::<impl \[T\]>::(join|concat)$", c) and isinstance(a[0], list) and all(isinstance(x, str) for x in a[0]):
        return (a[1] if n == "join" else "").join(a[0])
    if re.search(r"fmt::rt::Argument::<'_>::new_(display|debug)$", c):
        v = a[0]
        if isinstance(v, str):
            return ("fmtarg", v if n == "new_display" else '"%s"' % v)
        if isinstance(v, int) and not isinstance(v, bool):
            return ("fmtarg", str(v))
        raise Undecidable("format argument of an unmodelled type at %s" % where)
    if re.search(r"fmt::Arguments::<'\w+>::new$", c) and isinstance(a[0], list) and isinstance(a[1], list):
        return decode_fmt_template(a[0], a[1], where)
    if re.search(r"fmt::Arguments::<'\w+>::from_str$", c) and isinstance(a[0], str):
        return a[0]
    if re.search(r"alloc::fmt::format$|fmt::format::format_inner$|core::hint::must_use$", c):
        return a[0]
    if re.search(r"String::push_str$", c):
        raise Undecidable("in-place string building at %s" % where)
    return _NOMODEL


def eval_tree(F, e, env):
    """evaluate a reconstructed expression tree (expr.Exprs) with string semantics; env: parameter name -> value"""
    if not isinstance(e, tuple):
        raise Undecidable("cannot evaluate %r" % (e,))
    k = e[0]
    if k == "param":
        if e[1] in env:
            return env[e[1]]
        raise Undecidable("free parameter %s" % e[1])
    if k == "const":
        return e[1]
    if k == "str":
        return e[1]
    if k == "closure":
        return {"__closure": e[1], "caps": []}
    if k == "fn":
        return ("fn", e[1])
    if k == "call":
        args = [eval_tree(F, a, env) for a in e[2]]
        return apply_model(F, e[1], args, "expression")
    if k == "agg" and e[1] == "core::option::Option::Some":
        return some(eval_tree(F, dict(e[2])["0"], env))
    if k == "agg" and e[1] == "core::option::Option::None":
        return NONE
    raise Undecidable("cannot evaluate %s node" % k)
