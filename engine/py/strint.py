"""Finite-domain evaluation of *name derivations* (C19-G5): pure expressions over a file path built from
std's Path / OsStr / str / Option helpers and closures, evaluated for a finite set of file-name templates.

Same idea as absint (DESIGN 3.10): the IR is interpreted, ragc is not run.  Values: python str for &str, String,
OsStr, Path; ("Some", v) / ("None",) for Option; bool.  The std helpers are modelled by their documented
meaning (below); anything not modelled raises Undecidable (fail closed, the construct is named).
"""
import re

from absint import Interp, Undecidable, Panic

NONE = ("None",)


def some(v):
    return ("Some", v)


def _basename(p):
    p = p.rstrip("/")
    return p.rsplit("/", 1)[-1]


def path_file_name(p):
    b = _basename(p)
    if b in ("", "..", "."):
        return NONE
    return some(b)


def path_file_stem(p):
    fn = path_file_name(p)
    if fn == NONE:
        return NONE
    b = fn[1]
    if "." not in b[1:]:
        return some(b)               # no extension, or a dot file
    return some(b.rsplit(".", 1)[0])


def path_extension(p):
    fn = path_file_name(p)
    if fn == NONE:
        return NONE
    b = fn[1]
    if "." not in b[1:]:
        return NONE
    return some(b.rsplit(".", 1)[1])


def _last(c):
    return c.rsplit("::", 1)[-1]


class StrInterp(Interp):
    """absint.Interp with string values; used for closure bodies"""

    def operand(self, o):
        if o["k"] == "const" and "bytes" in o and o.get("ty", "").replace("&'static ", "&") in ("&str",):
            return bytes(o["bytes"]).decode("utf-8", "replace")
        if o["k"] == "const" and o.get("ty") == "char" and "int" in o:
            return ("char", chr(o["int"]))
        return Interp.operand(self, o)

    def rvalue(self, rv):
        if rv["k"] == "agg" and rv.get("ak") == "closure":
            return {"__closure": rv["closure"], "caps": [self.operand(o) for o in rv["ops"]]}
        if rv["k"] == "agg" and rv.get("ak") == "adt" and rv.get("adt") == "core::option::Option":
            ops = [self.operand(o) for o in rv["ops"]]
            return some(ops[0]) if rv["var"] == "Some" else NONE
        if rv["k"] == "discr":
            v = self.read_place(rv["pl"])
            if isinstance(v, tuple) and v and v[0] in ("Some", "None"):
                return 1 if v[0] == "Some" else 0
        return Interp.rvalue(self, rv)

    def project(self, v, pr):
        if isinstance(v, tuple) and v and v[0] == "Some" and isinstance(pr, dict):
            if "dc" in pr:
                return v
            if "f" in pr:
                return v[1]
        if isinstance(v, str) and pr == "deref":
            return v
        if isinstance(v, dict) and "__closure" in v and isinstance(pr, dict) and "f" in pr:
            return v["caps"][pr["f"]]
        return Interp.project(self, v, pr)

    def do_call(self, t):
        if t.get("indirect"):
            raise Undecidable("indirect call")
        args = [self.deref_arg(self.operand(a)) for a in t["args"]]
        return apply_model(self.F, t["callee"], args, "%s:%s" % (t["sp"]["file"], t["sp"]["line"]))


def call_closure(F, clo, args):
    if isinstance(clo, dict) and "__closure" in clo:
        f = F.funcs.get(clo["__closure"])
        if f is None:
            raise Undecidable("closure body %s missing" % clo["__closure"])
        it = StrInterp(F)
        return it.call(f, [clo] + list(args))
    if isinstance(clo, tuple) and clo and clo[0] == "fn":
        return apply_model(F, clo[1], list(args), "fn item")
    raise Undecidable("not a closure: %r" % (clo,))


def apply_model(F, c, a, where):
    n = _last(c)
    if re.search(r"std::path::Path::file_stem$", c):
        return path_file_stem(a[0])
    if re.search(r"std::path::Path::file_name$", c):
        return path_file_name(a[0])
    if re.search(r"std::path::Path::file_prefix$", c):
        fn = path_file_name(a[0])
        if fn == NONE:
            return NONE
        b = fn[1]
        return some(b if "." not in b[1:] else b[0] + b[1:].split(".", 1)[0])
    if re.search(r"std::path::Path::extension$", c):
        return path_extension(a[0])
    if re.search(r"std::path::Path::(new|as_os_str|to_path_buf)$|path::PathBuf::(from|as_path)$|OsStr::(new|to_os_string)$|OsString::(as_os_str)$", c):
        return a[0]
    if re.search(r"OsStr::to_str$|std::path::Path::to_str$", c):
        return some(a[0])
    if re.search(r"(OsStr|Path)::to_string_lossy$", c):
        return a[0]
    if re.search(r"Option::<T>::and_then$", c):
        return call_closure(F, a[1], [a[0][1]]) if a[0] != NONE else NONE
    if re.search(r"Option::<T>::map$", c):
        return some(call_closure(F, a[1], [a[0][1]])) if a[0] != NONE else NONE
    if re.search(r"Option::<T>::filter$", c):
        return a[0] if a[0] != NONE and call_closure(F, a[1], [a[0][1]]) else NONE
    if re.search(r"Option::<T>::unwrap_or_else$", c):
        return a[0][1] if a[0] != NONE else call_closure(F, a[1], [])
    if re.search(r"Option::<T>::(unwrap_or)$", c):
        return a[0][1] if a[0] != NONE else a[1]
    if re.search(r"Option::<T>::(unwrap|expect)$", c):
        if a[0] == NONE:
            raise Panic("unwrap on None at %s" % where)
        return a[0][1]
    if re.search(r"Option::<T>::(is_some|is_none)$", c):
        return 1 if (a[0] != NONE) == (n == "is_some") else 0
    if re.search(r"str::<impl str>::trim_end_matches$|str>::trim_end_matches$", c):
        s, pat = a[0], a[1]
        pat = pat[1] if isinstance(pat, tuple) and pat[0] == "char" else pat
        if not isinstance(pat, str):
            raise Undecidable("trim_end_matches with a non-literal pattern at %s" % where)
        while pat and s.endswith(pat):
            s = s[:-len(pat)]
        return s
    if re.search(r"str::<impl str>::trim_start_matches$", c):
        s, pat = a[0], a[1]
        pat = pat[1] if isinstance(pat, tuple) and pat[0] == "char" else pat
        while pat and s.startswith(pat):
            s = s[len(pat):]
        return s
    if re.search(r"str::<impl str>::strip_suffix$", c):
        pat = a[1][1] if isinstance(a[1], tuple) and a[1][0] == "char" else a[1]
        return some(a[0][:-len(pat)]) if pat and a[0].endswith(pat) else (some(a[0]) if pat == "" else NONE)
    if re.search(r"str::<impl str>::strip_prefix$", c):
        pat = a[1][1] if isinstance(a[1], tuple) and a[1][0] == "char" else a[1]
        return some(a[0][len(pat):]) if a[0].startswith(pat) else NONE
    if re.search(r"str::<impl str>::(ends_with|starts_with|contains)$", c):
        pat = a[1][1] if isinstance(a[1], tuple) and a[1][0] == "char" else a[1]
        return 1 if {"ends_with": a[0].endswith(pat), "starts_with": a[0].startswith(pat), "contains": pat in a[0]}[n] else 0
    if re.search(r"str::<impl str>::(trim|trim_end|trim_start)$", c):
        return {"trim": a[0].strip(), "trim_end": a[0].rstrip(), "trim_start": a[0].lstrip()}[n]
    if re.search(r"str::<impl str>::(to_lowercase|to_ascii_lowercase)$", c):
        return a[0].lower()
    if re.search(r"str::<impl str>::(to_uppercase|to_ascii_uppercase)$", c):
        return a[0].upper()
    if re.search(r"str::<impl str>::len$|String::len$", c):
        return len(a[0].encode())
    if re.search(r"str::<impl str>::is_empty$|String::is_empty$", c):
        return 1 if a[0] == "" else 0
    if re.search(r"(ToString>::to_string|ToString::to_string|ToOwned>::to_owned|ToOwned::to_owned|String::from|Into<\w+>>::into|From<[^>]*>>::from|Clone>::clone|Clone::clone|String::as_str|Deref>::deref|AsRef<[^>]*>>::as_ref|Borrow<[^>]*>>::borrow|str::<impl str>::to_owned|str::<impl str>::to_string|String::as_ref|Cow<'_, B>::(into_owned|to_string)|into_owned)$", c):
        return a[0]
    if re.search(r"cmp::PartialEq(<[^>]*>)?( for [^>]*)?>::(eq|ne)$", c) and len(a) == 2:
        return 1 if ((a[0] == a[1]) == (n == "eq")) else 0
    f = F.funcs.get(c)
    if f is not None and f.crate in ("ragc_core", "ragc_common", "ragc"):
        return StrInterp(F).call(f, a)
    raise Undecidable("no model for %s at %s" % (c, where))


def eval_tree(F, e, env):
    """evaluate a reconstructed expression tree (expr.Exprs) with string semantics; env: parameter name -> value"""
    if not isinstance(e, tuple):
        raise Undecidable("cannot evaluate %r" % (e,))
    k = e[0]
    if k == "param":
        if e[1] in env:
            return env[e[1]]
        raise Undecidable("free parameter %s" % e[1])
    if k == "const":
        return e[1]
    if k == "str":
        return e[1]
    if k == "closure":
        return {"__closure": e[1], "caps": []}
    if k == "fn":
        return ("fn", e[1])
    if k == "call":
        args = [eval_tree(F, a, env) for a in e[2]]
        return apply_model(F, e[1], args, "expression")
    if k == "agg" and e[1] == "core::option::Option::Some":
        return some(eval_tree(F, dict(e[2])["0"], env))
    if k == "agg" and e[1] == "core::option::Option::None":
        return NONE
    raise Undecidable("cannot evaluate %s node" % k)
