"""Recognition recipes shared by several properties (DESIGN Appendix A)."""
import re

from cfg import cfg_of, succs
from expr import Exprs, fmt, walk, contains

GUARD_TY = re.compile(r"^std::sync::poison::(mutex::MutexGuard|rwlock::RwLockReadGuard|rwlock::RwLockWriteGuard)<")
LOCK_CALL = re.compile(r"std::sync::poison::(mutex::Mutex::<T>::lock|rwlock::RwLock::<T>::(read|write))$")
TRYLOCK_CALL = re.compile(r"std::sync::poison::(mutex::Mutex::<T>::try_lock|rwlock::RwLock::<T>::try_(read|write))$")


def is_call(t, pattern):
    return t["k"] == "call" and not t.get("indirect") and re.search(pattern, t["callee"]) is not None


# ---------------------------------------------------------------- for loops
def for_loops(func, ex=None):
    """loops driven by Iterator::next on an iterator local.
    returns list of dict(head, body, next_block, iter_expr, range=(start,end) or None)"""
    g = cfg_of(func)
    ex = ex or Exprs(func)
    out = []
    for head, body in g.loops():
        for b in sorted(body):
            t = func.blocks[b]["term"]
            if t["k"] == "call" and not t.get("indirect") and t.get("decl") == "core::iter::traits::iterator::Iterator::next":
                # only the next() that controls this loop: its block dominates all back-edge sources
                tails = [x for x in body if head in g.succ[x]]
                if not all(g.dominates(b, x) for x in tails):
                    continue
                # the None arm of this next() must leave *this* loop (otherwise it drives an inner loop)
                nb = t.get("t")
                hops = 0
                while nb is not None and func.blocks[nb]["term"]["k"] != "switch" and hops < 3:
                    ss = succs(func.blocks[nb]["term"])
                    nb = ss[0] if len(ss) == 1 else None
                    hops += 1
                if nb is None:
                    continue
                sw = func.blocks[nb]["term"]
                none_arm = [tb for v, tb in sw["targets"] if v == 0]
                if not none_arm and [v for v, _ in sw["targets"]] == [1]:
                    none_arm = [sw["otherwise"]]
                if not none_arm or none_arm[0] in body:
                    continue
                it = ex.operand(t["args"][0])
                rng = None
                src = it
                # iter variable has a single def from into_iter(range)
                bl = base_local(func, ex, t["args"][0])
                if bl is not None:
                    src = _source_of_local(func, ex, bl)
                elif isinstance(it, tuple) and it[0] == "var":
                    src = _single_source(func, ex, it[1])
                if isinstance(src, tuple) and src[0] == "agg" and src[1].startswith("core::ops::range::Range"):
                    d = dict(src[2])
                    rng = (d.get("start"), d.get("end"))
                out.append({"head": head, "body": body, "next_block": b, "iter": it, "source": src, "range": rng,
                            "site": "%s:%s" % (t["sp"]["file"], t["sp"]["line"])})
                break
    return out


def base_local(func, ex, op):
    """follow `&mut (*_a)`, `_a = &mut x` chains from an operand down to the local it borrows"""
    if op["k"] not in ("copy", "move"):
        return None
    l = op["pl"]["l"]
    for _ in range(8):
        ds = [d for d in ex.defs.get(l, []) if d[0] != "partial"]
        if len(ds) != 1 or ds[0][0] != "rv":
            return l
        rv = ds[0][3]
        if rv["k"] in ("ref", "rawptr"):
            l = rv["pl"]["l"]
            continue
        if rv["k"] == "use" and rv["op"]["k"] in ("copy", "move") and not rv["op"]["pl"]["p"]:
            l = rv["op"]["pl"]["l"]
            continue
        return l
    return l


def _source_of_local(func, ex, l):
    ds = [d for d in ex.defs.get(l, []) if d[0] != "partial"]
    if len(ds) == 1:
        kind, bi, si, x = ds[0]
        return ex.rvalue(x) if kind == "rv" else ex.call(x)
    nm = func.local_names().get(l)
    return ("var", nm if nm else "_%d" % l)


def _single_source(func, ex, name):
    """value moved into a named local that is assigned exactly once outside loops (`iter = move _9`)"""
    names = func.local_names()
    cands = [l for l, n in names.items() if n == name]
    for l in cands:
        ds = [d for d in ex.defs.get(l, []) if d[0] != "partial"]
        if len(ds) == 1:
            kind, bi, si, x = ds[0]
            return ex.rvalue(x) if kind == "rv" else ex.call(x)
    # multiple defs: opaque
    return ("var", name)


# ---------------------------------------------------------------- `?` recognition
def try_sites(func):
    """`?` operators: list of dict(branch_block, source (the call/expr producing the Result),
    ok_block, err_block, residual_call_block)"""
    out = []
    for bi, t in func.calls():
        if t.get("decl") == "core::ops::try_trait::Try::branch":
            # successor: switch on discriminant
            nb = t["t"]
            if nb is None:
                continue
            sw = func.blocks[nb]["term"]
            if sw["k"] != "switch":
                continue
            okb = errb = None
            for v, b in sw["targets"]:
                if v == 0:
                    okb = b
                elif v == 1:
                    errb = b
            out.append({"block": bi, "term": t, "ok": okb, "err": errb, "switch_block": nb})
    return out


def error_blocks(func):
    """blocks reachable only through the Break arm of a `?` (error propagation paths)"""
    g = cfg_of(func)
    errs = set()
    for ts in try_sites(func):
        if ts["err"] is not None:
            errs.add(ts["err"])
    # closure: blocks all of whose predecessors are error blocks
    changed = True
    while changed:
        changed = False
        for b in g.reach:
            if b in errs or b == 0:
                continue
            ps = [p for p in g.pred[b] if p in g.reach]
            if ps and all(p in errs for p in ps):
                errs.add(b)
                changed = True
    return errs


def returns_result(func):
    return "core::result::Result<" in func.d.get("sig", "").split("->")[-1] if func.kind != "closure" else \
        func.locals[0]["ty"].startswith("core::result::Result<")


def may_return_err(F, func, _seen=None):
    """can this body return Err?  sound over-approximation: an Err aggregate anywhere, a `?`
    (from_residual), or _0 assigned from another Result-returning call that may itself return Err."""
    _seen = _seen or set()
    if func.key in _seen:
        return False
    _seen.add(func.key)
    for b in func.blocks:
        if b["cleanup"]:
            continue
        for s in b["stmts"]:
            if s["k"] == "assign" and s["rv"]["k"] == "agg" and s["rv"].get("adt") == "core::result::Result" and s["rv"]["var"] == "Err":
                return True
        t = b["term"]
        if t["k"] == "call" and not t.get("indirect"):
            if "FromResidual" in t["callee"] or "from_residual" in t["callee"]:
                # only an error source if the `?` operand itself may be Err
                return True
            if t["dest"]["l"] == 0 and not t["dest"]["p"] and t["dest"]["ty"].startswith("core::result::Result<"):
                c = F.funcs.get(t["callee"])
                if c is None or may_return_err(F, c, _seen):
                    return True
        if t["k"] == "call" and t.get("indirect") and t["dest"]["l"] == 0:
            return True
    return False


# ---------------------------------------------------------------- lock regions
def lock_identity(e):
    """name a lock from the receiver expression of lock()/read()/write()"""
    if not isinstance(e, tuple):
        return "?"
    k = e[0]
    if k in ("param", "var", "upvar"):
        return str(e[1])
    if k == "field":
        base = e[1]
        if base in (("param", "self"),):
            return "self." + e[2]
        # self.config.x etc: use last component, prefixed by owner type when known
        return lock_identity(base) + "." + e[2]
    if k == "index":
        return lock_identity(e[1]) + "[]"
    if k == "call":
        # e.g. Index::index(&vec, i)  /  get(i).unwrap()
        if e[2]:
            if re.search(r"::index(_mut)?$", e[1]):
                return lock_identity(e[2][0]) + "[]"
            return lock_identity(e[2][0])
    return fmt(e)


class LockInfo:
    """per-function: acquisition sites, and may-held guard sets at each block entry/terminator"""

    def __init__(self, func, ex=None):
        self.f = func
        self.ex = ex or Exprs(func)
        f = func
        self.guard_locals = {i for i, l in enumerate(f.locals) if GUARD_TY.match(l["ty"])}
        # acquisition: lock call -> (result local) -> unwrap -> guard local
        self.acq = {}     # guard local -> list of (lock id, block of lock call, term)
        res_lock = {}     # Result local -> (lock id, block, term)
        gnames = {}
        for l in self.guard_locals:
            n = f.local_names().get(l)
            if n:
                gnames[n] = l
        self.gnames = gnames
        self._pending_elem = {}
        for bi, t in f.calls():
            if LOCK_CALL.search(t["callee"]) or TRYLOCK_CALL.search(t["callee"]):
                lid = self.identity(self.ex.operand(t["args"][0]))
                kind = "read" if t["callee"].endswith("read") else "write"
                res_lock[t["dest"]["l"]] = (lid, bi, t, kind)
        self.sites = []
        for bi, t in f.calls():
            if t["args"] and t["args"][0]["k"] in ("move", "copy") and not t["args"][0]["pl"]["p"]:
                src = t["args"][0]["pl"]["l"]
                if src in res_lock and t["dest"]["l"] in self.guard_locals and not t["dest"]["p"]:
                    lid, lb, lt, kind = res_lock[src]
                    self.acq.setdefault(t["dest"]["l"], []).append((lid, lb, lt, kind))
        for l, v in res_lock.items():
            self.sites.append(v)
        self.site_by_block = {v[1]: v for v in res_lock.values()}
        # moves between guard locals (`inner = move _22`)
        self.moves = {}
        for bi, b in enumerate(f.blocks):
            for s in b["stmts"]:
                if s["k"] == "assign" and not s["pl"]["p"] and s["pl"]["l"] in self.guard_locals:
                    rv = s["rv"]
                    if rv["k"] == "use" and rv["op"]["k"] == "move" and not rv["op"]["pl"]["p"] \
                            and rv["op"]["pl"]["l"] in self.guard_locals:
                        self.moves.setdefault(s["pl"]["l"], set()).add(rv["op"]["pl"]["l"])
        # Condvar::wait returns a guard for the same lock: result -> unwrap -> guard
        self._dataflow()

    def acquired_at(self, block):
        v = self.site_by_block.get(block)
        return self._resolve(v[0]) if v else None

    def all_acquired(self):
        return {self._resolve(v[0]) for v in self.sites}

    def identity(self, e):
        """lock identity of a receiver expression; a lock reached *through* another lock's guard
        (per-element / per-slot mutexes inside a locked container) is named <outer>/elem"""
        inner = None
        for x in walk(e):
            if isinstance(x, tuple) and x[0] == "call" and (LOCK_CALL.search(x[1]) or TRYLOCK_CALL.search(x[1])) and x[2]:
                inner = lock_identity(x[2][0])
                break
            if isinstance(x, tuple) and x[0] == "var" and x[1] in self.gnames:
                inner = ("guard", self.gnames[x[1]])
                break
        if inner is None:
            return lock_identity(e)
        if isinstance(inner, tuple):
            return ("elem-of-guard", inner[1])
        return inner + "/elem"

    def _resolve(self, lid):
        if isinstance(lid, tuple) and lid[0] == "elem-of-guard":
            ids = self.lock_of_guard(lid[1])
            return (sorted(ids)[0] if ids else "?") + "/elem"
        return lid

    def lock_of_guard(self, l, _seen=()):
        ids = {self._resolve(a[0]) for a in self.acq.get(l, [])}
        for src in self.moves.get(l, ()):
            if src not in _seen:
                ids |= self.lock_of_guard(src, _seen + (l,))
        return ids

    def _dataflow(self):
        f = self.f
        g = cfg_of(f)
        n = len(f.blocks)
        IN = [set() for _ in range(n)]
        OUT = [set() for _ in range(n)]
        self.at_term = [set() for _ in range(n)]
        work = sorted(g.reach)
        changed = True
        it = 0
        while changed and it < 200:
            changed = False
            it += 1
            for b in work:
                inn = set()
                for p in g.pred[b]:
                    inn |= OUT[p]
                held = set(inn)
                blk = f.blocks[b]
                for s in blk["stmts"]:
                    if s["k"] == "dead":
                        held.discard(s["l"])
                    elif s["k"] == "assign":
                        for l in _moved_locals_rv(s["rv"]):
                            held.discard(l)
                        if not s["pl"]["p"] and s["pl"]["l"] in self.guard_locals:
                            held.add(s["pl"]["l"])
                t = blk["term"]
                at = set(held)
                if t["k"] == "call":
                    for a in t["args"]:
                        if a["k"] == "move" and not a["pl"]["p"]:
                            at.discard(a["pl"]["l"]) if False else None
                    self.at_term[b] = set(held)
                    for a in t["args"]:
                        if a["k"] == "move" and not a["pl"]["p"]:
                            held.discard(a["pl"]["l"])
                    if not t["dest"]["p"] and t["dest"]["l"] in self.guard_locals:
                        held.add(t["dest"]["l"])
                elif t["k"] == "drop":
                    self.at_term[b] = set(held)
                    if not t["pl"]["p"]:
                        held.discard(t["pl"]["l"])
                else:
                    self.at_term[b] = set(held)
                if held != OUT[b] or inn != IN[b]:
                    OUT[b] = held
                    IN[b] = inn
                    changed = True
        self.IN, self.OUT = IN, OUT

    def held_locks_at(self, block):
        """lock ids possibly held when the terminator of `block` executes"""
        out = set()
        for l in self.at_term[block]:
            ids = self.lock_of_guard(l)
            out |= ids if ids else {"?guard _%d" % l}
        return out


def _moved_locals_rv(rv):
    k = rv["k"]
    ops = []
    if k in ("use", "cast", "repeat"):
        ops = [rv["op"]]
    elif k == "binop":
        ops = [rv["a"], rv["b"]]
    elif k == "unop":
        ops = [rv["a"]]
    elif k == "agg":
        ops = rv["ops"]
    for o in ops:
        if o["k"] == "move" and not o["pl"]["p"]:
            yield o["pl"]["l"]


# ---------------------------------------------------------------- result discipline (3.8)
def result_fate(F, func, bi, t, ex=None):
    """what happens to the Result produced by call terminator `t` in block bi.
    returns one of: 'propagated', 'returned', 'handled', 'dropped:<how>', 'unknown:<why>'."""
    dest = t["dest"]
    if dest["p"]:
        return "stored"
    if dest["l"] == 0:
        return "returned"
    return _fate_of_local(F, func, dest["l"], t["t"], set(), 0)


ADAPTERS = re.compile(
    r"(anyhow::Context<.*>>::(with_context|context)$)|(core::result::Result::<T, E>::(map_err|map|and_then|or_else|inspect_err)$)|"
    r"(anyhow::.*::ext::.*context)|(core::result::Result::<T, E>::(map_err|map)::)")
DROPPERS = re.compile(r"core::result::Result::<T, E>::(ok|err|unwrap_or|unwrap_or_default|unwrap_or_else|is_ok|is_err|is_ok_and|is_err_and)$")
PANICKERS = re.compile(r"core::result::Result::<T, E>::(unwrap|expect)$")


def _uses_of_local(func, l, start_block, after_stmt=None):
    """(block, kind, obj) uses of whole local l reachable from start_block (from the statement after `after_stmt` when
    given).  A path that reaches a new definition of l without any use other than a drop reports kind "overwritten"."""
    seen = set()
    st = [(start_block, False, after_stmt, False)] if start_block is not None else []
    out = []
    while st:
        b, used, skip, superseded = st.pop()
        if superseded:
            used = True        # discarded where another, earlier error is known to be pending: not a loss
        if (b, used) in seen and skip is None:
            continue
        if skip is None:
            seen.add((b, used))
        blk = func.blocks[b]
        redefined = False
        for s in blk["stmts"]:
            if skip is not None:
                if s is skip:
                    skip = None
                continue
            if s["k"] == "assign":
                if _rv_mentions(s["rv"], l):
                    out.append((b, "stmt", s))
                    used = True
                if s["pl"]["l"] == l and not s["pl"]["p"]:
                    redefined = True
                    if not used:
                        out.append((b, "overwritten", s))
                    break
                if s["pl"]["l"] == l and s["pl"]["p"]:
                    out.append((b, "stmt", s))
                    used = True
        if redefined:
            continue
        t = blk["term"]
        if t["k"] == "call":
            if any(_op_mentions(a, l) for a in t["args"]):
                out.append((b, "call", t))
                used = True
            if t["dest"]["l"] == l and not t["dest"]["p"]:
                if not used:
                    out.append((b, "overwritten", t))
                continue
        elif t["k"] == "drop":
            if t["pl"]["l"] == l:
                out.append((b, "drop", t))
                if not used and not t["pl"]["p"]:
                    out.append((b, "dropped-unused", t))      # this path reaches the value's drop and nothing has looked at it
        elif t["k"] == "switch":
            if _op_mentions(t["discr"], l):
                out.append((b, "switch", t))
                used = True
        if t["k"] == "switch":
            arms = _other_error_arms(func, t, l)
            for s2 in succs(t):
                st.append((s2, used, None, s2 in arms))
        else:
            for s2 in succs(t):
                st.append((s2, used, None, False))
    return out


def _other_error_arms(func, t, l):
    """successor blocks of switch `t` that are taken only when some *other* Result local is an Err
    (`if other.is_ok()` false arm, `if other.is_err()` true arm, the Err arm of a match on it)"""
    d = t["discr"]
    if d["k"] not in ("copy", "move") or d["pl"]["p"]:
        return set()
    dl = d["pl"]["l"]
    kind, src = None, None
    for b in func.blocks:
        for s in b["stmts"]:
            if s["k"] == "assign" and s["pl"]["l"] == dl and not s["pl"]["p"] and s["rv"]["k"] == "discr":
                if s["rv"]["pl"].get("ty", "").startswith("core::result::Result<") or True:
                    kind, src = "discr", s["rv"]["pl"]
        tt = b["term"]
        if tt["k"] == "call" and not tt.get("indirect") and tt["dest"]["l"] == dl and not tt["dest"]["p"]:
            m = re.search(r"core::result::Result::<T, E>::(is_ok|is_err)$", tt["callee"])
            if m and tt["args"] and tt["args"][0]["k"] in ("copy", "move"):
                rl = tt["args"][0]["pl"]["l"]
                for b2 in func.blocks:
                    for s in b2["stmts"]:
                        if s["k"] == "assign" and s["pl"]["l"] == rl and not s["pl"]["p"] and s["rv"]["k"] == "ref":
                            kind, src = m.group(1), s["rv"]["pl"]
    if kind is None or src is None or src["l"] == l:
        return set()
    ty = src.get("ty", "")
    if kind == "discr" and not (ty.startswith("core::result::Result<") or ty.startswith("core::ops::control_flow::ControlFlow<core::result::Result<core::convert::Infallible")):
        return set()
    vals = {tb: v for v, tb in t["targets"]}
    out = set()
    if kind == "is_ok":
        out = {tb for tb, v in vals.items() if v == 0}
    elif kind == "is_err":
        if t["otherwise"] not in vals and all(v == 0 for v in vals.values()):
            out = {t["otherwise"]}
    elif kind == "discr":
        out = {tb for tb, v in vals.items() if v == 1}
    return out - ({t["otherwise"]} if kind == "is_ok" else set())


def _op_mentions(o, l):
    return o["k"] in ("copy", "move") and o["pl"]["l"] == l


def _rv_mentions(rv, l):
    k = rv["k"]
    if k in ("use", "cast", "repeat"):
        return _op_mentions(rv["op"], l)
    if k in ("ref", "rawptr", "discr"):
        return rv["pl"]["l"] == l
    if k == "binop":
        return _op_mentions(rv["a"], l) or _op_mentions(rv["b"], l)
    if k == "unop":
        return _op_mentions(rv["a"], l)
    if k == "agg":
        return any(_op_mentions(o, l) for o in rv["ops"])
    return False


def _fate_of_local(F, func, l, start, visiting, depth, after=None):
    if depth > 12 or (l, start) in visiting:
        return "unknown:depth"
    visiting = visiting | {(l, start)}
    uses = _uses_of_local(func, l, start, after)
    fates = []
    for b, kind, x in uses:
        if kind == "drop":
            continue
        if kind == "dropped-unused":
            return "dropped:unused-on-some-path"
        if kind == "overwritten":
            # a later value replaces this one on a path where nothing looked at it (a loop that keeps the last result only)
            return "dropped:overwritten-before-checked"
        if kind == "call":
            c = x.get("callee", "")
            decl = x.get("decl", "")
            if decl == "core::ops::try_trait::Try::branch":
                fates.append("propagated")
            elif ADAPTERS.search(c) or ADAPTERS.search(decl):
                fates.append(_fate_of_local(F, func, x["dest"]["l"], x["t"], visiting, depth + 1) if not x["dest"]["p"] and x["dest"]["l"] != 0 else "returned")
            elif DROPPERS.search(c):
                fates.append("dropped:%s" % c.rsplit("::", 1)[-1])
            elif PANICKERS.search(c):
                fates.append("handled:panics")
            elif c.startswith("core::mem::drop"):
                fates.append("dropped:drop")
            else:
                fates.append("passed:%s" % c)
        elif kind == "stmt":
            rv = x["rv"]
            if x["pl"]["l"] == 0:
                fates.append("returned")
            elif rv["k"] == "discr":
                # match on the result: look at what the Err arm does
                fates.append(_match_fate(F, func, b, x, l))
            elif rv["k"] == "use" and not x["pl"]["p"]:
                fates.append(_fate_of_local(F, func, x["pl"]["l"], b, visiting, depth + 1, after=x))
            elif rv["k"] == "ref":
                fates.append(_fate_of_local(F, func, x["pl"]["l"], b, visiting, depth + 1, after=x))
            elif rv["k"] == "agg":
                fates.append("stored")
            else:
                fates.append("used")
        elif kind == "switch":
            fates.append("handled:switch")
    if not fates:
        return "dropped:unused"
    for x in fates:
        if x.startswith("dropped:err-arm-returns-o"):
            return x          # a match whose Err arm swallows the error on some path outweighs the arm that hands it on
    for pref in ("propagated", "returned"):
        if pref in fates:
            return pref
    bad = [x for x in fates if x.startswith("dropped")]
    if bad and all(x.startswith("dropped") or x == "used" for x in fates):
        return bad[0]
    return fates[0]


def _match_fate(F, func, b, stmt, l):
    """`match r { Ok(..) => .., Err(e) => .. }` / `if let Err(e) = r`: classify the Err arm"""
    g = cfg_of(func)
    dl = stmt["pl"]["l"]
    # find the switch on dl
    t = func.blocks[b]["term"]
    blk = b
    hops = 0
    while not (t["k"] == "switch" and _op_mentions(t["discr"], dl)) and hops < 3:
        ss = succs(t)
        if len(ss) != 1:
            return "handled:match"
        blk = ss[0]
        t = func.blocks[blk]["term"]
        hops += 1
    if t["k"] != "switch":
        return "handled:match"
    errb = None
    okb = None
    for v, tb in t["targets"]:
        if v == 1:
            errb = tb
        if v == 0:
            okb = tb
    if errb is None:
        # `if let Ok(..)` form: otherwise-arm is the Err arm
        errb = t["otherwise"] if okb is not None else None
    if errb is None:
        return "handled:match"
    if okb is None:
        okb = t["otherwise"]
    # explore the Err arm until it joins a block also reachable from the Ok arm
    ok_reach = g.reachable_from(okb)
    seen = set()
    st = [errb]
    only_print = True
    returns = False
    rejoins = False
    ok_in_err = False
    while st:
        x = st.pop()
        if x in seen:
            continue
        if x in ok_reach and x != errb:
            # rejoined the normal continuation - unless that "continuation" is just the common return block
            if not _is_exit_block(func, x):
                rejoins = True
            continue
        seen.add(x)
        bt = func.blocks[x]["term"]
        for s in func.blocks[x]["stmts"]:
            if s["k"] == "assign" and s["pl"]["l"] == 0:
                returns = True
                if not s["pl"]["p"] and s["rv"]["k"] == "agg" and s["rv"].get("adt") == "core::result::Result" and s["rv"].get("var") == "Ok":
                    ok_in_err = True        # `Err(e) if cond => Ok(..)`: the error ends as a success
        if bt["k"] == "return":
            returns = True
        if bt["k"] == "call":
            c = bt.get("callee", "")
            if bt["sp"].get("exp") and bt["sp"].get("mac") in ("eprintln", "println", "eprint", "print", "format", "format_args", "write", "writeln"):
                pass
            elif c.startswith("core::fmt::") or c.startswith("std::io::stdio::_eprint") or c.startswith("std::io::stdio::_print") or c.startswith("alloc::fmt::format"):
                pass
            elif "FromResidual" in c or c.startswith("anyhow::") or "core::convert::From" in c or "core::convert::Into" in c:
                returns = True
            elif c.startswith("core::panicking") or c.startswith("std::process::exit") or "unwrap_failed" in c:
                returns = True
            else:
                only_print = False
        st.extend(succs(bt))
    if ok_in_err:
        return "dropped:err-arm-returns-ok-on-some-path"
    if returns and rejoins:
        # the error is returned on some paths of the Err arm and swallowed on others (`if cond { return Err(e) }`)
        return "dropped:err-arm-returns-only-on-some-paths"
    if returns:
        return "propagated"
    if only_print:
        return "dropped:err-arm-only-prints"
    return "handled:match"


def _is_exit_block(func, b):
    """block that only drops locals and returns (the shared epilogue every path reaches)"""
    hops = 0
    while hops < 12:
        blk = func.blocks[b]
        if any(s["k"] == "assign" for s in blk["stmts"]):
            return False
        t = blk["term"]
        if t["k"] == "return":
            return True
        if t["k"] in ("drop", "goto"):
            b = t["t"]
            hops += 1
            continue
        return False
    return False


# ---------------------------------------------------------------- guards (DESIGN 3.5)
def dominating_conds(func, block, ex=None):
    """branch conditions known to hold on entry to `block`: list of (expr, how, vals, switch_block)
    with how in {"is","not"}.  A condition counts when the arm's target block dominates `block` and
    is entered only from that switch."""
    g = cfg_of(func)
    ex = ex or Exprs(func)
    out = []
    for b in sorted(g.dom().get(block, ())):
        t = func.blocks[b]["term"]
        if t["k"] != "switch":
            continue
        arms = {}
        for v, tb in t["targets"]:
            arms.setdefault(tb, []).append(v)
        known = [v for v, _ in t["targets"]]
        e = None
        for tb, vals in arms.items():
            if tb != t["otherwise"] and _arm_holds(g, b, tb, block):
                e = e or ex.operand(t["discr"])
                out.append((e, "is", tuple(vals), b))
        ot = t["otherwise"]
        if ot not in arms and _arm_holds(g, b, ot, block):
            e = e or ex.operand(t["discr"])
            out.append((e, "not", tuple(known), b))
    return out


def _arm_holds(g, b, tb, block):
    if tb == block and g.pred[tb] == [b]:
        return True
    return g.pred[tb] == [b] and g.dominates(tb, block)


def cond_bool(how, vals):
    if how == "is" and vals == (0,):
        return False
    if how == "not" and vals == (0,):
        return True
    if how == "is" and vals == (1,):
        return True
    return None


# ---------------------------------------------------------------- linear forms
def linear(e):
    """expression -> {atom_repr: coef, '1': const}; atoms are maximal non-additive subtrees"""
    if isinstance(e, tuple):
        if e[0] == "const" and isinstance(e[1], int):
            return {"1": e[1]}
        if e[0] == "bin" and e[1] in ("Add", "Sub"):
            a, b = linear(e[2]), linear(e[3])
            out = dict(a)
            for k, v in b.items():
                out[k] = out.get(k, 0) + (v if e[1] == "Add" else -v)
            return {k: v for k, v in out.items() if v or k == "1"}
        if e[0] == "bin" and e[1] == "Mul":
            a, b = linear(e[2]), linear(e[3])
            if set(a) <= {"1"}:
                c = a.get("1", 0)
                return {k: v * c for k, v in b.items()}
            if set(b) <= {"1"}:
                c = b.get("1", 0)
                return {k: v * c for k, v in a.items()}
        if e[0] == "bin" and e[1] == "Shl" and isinstance(e[3], tuple) and e[3][0] == "const" and isinstance(e[3][1], int) and 0 <= e[3][1] < 63:
            a = linear(e[2])
            return {k: v << e[3][1] for k, v in a.items()}
        if e[0] == "cast":
            return linear(e[1])
    ATOM_EXPR[repr(e)] = e
    return {repr(e): 1}


ATOM_EXPR = {}


def expand_min(forms):
    """x - min(a, b) + c <= 0 implies x - a + c <= 0 and x - b + c <= 0 (min(a,b) <= a, b)"""
    out = list(forms)
    work = list(forms)
    seen = 0
    while work and seen < 200:
        seen += 1
        k = work.pop()
        tag = None
        if isinstance(k, tuple):
            tag, k = k
        for atom, co in list(k.items()):
            if atom == "1" or co >= 0:
                continue
            e = ATOM_EXPR.get(atom)
            if isinstance(e, tuple) and e[0] == "call" and re.search(r"::min$", e[1]) and len(e[2]) == 2:
                for arg in e[2]:
                    n = {kk: v for kk, v in k.items() if kk != atom}
                    for kk, v in linear(arg).items():
                        n[kk] = n.get(kk, 0) + co * v
                    n = {kk: v for kk, v in n.items() if v or kk == "1"}
                    item = (tag, n) if tag else n
                    out.append(item)
                    work.append(item)
    return out


def lin_sub(a, b):
    out = dict(a)
    for k, v in b.items():
        out[k] = out.get(k, 0) - v
    return {k: v for k, v in out.items() if v}


def cond_to_le0(e, truth):
    """a comparison known to be `truth` -> list of linear forms L with L <= 0 (integers)"""
    neg = False
    while isinstance(e, tuple) and e[0] == "un" and e[1] == "Not":
        e = e[2]
        neg = not neg
    if neg:
        truth = not truth
    if isinstance(e, tuple) and e[0] == "call" and re.search(r"::is_empty$", e[1]) and len(e[2]) == 1 and not truth:
        # !x.is_empty()  =>  len(x) >= 1, for each spelling of len
        out = []
        for lenfn in ("core::slice::<impl [T]>::len", "alloc::vec::Vec::<T, A>::len"):
            out.append({repr(("call", lenfn, e[2])): -1, "1": 1})
        out.append({repr(("len", e[2][0])): -1, "1": 1})
        return out
    if not (isinstance(e, tuple) and e[0] == "bin" and e[1] in ("Lt", "Le", "Eq", "Ne")):
        return []
    op, a, b = e[1], linear(e[2]), linear(e[3])
    d = lin_sub(a, b)      # a - b
    nd = {k: -v for k, v in d.items()}
    def plus1(x):
        y = dict(x)
        y["1"] = y.get("1", 0) + 1
        return y
    if op == "Lt":
        return [plus1(d)] if truth else [nd]          # a<b: a-b+1<=0 ; !(a<b): b-a<=0
    if op == "Le":
        return [d] if truth else [plus1(nd)]          # a<=b ; !(a<=b): b<a: b-a+1<=0
    if op == "Eq" and truth:
        return [d, nd]
    if op == "Ne" and not truth:
        return [d, nd]
    # x != 0 for a non-negative quantity: x >= 1 (callers use this only for unsigned operands / lengths)
    if (op == "Eq" and not truth) or (op == "Ne" and truth):
        for x, z in ((a, b), (b, a)):
            if set(z) <= {"1"} and z.get("1", 0) == 0:
                y = {k: -v for k, v in x.items()}
                y["1"] = y.get("1", 0) + 1
                return [("nonneg", y)]
    return []


def implies_le0(known, target, unsigned=True):
    """do the known forms (each <= 0) contain one that implies target <= 0?
    (same non-constant part, possibly scaled by a positive integer, and a constant at least as
    large), or a sum of two that does.  Facts tagged ("nonneg", form) hold for unsigned operands."""
    known = [k[1] if isinstance(k, tuple) else k for k in known if not isinstance(k, tuple) or unsigned]

    def split(x):
        c = x.get("1", 0)
        r = {k: v for k, v in x.items() if k != "1" and v}
        return r, c
    tr, tc = split(target)
    if not tr:
        return tc <= 0
    for k in known:
        kr, kc = split(k)
        if kr == tr and kc >= tc:
            return True
        # scaled: target = m * k (m positive integer)
        if kr and set(kr) == set(tr):
            a0 = next(iter(kr))
            if kr[a0] != 0 and tr[a0] % kr[a0] == 0:
                m = tr[a0] // kr[a0]
                if m > 1 and all(tr[x] == m * kr[x] for x in kr) and m * kc >= tc:
                    return True
    if unsigned:
        # target = k - (non-negative terms): every atom is an unsigned quantity (>= 0)
        for k in known:
            d = dict(target)
            for kk, v in k.items():
                d[kk] = d.get(kk, 0) - v
            if all(v <= 0 for kk, v in d.items()):
                return True
    for i, k1 in enumerate(known):
        for k2 in known[i + 1:]:
            s = dict(k1)
            for kk, v in k2.items():
                s[kk] = s.get(kk, 0) + v
            sr, sc = split(s)
            if sr == tr and sc >= tc:
                return True
    return False


def known_le0(func, block, ex=None):
    out = []
    for e, how, vals, b in dominating_conds(func, block, ex):
        t = cond_bool(how, vals)
        if t is None:
            continue
        out.extend(cond_to_le0(e, t))
    return expand_min(out)


# ---------------------------------------------------------------- name-free views of local updates
def erase_vars(e, selfname=None):
    """replace local variable names by ("self",) (the variable being assigned) or ("var", "$")"""
    if isinstance(e, tuple):
        if e and e[0] == "var":
            return ("self",) if (selfname is not None and e[1] == selfname) else ("var", "$")
        return tuple(erase_vars(x, selfname) if isinstance(x, tuple) else x for x in e)
    return e


def local_updates(func, ex, named_only=True):
    """every whole-local assignment as (local name, block, expr, expr with names erased / self marked).
    Lets rules describe an update by its shape (`x = x * MAX + byte`) instead of by the variable's name."""
    from expr import strip_tags
    out = []
    names = func.local_names()
    for bi, b in enumerate(func.blocks):
        if b["cleanup"]:
            continue
        for s in b["stmts"]:
            if s["k"] == "assign" and not s["pl"]["p"]:
                nm = names.get(s["pl"]["l"])
                if nm is None and named_only:
                    continue
                e = strip_tags(ex.rvalue(s["rv"]))
                out.append((nm or "_%d" % s["pl"]["l"], bi, e, erase_vars(e, nm)))
        t = b["term"]
        if t["k"] == "call" and not t["dest"]["p"]:
            nm = names.get(t["dest"]["l"])
            if nm is None and named_only:
                continue
            e = strip_tags(ex.call(t))
            out.append((nm or "_%d" % t["dest"]["l"], bi, e, erase_vars(e, nm)))
    return out


# ---------------------------------------------------------------- sibling effect profiles
def effect_profile(func, ex=None, skip=None, mutating_only=True, debug_guard=re.compile(r"env_cache::|debug|verbos")):
    """multiset of (guard signature, effect) for every source-level call and named-local update in a body.
    Guards and effects have local names erased, macro expansions (logging) are ignored; two siblings that are
    meant to run the same algorithm must have equal profiles (cross-check rule)."""
    from collections import Counter
    from expr import strip_tags, fmt as _fmt
    ex = ex or Exprs(func)
    prof = Counter()
    names = func.local_names()

    def guard_sig(bi):
        gs = []
        for e, how, vals, sb in dominating_conds(func, bi, ex):
            if func.blocks[sb]["term"]["sp"].get("exp"):
                continue
            s = _fmt(erase_vars(strip_tags(e)))
            if s.startswith("discr("):
                continue            # enum discriminants of iterator/Option plumbing
            tv = cond_bool(how, vals)
            gs.append((s, tv if tv is not None else (how, tuple(vals))))
        return tuple(sorted(set(gs), key=repr))
    for bi, b in enumerate(func.blocks):
        if b["cleanup"]:
            continue
        g = None
        for s in b["stmts"]:
            if s["k"] == "assign" and not s["pl"]["p"] and names.get(s["pl"]["l"]) and not s["sp"].get("exp"):
                g = g if g is not None else guard_sig(bi)
                if any(debug_guard.search(c0) for c0, _ in g):
                    continue
                prof[(g, "set " + _fmt(erase_vars(strip_tags(ex.rvalue(s["rv"])), names[s["pl"]["l"]])))] += 1
        t = b["term"]
        if t["k"] == "call" and not t["sp"].get("exp") and not t.get("indirect"):
            c = t["callee"]
            if skip and skip.search(c):
                continue
            if mutating_only:
                mut = False
                for a in t["args"]:
                    if a["k"] in ("copy", "move") and func.locals[a["pl"]["l"]]["ty"].startswith("&mut") and not a["pl"]["p"]:
                        mut = True
                if not mut:
                    continue
            g = g if g is not None else guard_sig(bi)
            if any(debug_guard.search(c0) for c0, _ in g):
                continue
            prof[(g, "call " + _fmt(erase_vars(strip_tags(ex.call(t)))))] += 1
    return prof


def profile_diff(pa, pb):
    """entries present in one profile and not the other, as printable strings"""
    out = []
    for k in sorted(set(pa) | set(pb), key=repr):
        if pa.get(k, 0) != pb.get(k, 0):
            g, eff = k
            out.append("%s x%d/x%d under %s" % (eff[:120], pa.get(k, 0), pb.get(k, 0), [("%s=%s" % (c[:60], v)) for c, v in g][-3:]))
    return out
