"""Phase structure of the streaming compression pipeline, derived from the worker's MIR.

The worker loop is cut into phases by its Barrier::wait calls: a block's phase is the number of
barrier waits passed since the loop head (a forward dataflow over the loop body).  Code in
phase c>0 that is dominated by the true arm of `worker_id == 0` runs on one thread only
("exclusive"); everything else in that phase runs on all workers.  Concurrency contexts:

  P      producer thread (push / drain / sync_and_flush / constructor / finalize before the joins)
  F      finalize after every worker was joined (alone)
  W<c>p  worker, phase c, all workers      W<c>x  worker, phase c, worker 0 only

Two contexts can run at the same time iff one is P and the other a worker context, or both are
worker contexts of the same phase and not both exclusive.  (Different phases are separated by a
barrier all workers pass; phase 0 also contains the contig path and the exit path.)
"""
import re

from cfg import cfg_of
from expr import Exprs
from mirutil import is_call, error_blocks

BARRIER_WAIT = r"std::sync::(barrier::)?Barrier::wait$"
QUEUE = "ragc_core::memory_bounded_queue::MemoryBoundedQueue::<T>::"
CORE = "ragc_core::agc_compressor::"
SQC = CORE + "StreamingQueueCompressor::"
JOIN = r"JoinHandle::<T>::join$"
CAP = 12


class WorkerPhases:
    def __init__(self, F):
        self.F = F
        w = F.funcs.get(CORE + "worker_thread")
        self.worker = w
        self.ok = False
        if w is None:
            return
        g = cfg_of(w)
        self.g = g
        self.ex = Exprs(w)
        self.waits = [bi for bi, t in w.calls() if is_call(t, BARRIER_WAIT)]
        self.pulls = [bi for bi, t in w.calls() if is_call(t, re.escape(QUEUE) + r"pull$")]
        loops = dict(g.loops())
        outer = None
        for h, body in loops.items():
            if self.pulls and self.pulls[0] in body and (outer is None or len(body) > len(loops[outer])):
                outer = h
        self.outer = outer
        if outer is None:
            return
        self.body = loops[outer]
        body = self.body
        cnt_in = {b: set() for b in body}
        cnt_in[outer] = {0}
        work = [outer]
        out_cnt = {}
        while work:
            b = work.pop()
            cs = cnt_in[b]
            inc = 1 if b in self.waits else 0
            oc = {min(c + inc, CAP) for c in cs}
            if out_cnt.get(b) == oc:
                continue
            out_cnt[b] = oc
            for s in g.succ[b]:
                if s == outer or s not in body:
                    continue
                new = cnt_in[s] | oc
                if new != cnt_in[s] or s not in out_cnt:
                    cnt_in[s] = new
                    work.append(s)
        self.cnt_in = cnt_in
        self.cnt_out = out_cnt
        # blocks after the loop (exit path) belong to phase 0
        # exclusive regions: dominated by the true arm of a switch on worker_id == 0
        self.excl_arms = []
        for bi, b in enumerate(w.blocks):
            t = b["term"]
            if t["k"] == "switch":
                e = self.ex.operand(t["discr"])
                if e == ("bin", "Eq", ("const", 0), ("param", "worker_id")):
                    self.excl_arms.append(t["otherwise"])
        self.ok = True

    def phase_of_block(self, b):
        """set of contexts for code in block b of the worker"""
        if b in self.body:
            # a call terminator executes after the block's own wait increments: use cnt_in (the call
            # *is* the wait for wait blocks, which hold no other calls)
            cs = self.cnt_in.get(b) or {0}
        else:
            cs = {0}
        excl = any(self.g.dominates(a, b) for a in self.excl_arms)
        return {"W%d%s" % (c, "x" if (excl and c > 0) else "p") for c in cs}


def concurrent(c1, c2):
    if c1 == "F" or c2 == "F":
        return False
    if c1 == "P" and c2 == "P":
        return False
    if c1 == "P" or c2 == "P":
        return True
    # both worker contexts
    p1, p2 = c1[1:-1], c2[1:-1]
    if p1 != p2:
        return False
    return not (c1.endswith("x") and c2.endswith("x"))


def contexts(F, G, WP):
    """function key -> set of contexts in which it may execute (fixpoint over the call graph)"""
    ctx = {}
    roots = [k for k, f in F.funcs.items() if k.startswith(SQC) and f.kind == "assocfn" and f.is_pub()]
    fin = F.funcs.get(SQC + "finalize")
    fin_after = set()
    if fin is not None:
        gf = cfg_of(fin)
        joins = [bi for bi, t in fin.calls() if is_call(t, JOIN)]
        if joins:
            j = joins[0]
            loops = [(h, body) for h, body in gf.loops() if j in body]
            if loops:
                h, body = loops[-1]
                # blocks dominated by a loop exit edge target that is outside the loop
                exits = {s for b in body for s in gf.succ[b] if s not in body}
                # the normal exit is the one not in error blocks
                errb = error_blocks(fin)
                for x in exits:
                    if x in errb:
                        continue
                    fin_after |= {b for b in gf.reach if gf.dominates(x, b)}

    def site_ctx(k, block):
        if WP.ok and k == WP.worker.key:
            return WP.phase_of_block(block)
        if fin is not None and k == fin.key:
            return {"F"} if block in fin_after else {"P"}
        return ctx.get(k, set())

    for r in roots:
        ctx.setdefault(r, set()).add("P")
    if WP.ok:
        ctx.setdefault(WP.worker.key, set()).add("W0p")
    changed = True
    while changed:
        changed = False
        for k in list(ctx):
            for (bi, c) in G.refs.get(k, ()):
                add = site_ctx(k, bi)
                if WP.ok and c == WP.worker.key:
                    continue  # the worker runs in its own contexts, not in the spawner's
                cur = ctx.setdefault(c, set())
                if not add <= cur:
                    cur |= add
                    changed = True
    return ctx, site_ctx


def live_scope(F, G):
    """bodies reachable from what users run: the ragc CLI, the public streaming-compressor,
    decompressor and archive APIs and the worker thread (legacy / unused modules excluded)"""
    roots = ["ragc::main", CORE + "worker_thread"]
    for k, f in F.funcs.items():
        if f.kind != "assocfn" or not f.is_pub():
            continue
        if k.startswith(SQC) or k.startswith("ragc_core::decompressor::Decompressor::") or \
                k.startswith("ragc_common::archive::Archive::"):
            roots.append(k)
    roots = [r for r in roots if r in F.funcs]
    return {k for k in G.reachable(roots) if "streaming_compressor_queue_legacy" not in k}
