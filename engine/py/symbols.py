"""Tables extracted from the code: symbol domain, per-base maps, LZ alphabets (DESIGN 3.10)."""
import re

from absint import Interp, Undecidable, Panic, tabulate
from cfg import cfg_of
from expr import Exprs, fmt, walk, contains
from mirutil import for_loops, is_call

CNV = "ragc_core::genome_io::CNV_NUM"


def cnv_num(F):
    c = F.consts.get(CNV)
    return list(c["bytes"]) if c and "bytes" in c else None


def loop_item_table(F, func, loop, domain, stop_call, extra_env=None, by_ref=True, max_steps=4000):
    """For a `for x in iter` loop: for each value v of the loop item, interpret the loop body from the
    Some-arm of next() until a call matching stop_call (-> its last argument's value) or until
    control returns to the loop head / leaves the loop (-> None = nothing pushed)."""
    g = cfg_of(func)
    nb = loop["next_block"]
    t = func.blocks[nb]["term"]
    opt_local = t["dest"]["l"]
    sw = func.blocks[t["t"]]["term"]
    hops = 0
    sb = t["t"]
    while sw["k"] != "switch" and hops < 3:
        sb = sw.get("t")
        sw = func.blocks[sb]["term"]
        hops += 1
    some = None
    for val, tb in sw["targets"]:
        if val == 1:
            some = tb
    if some is None:
        raise Undecidable("no Some arm for loop in %s" % func.key)
    head = loop["head"]
    out = {}
    for v in domain:
        it = Interp(F, max_steps=max_steps)
        env = dict(extra_env or {})
        env[opt_local] = {"__adt": "core::option::Option", "__var": "Some", 0: ("refval", v) if by_ref else v, "0": ("refval", v) if by_ref else v}

        def stop(b, term, interp, _first=[True]):
            if term["k"] == "call" and not term.get("indirect") and re.search(stop_call, term["callee"]):
                return ("PUSH", interp.operand(term["args"][-1]))
            if b == nb:
                return ("NONE", None)
            return None
        try:
            r = it.run(func, env, some, stop)
        except Panic:
            out[v] = "PANIC"
            continue
        if isinstance(r, tuple) and r and r[0] == "PUSH":
            out[v] = r[1]
        else:
            out[v] = None
    return out


def input_table(F):
    """byte -> symbol code pushed by the FASTA reader (None = dropped), from read_contig_impl"""
    fs = F.find(r"genome_io::GenomeIO::<R>::read_contig_impl$")
    if len(fs) != 1:
        raise Undecidable("read_contig_impl not found")
    f = fs[0]
    ex = Exprs(f)
    loops = [L for L in for_loops(f, ex)]
    if len(loops) != 1:
        raise Undecidable("expected one byte loop in read_contig_impl, found %d" % len(loops))
    conv = [l for l, n in f.arg_names().items() if n == "converted"]
    env = {conv[0]: 1} if conv else {}
    tab = loop_item_table(F, f, loops[0], range(256), r"Vec::<u8>::push$|Vec::<T, A>::push$", extra_env=env)
    return f, tab


def symbol_domain(F):
    f, tab = input_table(F)
    return sorted({v for v in tab.values() if isinstance(v, int)}), tab, f


def rc_maps(F, live):
    """closures passed to `.iter().rev().map(..)` over u8 that return u8, in live code:
    list of (closure func, parent key, table)"""
    out = []
    for f in F.funcs.values():
        if f.key not in live:
            continue
        for bi, t in f.calls():
            if t.get("indirect") or not t["callee"].endswith("Iterator::map"):
                continue
            if "Rev<core::slice::iter::Iter<" not in t.get("callee_disp", "") or not t["gargs"] or "u8" not in t["gargs"][0]:
                continue
            a = t["args"][1]
            l = a.get("pl", {}).get("l")
            ck = f.locals[l].get("closure") if l is not None else None
            c = F.funcs.get(ck) if ck else None
            if c is None or c.locals[0]["ty"] != "u8":
                continue
            byref = c.locals[2]["ty"].startswith("&") if len(c.locals) > 2 else False
            try:
                tab = tabulate(F, c, prefix_args=[{}], by_ref=byref)
            except Undecidable as e:
                tab = {"error": str(e)}
            out.append((c, f.key, tab, "%s:%s" % (t["sp"]["file"], t["sp"]["line"])))
    return out


def valset(e, env, depth=0):
    """set of values an expression tree (keep_casts=True) can take; env: param name -> set"""
    if not isinstance(e, tuple) or depth > 20:
        return None
    k = e[0]
    if k == "const" and isinstance(e[1], int):
        return {e[1]}
    if k in ("param", "var", "upvar"):
        return env.get(e[1])
    if k == "cast":
        s = valset(e[1], env, depth + 1)
        if s is None:
            return None
        from absint import wrap
        return {wrap(x, e[2]) for x in s}
    if k == "bin":
        op = e[1]
        if op == "Rem":
            b = valset(e[3], env, depth + 1)
            if b and len(b) == 1 and list(b)[0] > 0:
                a = valset(e[2], env, depth + 1)
                m = list(b)[0]
                if a is not None:
                    return {x % m for x in a}
                return set(range(m))       # non-negative dividend assumed by the caller's guard
            return None
        a, b = valset(e[2], env, depth + 1), valset(e[3], env, depth + 1)
        if a is None or b is None:
            return None
        f = {"Add": lambda x, y: x + y, "Sub": lambda x, y: x - y, "Mul": lambda x, y: x * y,
             "BitAnd": lambda x, y: x & y, "BitOr": lambda x, y: x | y}.get(op)
        if op == "Div" and len(b) == 1 and list(b)[0] > 0 and all(x >= 0 for x in a):
            m = list(b)[0]
            return {x // m for x in a}
        if op == "Shr" and len(b) == 1 and all(x >= 0 for x in a):
            return {x >> list(b)[0] for x in a}
        if f is None:
            return None
        return {f(x, y) for x in a for y in b}
    return None


def guard_env(f, bi, ex, e, limit=4096):
    """value sets for the opaque variables of expression e at block bi, from the linear guards that dominate the site:
    a variable with a constant upper bound (and a lower bound, or an unsigned type) ranges over an interval"""
    from mirutil import known_le0
    from expr import walk
    names = {l: n for l, n in f.local_names().items()}
    tys = {n: f.locals[l]["ty"] for l, n in names.items()}
    out = {}
    known = known_le0(f, bi, ex)
    known = [k[1] if isinstance(k, tuple) else k for k in known]
    for x in walk(e):
        if not (isinstance(x, tuple) and x[0] in ("var", "param") and isinstance(x[1], str)) or x[1] in out:
            continue
        key = repr(x)
        lo = 0 if tys.get(x[1], "").startswith("u") else None
        hi = None
        for form in known:
            nz = {k: v for k, v in form.items() if k != "1" and v}
            if set(nz) != {key}:
                continue
            c = form.get("1", 0)
            if nz[key] == 1:            # v + c <= 0
                hi = -c if hi is None else min(hi, -c)
            elif nz[key] == -1:         # -v + c <= 0  ->  v >= c
                lo = c if lo is None else max(lo, c)
        if lo is not None and hi is not None and 0 <= hi - lo <= limit:
            out[x[1]] = set(range(lo, hi + 1))
    return out


def line_readers(F):
    """local helpers of the FASTA reader that return what `read_until` returned (io::Result<usize>): they stand for read_until in
    the rules about line handling (that they hand the result on unchanged is C16-READ's clause)"""
    import re as _re
    out = set()
    for f in F.funcs.values():
        if f.crate != "ragc_core" or not _re.search(r"^ragc_core::genome_io::", f.key):
            continue
        if not any(t["k"] == "call" and not t.get("indirect") and _re.search(r"BufRead>?::read_until$", t["callee"]) for _, t in f.calls()):
            continue
        if _re.search(r"-> (std::io::(error::)?Result<usize>|core::result::Result<usize, std::io::(error::)?Error>)", f.d.get("sig", "")):
            out.add(f.key)
    return out
