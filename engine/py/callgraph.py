"""Whole-workspace call graph over resolved callees (DESIGN 3.1)."""
import re


class CallGraph:
    def __init__(self, facts):
        self.F = facts
        self.out = {}      # caller key -> set(callee key)  (local bodies only)
        self.ext = {}      # caller key -> set(external callee path)
        self.sites = {}    # caller key -> list of (block, term, callee key or path)
        self.inn = {}
        self.refs = {}     # caller key -> list of (block, local callee key) for every kind of edge
        funcs = facts.funcs
        # trait method decl -> local impl bodies (for unresolved / virtual calls)
        self.trait_impls = {}
        for k, f in funcs.items():
            tr = f.d.get("trait")
            if tr:
                m = k.rsplit("::", 1)[-1]
                self.trait_impls.setdefault(tr + "::" + m, []).append(k)
        # generic keys: several monomorphic callee paths print identically to the body key
        for k, f in funcs.items():
            o = self.out.setdefault(k, set())
            rf = self.refs.setdefault(k, [])
            e = self.ext.setdefault(k, set())
            sl = self.sites.setdefault(k, [])
            for bi, t in f.calls(include_cleanup=False):
                if t.get("indirect"):
                    sl.append((bi, t, None))
                    continue
                c = t["callee"]
                if c in funcs:
                    o.add(c)
                    rf.append((bi, c))
                    sl.append((bi, t, c))
                else:
                    hit = False
                    if t.get("inst_kind") in ("unresolved", "Virtual"):
                        for ik in self.trait_impls.get(t["decl"], []):
                            o.add(ik)
                            rf.append((bi, ik))
                            hit = True
                    e.add(c)
                    sl.append((bi, t, c))
            # closures and fn items mentioned in the body are treated as potentially invoked
            for bi, b in enumerate(f.blocks):
                if b["cleanup"]:
                    continue
                for st in b["stmts"]:
                    if st["k"] != "assign":
                        continue
                    rv = st["rv"]
                    if rv["k"] == "agg" and rv["ak"] == "closure" and rv["closure"] in funcs:
                        o.add(rv["closure"])
                        rf.append((bi, rv["closure"]))
                    for op in _operands_of_rv(rv):
                        if op["k"] == "const" and "fn" in op and op["fn"] in funcs:
                            o.add(op["fn"])
                            rf.append((bi, op["fn"]))
                t = b["term"]
                if t["k"] == "call":
                    for a in t["args"]:
                        if a["k"] == "const" and "fn" in a and a["fn"] in funcs:
                            o.add(a["fn"])
                            rf.append((bi, a["fn"]))
                        # zero-sized closures are passed as constants of closure type
                        if a["k"] == "const" and a.get("ty", "") in _closure_ty_index(funcs):
                            ck = _closure_ty_index(funcs)[a["ty"]]
                            o.add(ck)
                            rf.append((bi, ck))
            for l in f.locals:
                c = l.get("closure")
                if c and c in funcs and c != k and funcs[c].root == (f.root or k):
                    # closure-typed local: only link closures defined directly in this body
                    if funcs[c].parent == k:
                        if c not in o:
                            rf.append((0, c))
                        o.add(c)
        for k, cs in self.out.items():
            for c in cs:
                self.inn.setdefault(c, set()).add(k)

    def reachable(self, roots, stop=None):
        seen = set()
        st = list(roots)
        while st:
            x = st.pop()
            if x in seen:
                continue
            if stop and stop(x):
                continue
            seen.add(x)
            st.extend(self.out.get(x, ()))
        return seen

    def callers(self, key):
        return self.inn.get(key, set())

    def path(self, root, target_pred):
        """shortest call path from root to a function satisfying target_pred"""
        from collections import deque
        q = deque([root])
        prev = {root: None}
        while q:
            x = q.popleft()
            if target_pred(x):
                p = []
                while x is not None:
                    p.append(x)
                    x = prev[x]
                return list(reversed(p))
            for c in sorted(self.out.get(x, ())):
                if c not in prev:
                    prev[c] = x
                    q.append(c)
        return None

    def transitive(self, local_pred_sites):
        """propagate a boolean effect: local_pred_sites(key) -> truthy if the body itself has it.
        Returns dict key -> bool (has effect itself or via callees)."""
        has = {k: bool(local_pred_sites(k)) for k in self.out}
        changed = True
        while changed:
            changed = False
            for k, cs in self.out.items():
                if not has[k] and any(has.get(c) for c in cs):
                    has[k] = True
                    changed = True
        return has


_CTI = {}


def _closure_ty_index(funcs):
    """type string of a capture-less closure -> its key (they appear as ZST constants)"""
    i = id(funcs)
    if i not in _CTI:
        _CTI.clear()
        _CTI[i] = {}
    return _CTI[i]


def _operands_of_rv(rv):
    k = rv["k"]
    if k in ("use", "cast", "repeat"):
        yield rv["op"]
    elif k == "binop":
        yield rv["a"]
        yield rv["b"]
    elif k == "unop":
        yield rv["a"]
    elif k == "agg":
        for o in rv["ops"]:
            yield o


def ext_calls(func, pattern):
    """call sites in func whose resolved callee (or decl) matches the regex"""
    r = re.compile(pattern)
    for bi, t in func.calls():
        if t.get("indirect"):
            continue
        if r.search(t["callee"]) or r.search(t.get("decl", "")):
            yield bi, t
