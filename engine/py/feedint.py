"""Interpretation of a record-stream consumer (C11-P10): layerint.LayerInterp plus
  * a FASTA reader replaced by a *feed* of records: `GenomeIO::open(path)` yields a reader over world["feed"],
    `read_contig_with_sample` pops (header, sample, contig, bases) from it (what that function does with a header is decided
    by C19-G8/G9);
  * hash sets as python sets (`AHashSet` / `HashSet`: new, default, insert, contains, len, extend, collect);
  * owned strings as python str, `Option<&String>` comparison by value, `Vec::extend`, the radix sort as a sort.
Everything else fails closed (Undecidable).
"""
import re

from absint import Undecidable, Panic
from vecint import some, NONE
from layerint import LayerInterp, ok


def mkset(xs=()):
    return {"__set": set(xs)}


class FeedInterp(LayerInterp):
    def deep(self, v, hops=0):
        """value with references resolved (for comparisons)"""
        v = self.target(v)
        if isinstance(v, dict) and v.get("__adt") == "core::option::Option" and v.get("__var") == "Some":
            return ("Some", self.deep(v.get(0, v.get("0")), hops + 1))
        if isinstance(v, dict) and v.get("__adt") == "core::option::Option":
            return ("None",)
        return v

    def drain(self, it):
        """the remaining items of a (lazy) iterator value, in order"""
        if isinstance(it, list):
            return list(it)
        if isinstance(it, dict) and "__iter" in it:
            rest = it["__iter"][it["pos"]:]
            it["pos"] = len(it["__iter"])
            return list(rest)
        if isinstance(it, dict) and "__map" in it:
            out = []
            for x in self.drain(it["__map"]):
                arg = ("refval", x) if isinstance(x, (list, dict)) else x
                out.append(self.target(self.call_closure(it["f"], [arg])))
            return out
        if isinstance(it, dict) and "__flat" in it:
            out = []
            for x in self.drain(it["__flat"]):
                x = self.target(x)
                if not isinstance(x, list):
                    raise Undecidable("flatten of a non-vector item")
                out.extend(x)
            return out
        raise Undecidable("iterator %r" % (type(it),))

    def do_call(self, t):
        if t.get("indirect"):
            raise Undecidable("indirect call")
        c = t["callee"]
        if t["sp"].get("exp") and t["sp"].get("mac") in ("eprintln", "println", "eprint", "print", "format", "debug", "trace", "log"):
            return ("opaque", c)
        if re.search(r"genome_io::GenomeIO::<.*>::open$", c):
            return ok({"__feed": list(self.world["feed"]), "pos": 0})
        if re.search(r"genome_io::GenomeIO::<.*>::read_contig_with_sample$", c):
            rd = self.target(self.operand(t["args"][0]))
            if not (isinstance(rd, dict) and "__feed" in rd):
                raise Undecidable("reader that is not the modelled feed")
            if rd["pos"] >= len(rd["__feed"]):
                return ok(dict(NONE))
            h, s, cn, seq = rd["__feed"][rd["pos"]]
            rd["pos"] += 1
            self.world.setdefault("reads", []).append(h)
            return ok(some({0: h, 1: s, 2: cn, 3: list(seq)}))
        raw = [self.operand(a) for a in t["args"]]
        a = [self.target(x) for x in raw]
        if re.search(r"(Clone>::clone|Clone::clone|ToString>::to_string|ToOwned>::to_owned|String as core::ops::deref::Deref>::deref|String::as_str)$", c) and a and isinstance(a[0], str):
            return a[0]
        if re.search(r"alloc::string::String::new$", c):
            return ""
        if re.search(r"(String|str::<impl str>)::is_empty$", c) and a and isinstance(a[0], str):
            return 1 if a[0] == "" else 0
        if re.search(r"(String|str::<impl str>)::len$", c) and a and isinstance(a[0], str):
            return len(a[0].encode())
        if re.search(r"Option::<T>::(is_none|is_some)$", c) and isinstance(a[0], dict) and a[0].get("__adt") == "core::option::Option":
            return 1 if (a[0].get("__var") == "Some") == c.endswith("is_some") else 0
        if re.search(r"Option::<T>::as_ref$", c) and isinstance(a[0], dict) and a[0].get("__adt") == "core::option::Option":
            if a[0].get("__var") != "Some":
                return dict(NONE)
            return some(("refval", a[0].get(0, a[0].get("0"))))
        if re.search(r"cmp::PartialEq(<[^>]*>)?( for [^>]*)?>?::(eq|ne)$", c) and len(a) == 2:
            x, y = self.deep(raw[0]), self.deep(raw[1])
            if any(isinstance(z, tuple) and z and z[0] == "opaque" for z in (x, y)):
                raise Undecidable("comparison of opaque values")
            return 1 if ((x == y) == c.endswith("::eq")) else 0
        if re.search(r"(AHashSet::<T(, S)?>|HashSet::<T, S>|HashSet::<T>)::(new|default|with_capacity)$|Default for ahash::(hash_set::)?AHashSet<T(, S)?>>::default$|AHashSet<T, S> as core::default::Default>::default$", c):
            return mkset()
        if re.search(r"Deref(Mut)?>::deref(_mut)?$|Deref(Mut)? for ahash::(hash_set::)?AHashSet<T, S>>::deref(_mut)?$", c) and isinstance(a[0], dict) and "__set" in a[0]:
            return ("refval", a[0])
        if re.search(r"HashSet::<T, S(, A)?>::insert$|AHashSet::<T, S(, A)?>::insert$", c) and isinstance(a[0], dict) and "__set" in a[0]:
            v = a[1]
            if not isinstance(v, (int, str)):
                raise Undecidable("set element that is not a scalar")
            new = v not in a[0]["__set"]
            a[0]["__set"].add(v)
            return 1 if new else 0
        if re.search(r"HashSet::<T, S(, A)?>::contains$", c) and isinstance(a[0], dict) and "__set" in a[0]:
            return 1 if a[1] in a[0]["__set"] else 0
        if re.search(r"HashSet::<T, S(, A)?>::(len)$", c) and isinstance(a[0], dict) and "__set" in a[0]:
            return len(a[0]["__set"])
        if re.search(r"HashSet::<T, S(, A)?>::(is_empty)$", c) and isinstance(a[0], dict) and "__set" in a[0]:
            return 1 if not a[0]["__set"] else 0
        if re.search(r"Extend<\w+>>::extend$|Extend<T> for [^>]*>::extend$|Extend<T>>::extend$", c):
            src = a[1]
            if isinstance(src, dict) and "__iter" in src:
                src = src["__iter"][src["pos"]:]
            if isinstance(src, dict) and "__set" in src:
                src = sorted(src["__set"])
            if not isinstance(src, list):
                raise Undecidable("extend from %r" % (type(src),))
            if isinstance(a[0], dict) and "__set" in a[0]:
                a[0]["__set"].update(src)
                return {}
            if isinstance(a[0], list):
                a[0].extend(list(src))
                return {}
            raise Undecidable("extend of an unmodelled collection")
        if re.search(r"IntoParallelRefIterator<'\w+>>::par_iter$|IntoParallelRefIterator::par_iter$|IntoParallelIterator>::into_par_iter$|IntoParallelIterator::into_par_iter$", c) and isinstance(a[0], list):
            return {"__iter": a[0], "pos": 0}          # rayon's indexed iterators keep the order of their input (assumption of C11)
        if re.search(r"(Iterator|ParallelIterator)::map$", c) and isinstance(a[0], (dict, list)):
            return {"__map": a[0], "f": a[1]}
        if re.search(r"(Iterator|ParallelIterator)::flatten$", c) and isinstance(a[0], (dict, list)):
            return {"__flat": a[0]}
        if re.search(r"Iterator::sum$", c) and isinstance(a[0], (dict, list)):
            xs = self.drain(a[0])
            if not all(isinstance(x, int) for x in xs):
                raise Undecidable("sum of non-integers")
            return sum(xs)
        if re.search(r"(Iterator|ParallelIterator)::collect$", c) and isinstance(a[0], dict) and ("__map" in a[0] or "__flat" in a[0]):
            xs = self.drain(a[0])
            want = (t.get("gargs") or ["", ""])[-1]
            if "HashSet" in want:
                return mkset(xs)
            if want.startswith("alloc::vec::Vec<"):
                return list(xs)
            raise Undecidable("collect into %s" % want)
        if re.search(r"Iterator::collect$", c):
            src = a[0]
            if isinstance(src, dict) and "__iter" in src:
                src = src["__iter"][src["pos"]:]
            if isinstance(src, list):
                want = (t.get("gargs") or ["", ""])[-1]
                if "HashSet" in want:
                    return mkset(src)
                if want.startswith("alloc::vec::Vec<"):
                    return list(src)
            raise Undecidable("collect of %r" % (type(src),))
        if re.search(r"radix_sort_unstable$|slice::<impl \[T\]>::(sort|sort_unstable)$", c) and isinstance(a[0], list):
            a[0].sort()
            return {}
        if re.search(r"std::path::Path::new$|AsRef<[^>]*>>::as_ref$", c):
            return a[0]
        return LayerInterp.do_call(self, t)
