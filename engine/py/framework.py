"""Check framework: fact cache, report object, evidence writer, known findings."""
import fcntl
import glob
import hashlib
import json
import os
import shutil
import subprocess
import sys
import time

VERIF = os.path.dirname(os.path.dirname(os.path.dirname(os.path.abspath(__file__))))
CACHE = os.path.join(VERIF, ".cache")
DRIVER = os.path.join(VERIF, "engine", "driver", "target", "release", "ragc-facts")
MEMBERS = ["ragc-common", "ragc-core", "ragc-cli", "compare_archives"]
EXPECTED_CRATES = ["ragc_common", "ragc_core", "ragc", "split_fasta", "compare_archives"]

CONFIGS = {
    "dev": {"rustflags": "-Zmir-opt-level=0 -Awarnings -Coverflow-checks=on -Cdebug-assertions=on", "features": []},
    "rel": {"rustflags": "-Zmir-opt-level=0 -Awarnings -Coverflow-checks=off -Cdebug-assertions=off", "features": []},
    "vdbg": {"rustflags": "-Zmir-opt-level=0 -Awarnings -Coverflow-checks=on -Cdebug-assertions=on",
             "features": ["ragc-core/verbose_debug"]},
}


class InfraError(Exception):
    pass


def repo_root():
    return os.environ.get("VERIF_REPO", "/repo")


def source_hash(repo):
    h = hashlib.sha256()
    files = []
    for root, dirs, fs in os.walk(repo):
        dirs[:] = sorted(d for d in dirs if d not in ("target", ".git"))
        for f in sorted(fs):
            if f.endswith(".rs") or f in ("Cargo.toml", "Cargo.lock"):
                files.append(os.path.join(root, f))
    for p in files:
        h.update(os.path.relpath(p, repo).encode())
        h.update(b"\0")
        with open(p, "rb") as fh:
            h.update(fh.read())
        h.update(b"\0")
    try:
        st = os.stat(DRIVER)
        h.update(("%d:%d" % (st.st_size, int(st.st_mtime))).encode())
    except OSError:
        pass
    return h.hexdigest()[:20]


def sysroot():
    return subprocess.check_output(["rustc", "+nightly", "--print", "sysroot"], text=True).strip()


def ensure_driver():
    if not os.path.exists(DRIVER):
        env = dict(os.environ, CARGO_NET_OFFLINE="true")
        r = subprocess.run(["cargo", "build", "--release", "--offline"], cwd=os.path.join(VERIF, "engine", "driver"),
                           env=env, stdout=subprocess.PIPE, stderr=subprocess.STDOUT, text=True)
        if r.returncode != 0 or not os.path.exists(DRIVER):
            raise InfraError("cannot build fact extractor:\n" + r.stdout[-3000:])


def ensure_facts(cfg="dev"):
    """returns the directory holding the fact files for the current working tree of the repo"""
    repo = repo_root()
    os.makedirs(CACHE, exist_ok=True)
    lock = open(os.path.join(CACHE, "lock"), "w")
    fcntl.flock(lock, fcntl.LOCK_EX)
    try:
        ensure_driver()
        hsh = source_hash(repo)
        out = os.path.join(CACHE, "facts", hsh, cfg)
        stamp = os.path.join(out, "OK")
        if os.path.exists(stamp) and all(os.path.exists(os.path.join(out, c + ".json")) for c in EXPECTED_CRATES):
            os.utime(stamp)
            os.utime(os.path.dirname(out))          # the collector below goes by the age of the per-tree directory
            return out
        if os.path.isdir(out):
            shutil.rmtree(out)
        os.makedirs(out)
        tdir = os.path.join(CACHE, "target", cfg)
        os.makedirs(tdir, exist_ok=True)
        # cargo's freshness cache would skip the wrapper: drop the members' fingerprints
        for prof in ("debug",):
            fpd = os.path.join(tdir, prof, ".fingerprint")
            for m in MEMBERS:
                for p in glob.glob(os.path.join(fpd, m + "-*")):
                    shutil.rmtree(p, ignore_errors=True)
        env = dict(os.environ)
        env.update({
            "LD_LIBRARY_PATH": os.path.join(sysroot(), "lib") + ":" + env.get("LD_LIBRARY_PATH", ""),
            "RAGC_FACTS_DIR": out,
            "RUSTFLAGS": CONFIGS[cfg]["rustflags"],
            "RUSTC_WORKSPACE_WRAPPER": DRIVER,
            "CARGO_TARGET_DIR": tdir,
            "CARGO_NET_OFFLINE": "true",
            "CARGO_INCREMENTAL": "0",
        })
        env.pop("RUSTC_WRAPPER", None)
        cmd = ["cargo", "+nightly", "check", "--offline", "--workspace"]
        for ft in CONFIGS[cfg]["features"]:
            cmd += ["--features", ft]
        t0 = time.time()
        r = subprocess.run(cmd, cwd=repo, env=env, stdout=subprocess.PIPE, stderr=subprocess.STDOUT, text=True)
        if r.returncode != 0:
            shutil.rmtree(out, ignore_errors=True)
            raise InfraError("cargo check of %s failed (the tree does not compile?):\n%s" % (repo, r.stdout[-4000:]))
        for c in EXPECTED_CRATES:
            p = os.path.join(out, c + ".json")
            if not os.path.exists(p) or os.path.getmtime(p) < t0 - 1:
                shutil.rmtree(out, ignore_errors=True)
                raise InfraError("fact file for crate %s was not (re)written by the extractor" % c)
        with open(stamp, "w") as fh:
            fh.write("%s %s %.1fs\n" % (hsh, cfg, time.time() - t0))
        _gc(os.path.join(CACHE, "facts"), keep=8)
        return out
    finally:
        fcntl.flock(lock, fcntl.LOCK_UN)
        lock.close()


def _gc(d, keep):
    try:
        ents = [(os.path.getmtime(os.path.join(d, e)), e) for e in os.listdir(d)]
    except OSError:
        return
    ents.sort(reverse=True)
    now = time.time()
    for mt, e in ents[keep:]:
        if now - mt < 2 * 3600:
            continue        # possibly in use by a check that is still running (other trees are analysed concurrently)
        shutil.rmtree(os.path.join(d, e), ignore_errors=True)


# ---------------------------------------------------------------- report
class Report:
    def __init__(self, pid, tier):
        self.pid = pid
        self.tier = tier
        self.obligations = []   # dict(rule, instance, ok, how, detail, site)
        self.notes = []
        self.floors = []
        self.stats = {}
        self.explanation = ""
        self.assumptions = []
        self.undecided = ""

    def ob(self, rule, instance, ok, detail="", site=None, how="auto", key=None):
        """one rule instance (= obligation).  `key` identifies it without line numbers."""
        self.obligations.append({
            "rule": rule, "instance": instance, "ok": bool(ok), "how": how, "detail": detail,
            "site": site, "key": key or ("%s | %s" % (rule, instance)),
        })
        return bool(ok)

    def floor(self, rule, found, expected, what):
        ok = found >= expected
        self.floors.append({"rule": rule, "found": found, "expected_at_least": expected, "what": what, "ok": ok})
        if not ok:
            self.ob(rule + "-FLOOR", what, False,
                    "rule matched %d instance(s) of '%s', fewer than the %d confirmed by hand: anchor lost (fail closed)"
                    % (found, what, expected))
        return ok

    def note(self, text):
        self.notes.append(text)

    def stat(self, k, v):
        self.stats[k] = v

    def violations(self):
        return [o for o in self.obligations if not o["ok"]]


def site_of(func, term_or_stmt):
    sp = term_or_stmt.get("sp") or {}
    return "%s:%s" % (sp.get("file", func.file), sp.get("line", "?"))


def load_known():
    p = os.path.join(VERIF, "known_findings.json")
    if not os.path.exists(p):
        return {"findings": [], "fixed": []}
    with open(p) as fh:
        return json.load(fh)


def finish(rep, t0, facts_info, level="other"):
    """write evidence, print verdict lines, return exit code"""
    known = load_known()
    known_keys = {(k["property"], k["key"]): k for k in known.get("findings", [])}
    viol = []
    seen_keys = set()
    for v in rep.violations():          # the same instance can be found in several build configurations
        if v["key"] in seen_keys:
            continue
        seen_keys.add(v["key"])
        viol.append(v)
    new = []
    kn = []
    for v in viol:
        kk = (rep.pid, v["key"])
        if kk in known_keys:
            kn.append((v, known_keys[kk]))
        else:
            new.append(v)
    os.makedirs(os.path.join(VERIF, "evidence"), exist_ok=True)
    os.makedirs(os.path.join(VERIF, "reports"), exist_ok=True)
    rules = sorted({o["rule"] for o in rep.obligations})
    nontrivial = {o["key"] for o in rep.obligations if o["how"] != "trivial"}
    samples = []
    seen_rules = set()
    for o in rep.obligations:
        if o["rule"] not in seen_rules:
            seen_rules.add(o["rule"])
            samples.append({k: o[k] for k in ("rule", "instance", "ok", "how", "detail", "site")})
    for o in viol[:20]:
        samples.append({k: o[k] for k in ("rule", "instance", "ok", "how", "detail", "site")})
    cov = {
        "explanation": rep.explanation,
        "not_decided": rep.undecided,
        "obligations": len(rep.obligations),
        "discharged": len([o for o in rep.obligations if o["ok"]]),
        "auto_discharged": len([o for o in rep.obligations if o["ok"] and o["how"] != "table"]),
        "table_discharged": len([o for o in rep.obligations if o["ok"] and o["how"] == "table"]),
        "evaluations": len(rep.obligations),
        "distinct_nontrivial": len(nontrivial),
        "rule": "one evaluation = one rule instance (a call site, path, table entry or sibling pair) found in the "
                "MIR of the current tree; distinct = distinct instance keys (rule | function | site descriptor, no "
                "line numbers); an instance is trivial when it is a bare type/visibility lookup",
        "rules": rules,
        "floors": rep.floors,
        "samples": samples,
        "notes": rep.notes,
        "known_findings_hit": [k["key"] for _, k in kn],
        "checker_cmd": "./check %s --tier %s" % (rep.pid, rep.tier),
        "trusted_base": rep.assumptions,
    }
    cov.update(facts_info)
    cov.update(rep.stats)
    ev = {
        "property_id": rep.pid,
        "tier": rep.tier,
        "seed": int(os.environ.get("VERIF_SEED", "0") or 0),
        "level": level,
        "coverage": cov,
        "assumptions": rep.assumptions,
        "wall_s": round(time.time() - t0, 3),
        "violations": len(new),
    }
    with open(os.path.join(VERIF, "evidence", rep.pid + ".json"), "w") as fh:
        json.dump(ev, fh, indent=1, sort_keys=False)
        fh.write("\n")
    print("property=%s tier=%s obligations=%d discharged=%d violations=%d known=%d wall=%.1fs" % (
        rep.pid, rep.tier, cov["obligations"], cov["discharged"], len(new), len(kn), ev["wall_s"]))
    for fl in rep.floors:
        if not fl["ok"]:
            print("FLOOR %s: found %d < %d (%s)" % (fl["rule"], fl["found"], fl["expected_at_least"], fl["what"]))
    for v, k in kn:
        print("KNOWN-FINDING: property=%s %s" % (rep.pid, k.get("what", v["key"])))
    code = 0
    for i, v in enumerate(new):
        path = os.path.join(VERIF, "reports", "%s-%d.json" % (rep.pid, i))
        with open(path, "w") as fh:
            json.dump({"property": rep.pid, "violation": v, "repo": repo_root()}, fh, indent=1)
        print("  %s  %s  %s\n      %s" % (v["site"] or "-", v["rule"], v["instance"], v["detail"]))
        print("VIOLATION property=%s replay=%s" % (rep.pid, path))
        code = 1
    return code
